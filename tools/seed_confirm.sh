#!/bin/bash
# usage: tools/seed_confirm.sh <Cxx> [suffix]   -- confirms a seeded change in /tmp/seed-<Cxx><suffix> and archives it in /verif/seeded/<Cxx><suffix>/
id=$1; sfx=$2; W=/tmp/seed-$id$sfx; O=/verif/seeded/$id$sfx
[ -f $W/SEED/patch.diff ] || { echo "no patch"; exit 1; }
mkdir -p $O
cd $W
log=$O/confirm.log; : > $log
# state: change applied (agents leave it applied). Normalise: revert everything tracked, then apply the patch.
git checkout -q -- . 2>>$log
git apply SEED/patch.diff 2>>$log || { echo "patch does not apply" | tee -a $log; exit 1; }
echo "== suite WITH change" >> $log
cargo test --workspace --no-fail-fast --offline 2>&1 | grep -E "^test result|^test .* FAILED|^error" > $O/suite_with.txt
with_pass=$(grep -oE "[0-9]+ passed" $O/suite_with.txt | awk '{s+=$1} END{print s}')
with_fail=$(grep -E "^test .* FAILED" $O/suite_with.txt | sort -u | tr '\n' ';')
echo "with: passed=$with_pass failed=[$with_fail]" | tee -a $log
echo "== demo WITH change" >> $log
bash SEED/run_demo.sh > $O/demo_with.txt 2>&1; dw=$?
echo "demo with change exit=$dw" | tee -a $log
git apply -R SEED/patch.diff
echo "== demo WITHOUT change" >> $log
bash SEED/run_demo.sh > $O/demo_without.txt 2>&1; dwo=$?
echo "demo without change exit=$dwo" | tee -a $log
git apply SEED/patch.diff
cp SEED/patch.diff $O/patch.diff
cp SEED/meta.json $O/agent_meta.json 2>/dev/null
rm -rf $O/demo; mkdir -p $O/demo; cp -r SEED/* $O/demo/ 2>/dev/null; rm -rf $O/demo/demo/target $O/demo/target
ok=no; [ "$dw" != "0" ] && [ "$dwo" = "0" ] && [ "$with_pass" -ge 3371 ] && ok=yes
echo "CONFIRMED=$ok" | tee -a $log
