#!/usr/bin/env python3
"""tools/mutate.py <Cxx> <n> <seed> [--files f1,f2]: n single-line mutants of the property's anchor files (Rust sources only), drawn from
the lines the property's quick tier EXECUTES (lcov data of tools/coverage.sh: a mutant on a line no case reaches survives for sure and
says nothing new). Writes /var/tmp/mut/<Cxx>/plan.json = [{"id", "file", "line", "old", "new", "op"}].
Operators: relational (< <= > >= == !=), boolean (&& ||, negation dropped), arithmetic (+ - on integers/indices), off-by-one on small
integer literals, true/false, .rev() dropped, min/max swapped, Some(..) guard lines (`?` kept), early `return` of a guard dropped."""
import json, os, random, re, subprocess, sys

pid, n, seed = sys.argv[1], int(sys.argv[2]), int(sys.argv[3])
only = None
if "--files" in sys.argv:
    only = sys.argv[sys.argv.index("--files") + 1].split(",")
COV = "/var/tmp/vcov"
BIN = os.path.join(os.path.dirname(subprocess.run(["rustc", "+nightly", "--print", "target-libdir"], capture_output=True, text=True).stdout.strip()), "bin")
prop = [json.loads(l) for l in open("/verif/properties.jsonl") if json.loads(l)["id"] == pid][0]
files = [f for f in prop["anchors"]["files"] if f.endswith(".rs")]
if only:
    files = [f for f in files if any(f.endswith(o) for o in only)]
lcov = subprocess.run([BIN + "/llvm-cov", "export", "--format=lcov", COV + "/target/release/vdrv", "-object", COV + "/target/release/vsrv", "-instr-profile=%s/prof/%s.profdata" % (COV, pid)]
                      + ["/repo/" + f for f in files], capture_output=True, text=True).stdout
hits, cur = {}, None
for line in lcov.splitlines():
    if line.startswith("SF:"):
        cur = hits.setdefault(line[3:], {})
    elif line.startswith("DA:") and cur is not None:
        a, b = line[3:].split(",")[:2]
        cur[int(a)] = int(b)

OPS = [
    ("rel", r" <= ", " < "), ("rel", r" >= ", " > "), ("rel", r" < ", " <= "), ("rel", r" > ", " >= "), ("rel", r" == ", " != "), ("rel", r" != ", " == "),
    ("bool", r" && ", " || "), ("bool", r" \|\| ", " && "), ("neg", r"if !", "if "), ("neg", r"\(!", "("),
    ("arith", r" \+ 1\b", " + 2"), ("arith", r" - 1\b", " - 2"), ("arith", r" \+ 1\b", ""), ("arith", r" - 1\b", ""), ("arith", r" \+ ", " - "), ("arith", r" - ", " + "),
    ("const", r"(?<![\w.])0(?![\w.])", "1"), ("const", r"(?<![\w.])1(?![\w.])", "0"), ("const", r"(?<![\w.])1(?![\w.])", "2"), ("const", r"\btrue\b", "false"), ("const", r"\bfalse\b", "true"),
    ("iter", r"\.rev\(\)", ""), ("iter", r"\.skip\(1\)", ""), ("minmax", r"\.min\(", ".max("), ("minmax", r"\.max\(", ".min("),
    ("cmpord", r"Ordering::Less", "Ordering::Greater"), ("cmpord", r"Ordering::Greater", "Ordering::Less"),
    ("opt", r"\.is_some\(\)", ".is_none()"), ("opt", r"\.is_none\(\)", ".is_some()"), ("opt", r"\.is_empty\(\)", ".len() == 1"),
    ("idx", r"\[0\]", "[1]"), ("idx", r"\.first\(\)", ".last()"), ("idx", r"\.last\(\)", ".first()"),
]
rnd = random.Random("%s/%d" % (pid, seed))
cands = []
for f in files:
    path = "/repo/" + f
    h = hits.get(path, {})
    src = open(path, encoding="utf-8").read().split("\n")
    in_test = False
    for i, line in enumerate(src, 1):
        if "#[cfg(test)]" in line:
            in_test = True
        st = line.strip()
        if in_test or not st or st.startswith("//") or st.startswith("#[") or h.get(i, 0) <= 0:
            continue
        if "value_null!" in line or "trace" in line or "assert" in line or st.startswith("use "):
            continue
        code = line.split("//")[0]
        for op, pat, rep in OPS:
            for m in re.finditer(pat, code):
                # not inside a string literal (rough: an even number of quotes before the match)
                if code[:m.start()].count('"') % 2:
                    continue
                new = code[:m.start()] + rep + code[m.end():] + line[len(code):]
                cands.append({"file": f, "line": i, "old": line, "new": new, "op": op, "hits": h.get(i, 0)})
rnd.shuffle(cands)
# spread over files and operators: round-robin by (file, op)
buckets = {}
for c in cands:
    buckets.setdefault((c["file"], c["op"]), []).append(c)
plan, keys = [], sorted(buckets)
while len(plan) < n and any(buckets.values()):
    for k in keys:
        if buckets[k] and len(plan) < n:
            plan.append(buckets[k].pop())
for k, c in enumerate(plan):
    c["id"] = "%s-s%d-%03d" % (pid, seed, k)
out = "/var/tmp/mut/%s" % pid
os.makedirs(out, exist_ok=True)
json.dump(plan, open(out + "/plan-%d.json" % seed, "w"), indent=1)
print("%s: %d candidate mutants on executed lines of %d files, %d planned -> %s/plan-%d.json" % (pid, len(cands), len(files), len(plan), out, seed))
