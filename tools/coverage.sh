#!/bin/bash
# usage: tools/coverage.sh build | run <Cxx>... | report [<Cxx>...]
# Line coverage of /repo's crates under the quick tiers: which lines of a property's anchor files does no generated case reach?
# A line that no case reaches cannot be judged by any oracle, so a change there is missed for sure (the converse does not hold).
# The instrumented driver lives in /var/tmp/vcov (not in /verif, not in /repo); remove it afterwards: rm -rf /var/tmp/vcov
C=/var/tmp/vcov; T=$C/target; D=$C/driver; P=$C/prof; O=$C/out
BIN=$(dirname $(rustc +nightly --print target-libdir))/bin
cmd=$1; shift
case $cmd in
build)
  mkdir -p $T $D/.cargo $P $O
  rm -rf $D/src; cp -r /verif/driver/src $D/src; cp /verif/driver/Cargo.toml /verif/driver/Cargo.lock $D/
  printf '[net]\noffline = true\n[build]\ntarget-dir = "%s"\nrustflags = ["--cfg", "dmntk_verif", "-Cinstrument-coverage"]\n' $T > $D/.cargo/config.toml
  (cd $D && CARGO_NET_OFFLINE=true cargo +nightly build --offline --release 2>&1 | tail -2) || exit 2
  rm -rf $T/checked; mkdir -p $T/checked; cp $T/release/vdrv $T/release/vsrv $T/checked/   # one instrumented build serves both profiles
  ;;
run)
  for id in "$@"; do
    mod=$(echo $id | tr A-Z a-z); mkdir -p $P/$id; rm -f $P/$id/*.profraw
    (cd /verif && VERIF_GRACEFUL=1 LLVM_PROFILE_FILE="$P/$id/%p-%m.profraw" VDRV_TARGET=$T VERIF_OUT=$O python3-vt -m pbt.props.$mod --tier quick 2>&1 | grep -E "^\[$id\] tier|^VIOLATION" | cut -c1-160)
    n=0; while pgrep -f "$T/(release|checked)/v(drv|srv)" >/dev/null && [ $n -lt 60 ]; do sleep 1; n=$((n+1)); done   # drivers write their profile when they end
    $BIN/llvm-profdata merge -sparse $P/$id/*.profraw -o $P/$id.profdata 2>/dev/null && rm -f $P/$id/*.profraw
  done
  ;;
report)
  ids="$@"; [ -n "$ids" ] || ids=$(cd $P && ls *.profdata | sed 's/.profdata//')
  for id in $ids; do
    files=$(python3 -c "
import json
for l in open('/verif/properties.jsonl'):
    p=json.loads(l)
    if p['id']=='$id': print(' '.join('/repo/'+f for f in p['anchors']['files'] if f.endswith('.rs')))")
    $BIN/llvm-cov show $T/release/vdrv -object $T/release/vsrv -instr-profile=$P/$id.profdata $files > $O/$id.cov.txt
    python3 /verif/tools/coverage_gaps.py $O/$id.cov.txt > $O/$id.gaps.txt
    echo "$id: $(tail -1 $O/$id.gaps.txt)   -> $O/$id.gaps.txt"
  done
  ;;
union)
  # lines of ALL anchor files that no quick tier of any property reaches
  $BIN/llvm-profdata merge -sparse $P/*.profdata -o $P/ALL.merged
  files=$(python3 -c "
import json
fs=set()
for l in open('/verif/properties.jsonl'):
    fs.update('/repo/'+f for f in json.loads(l)['anchors']['files'] if f.endswith('.rs'))
print(' '.join(sorted(fs)))")
  $BIN/llvm-cov show $T/release/vdrv -object $T/release/vsrv -instr-profile=$P/ALL.merged $files > $O/ALL.cov.txt
  python3 /verif/tools/coverage_gaps.py $O/ALL.cov.txt > $O/ALL.gaps.txt
  tail -1 $O/ALL.gaps.txt; grep "^==" $O/ALL.gaps.txt
  ;;
esac
