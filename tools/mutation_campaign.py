#!/usr/bin/env python3
"""tools/mutation_campaign.py <Cxx> <seed> <slots> [<check id>]: runs the mutants planned by tools/mutate.py against the property's quick tier.
Every slot is a scratch copy of /repo under /var/tmp (never /repo itself) with its own incremental driver build (tools/mutant_run.sh);
a mutant is one replaced source line, reverted before the next one. Results: /var/tmp/mut/<Cxx>/results-<seed>.jsonl
(killed = a VIOLATION line; survived = exit 0; nobuild = does not compile; inconclusive = anything else).
Remove the slots afterwards: rm -rf /var/tmp/mutslot-*"""
import json, os, queue, re, shutil, subprocess, sys, threading, time

pid, seed, slots = sys.argv[1], int(sys.argv[2]), int(sys.argv[3])
check = sys.argv[4] if len(sys.argv) > 4 else pid
plan = json.load(open("/var/tmp/mut/%s/plan-%d.json" % (pid, seed)))
resf = "/var/tmp/mut/%s/results-%d%s.jsonl" % (pid, seed, "" if check == pid else "-" + check)
done = set()
if os.path.exists(resf):
    done = {json.loads(l)["id"] for l in open(resf)}
q = queue.Queue()
for m in plan:
    if m["id"] not in done:
        q.put(m)
lock = threading.Lock()


def worker(k):
    slot = "/var/tmp/mutslot-%d" % k      # shared by consecutive campaigns (warm incremental builds)
    if not os.path.isdir(slot):
        subprocess.run(["rsync", "-a", "--exclude", "target", "--exclude", ".git", "/repo/", slot + "/"], check=True)
    while True:
        try:
            m = q.get_nowait()
        except queue.Empty:
            return
        path = os.path.join(slot, m["file"])
        orig = open("/repo/" + m["file"], encoding="utf-8").read()
        lines = orig.split("\n")
        rec = dict(m)
        if lines[m["line"] - 1] != m["old"]:
            rec["result"] = "stale"
        else:
            lines[m["line"] - 1] = m["new"]
            open(path, "w", encoding="utf-8").write("\n".join(lines))
            shutil.rmtree(slot + "/.vout", ignore_errors=True)
            t0 = time.time()
            try:
                p = subprocess.run(["/verif/tools/mutant_run.sh", slot, check, "--tier", "quick"], capture_output=True, text=True, timeout=1500)
                out, rc = p.stdout + p.stderr, p.returncode
            except subprocess.TimeoutExpired as e:
                out, rc = (e.stdout or b"").decode("utf-8", "replace") if isinstance(e.stdout, bytes) else (e.stdout or ""), -9
            rec["secs"] = round(time.time() - t0)
            sigs = re.findall(r"signature=(\S+)", out)
            if "MUTANT-BUILD-FAILED" in out:
                rec["result"] = "nobuild"
            elif re.search(r"^VIOLATION", out, re.M):
                rec["result"], rec["signatures"] = "killed", sorted(set(sigs))[:3]
            elif rc == 0:
                rec["result"] = "survived"
            else:
                rec["result"], rec["tail"] = "inconclusive", out[-300:]
            open(path, "w", encoding="utf-8").write(orig)
        with lock:
            open(resf, "a").write(json.dumps(rec) + "\n")
            print("%s %s %s:%d %s  [%s] -> [%s]" % (rec["id"], rec["result"], m["file"], m["line"], m["op"], m["old"].strip()[:70], m["new"].strip()[:70]), flush=True)


ts = [threading.Thread(target=worker, args=(k,)) for k in range(slots)]
[t.start() for t in ts]
[t.join() for t in ts]
res = [json.loads(l) for l in open(resf)]
cnt = {}
for r in res:
    cnt[r["result"]] = cnt.get(r["result"], 0) + 1
print("TOTAL", pid, cnt)
