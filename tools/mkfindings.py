#!/usr/bin/env python3
"""prints a markdown summary of known_findings.json + staging files (used for DESIGN.md section 9.2)"""
import json, glob, collections, subprocess
allf = json.load(open('/verif/known_findings.json'))['findings']
for f in sorted(glob.glob('/verif/findings/*.known.json')):
    allf += json.load(open(f))['findings']
subjects = dict(l.split(' ', 1) for l in subprocess.run(['git', '-C', '/repo', 'log', '--format=%h %s'], capture_output=True, text=True).stdout.splitlines())
by = collections.defaultdict(list)
for f in allf:
    by[f['property']].append(f)
print("| prop | fixed (signatures -> commits) | open (known findings, tolerated by exact signature) |")
print("|---|---|---|")
for p in sorted(by):
    fixed = [f for f in by[p] if f['status'] == 'fixed']
    opn = [f for f in by[p] if f['status'] == 'open']
    commits = sorted({f.get('commit', '?') for f in fixed})
    print("| %s | %d signatures, commits %s | %s |" % (p, len(fixed), ", ".join(commits) or "-", "; ".join("`%s`" % f['signature'].split('/', 1)[1] for f in opn) or "-"))
print()
print("Fix commits in /repo (%d): " % len([s for s in subjects.values() if s.startswith('fix:')]))
for h, s in subjects.items():
    if s.startswith('fix:'):
        print("* `%s` %s" % (h, s[5:]))
