#!/bin/bash
# usage: tools/wave_run.sh <suffix> <Cxx>...   runs each property's quick tier against its seeded worktree /tmp/seed-<Cxx><suffix>
# (3 at a time); output of each run in /tmp/seed-<Cxx><suffix>.out
sfx=$1; shift
run1() { id=$1; sfx=$2; /verif/tools/mutant_run.sh /tmp/seed-${id}${sfx} $id --tier quick > /tmp/seed-${id}${sfx}.out 2>&1; echo "$id rc=$? $(grep -c ^VIOLATION /tmp/seed-${id}${sfx}.out) violations"; }
export -f run1
printf "%s\n" "$@" | xargs -P ${WAVE_P:-3} -I{} bash -c "run1 {} $sfx"
