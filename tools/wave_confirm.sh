#!/bin/bash
# usage: tools/wave_confirm.sh <suffix> <Cxx>...   tools/seed_confirm.sh for each seed (3 at a time), build output removed afterwards
sfx=$1; shift
conf1() { id=$1; sfx=$2; /verif/tools/seed_confirm.sh $id $sfx > /tmp/confirm-${id}${sfx}.log 2>&1; echo "$id $(tail -1 /tmp/confirm-${id}${sfx}.log)"; rm -rf /tmp/seed-${id}${sfx}/target /tmp/seed-${id}${sfx}/SEED/demo/target; }
export -f conf1
printf "%s\n" "$@" | xargs -P ${WAVE_P:-3} -I{} bash -c "conf1 {} $sfx"
