#!/usr/bin/env python3
"""prints the prompt for a seeded-mutation sub-agent: only the property text and its scratch worktree."""
import json, sys
pid, wt = sys.argv[1], sys.argv[2]
extra = sys.argv[3] if len(sys.argv) > 3 else ""
p = [json.loads(l) for l in open('/verif/properties.jsonl') if json.loads(l)['id'] == pid][0]
print(f"""You are given a scratch git worktree of a Rust repository (dmntk.rs: a DMN decision-model toolkit — FEEL lexer/parser, FEEL evaluator, decimal numbers, temporal types, DMN XML model parser/evaluator, recognizer of decision tables drawn as text, workspace, HTTP server) at {wt}. Work ONLY inside {wt} (never touch /repo or /verif, and do not read anything under /verif). The sandbox is offline: use `--offline` with cargo.

Here is a semantic property that the code base is supposed to satisfy:

  TITLE: {p['title']}
  STATEMENT: {p['statement']}
  QUANTIFIED OVER: {p['quantifier']['text']}
  WHY THE EXISTING TESTS CANNOT SETTLE IT: {p['why_tests_cant']}
  CODE IT IS ANCHORED IN: {', '.join(p['anchors']['files'])}

Your task: make ONE small, realistic change to the source code in {wt} (the kind of slip a maintainer could make in a refactoring, an "optimisation", a copy-paste, an off-by-one, a wrong constant, a dropped guard, a swapped argument...) that BREAKS this property while the code still compiles and the repository's existing test suite still passes. Prefer a change that needs something specific to manifest — an unusual input, a particular combination of constructs, a multi-step sequence of operations, a particular interleaving, or two cooperating sites that each look fine alone — NOT one that ordinary use would expose at once. Do not add dead flags or obviously artificial code ("if x == 12345"); it must look like plausible maintenance.

Important facts about this repository: inside the cargo workspace every crate depends on the crates.io copy (version 0.0.46, in the offline registry) of the other dmntk-* crates, so a crate's tests only see edits made to that same crate. The existing suite is run with `cd {wt} && cargo test --workspace --no-fail-fast --offline 2>&1 | grep -E "^test result|FAILED|failed"` (about 3371 tests pass; exactly these 3 fail already before any change and must be ignored: dmntk-feel temporal::tests::test_parse_time, dmntk-common href::tests::test_valid_references, dmntk-feel-grammar generator::tests::test_all_sequentially). After your change the same set must pass/fail.

Deliverables, all inside {wt}/SEED/ (create the directory):
  1. patch.diff — `git -C {wt} diff` of your source change only (no test changes, nothing under SEED/).
  2. A demonstration that FAILS with your change and PASSES without it: preferably a small standalone Rust program or test in SEED/demo/ (its own Cargo.toml with `path = "{wt}/<crate>"` dependencies plus a `[patch.crates-io]` section redirecting the dmntk-* crates it needs to `{wt}/<crate>` paths and an empty `[workspace]` table, copy {wt}/Cargo.lock next to it, build with `cargo run --offline` or `cargo test --offline`), or, if simpler, a new #[test] function given as a separate patch SEED/demo_test.diff. Include SEED/run_demo.sh that runs it and exits non-zero when the property is violated.
  3. meta.json — {{"property": "{pid}", "summary": one sentence, "files": [...], "needs_to_manifest": what specific input/sequence/interleaving exposes it, "existing_tests": the command you ran and its pass/fail counts before and after, "demo": how you ran the demonstration and what it printed before and after}}.
{extra}Verify all of it yourself: suite before/after, demo before/after (switch between the two states with `git apply -R SEED/patch.diff` / `git apply SEED/patch.diff`; do NOT use `git stash`: all scratch worktrees of this repository share one stash stack and other agents work in theirs at the same time). Leave the worktree WITH the change applied. In your final message give the summary, the diff and the verification results. Keep the change minimal (a few lines).""")
