#!/usr/bin/env python3
"""tools/wave_prompt.py <Cxx> <suffix>: prompt for the sub-agent of a later wave. The agent gets the property text, its scratch
worktree /tmp/seed-<Cxx><suffix>, and one sentence per earlier seeded change of that property (so that it chooses another
mechanism) - nothing else from /verif."""
import glob, json, os, subprocess, sys
pid, sfx = sys.argv[1], sys.argv[2]
LOST = {  # sixth wave (patches not archived): what they touched, from the strengthening commit 1907474
    "C01": "path expressions over lists whose items are contexts with different sets of keys",
    "C02": "decimal operations used from several threads at once",
    "C03": "date-and-time input columns whose values carry UTC offsets",
    "C04": "names used inside a knowledge model that are not its parameters; input entries named like built-in functions",
    "C05": "error/trace messages cut in the middle of a non-ASCII character",
    "C06": "very wide and very deep expression trees",
    "C07": "number texts of particular total lengths",
    "C10": "name parts that are spelled like built-in function names",
    "C11": "relations/contexts with dropped or renamed components",
    "C12": "decision tables with very many columns",
    "C13": "deeply nested temporary contexts",
    "C14": "zone-less values evaluated under a process time zone (TZ)",
    "C15": "half-open ranges of dates",
    "C16": "function types whose named parameters are not in sorted order",
    "C17": "a model containing only knowledge models",
    "C18": "messages cut in the middle of a non-ASCII character",
    "C20": "allowed values checks of typed inputs under concurrency",
}
prev = []
for d in sorted(glob.glob(f"/verif/seeded/{pid}*")):
    try:
        m = json.load(open(d + "/meta.json"))
    except Exception:
        continue
    s = (m.get("summary") or "").strip().replace("\n", " ")
    if len(s) > 420:
        s = s[:420].rsplit(" ", 1)[0] + " …"
    prev.append(f"    - ({', '.join(m.get('files') or [])}) {s}")
if pid in LOST:
    prev.append(f"    - a change that only showed with {LOST[pid]}")
extra = ("""IMPORTANT: earlier rounds of this exercise already produced the following changes for this property; every one of them is now caught within seconds by a generated-input checker. Choose a DIFFERENT mechanism, in a different place or along a dimension none of these touched (another function, another value kind, another code path, another kind of input, another combination of features), with a trigger that is as narrow as you can make it while still being a plausible maintenance slip and a clear violation of the property as stated:
""" + "\n".join(prev) + "\n\n") if prev else ""
out = subprocess.run([sys.executable, os.path.dirname(__file__) + "/seed_prompt.py", pid, f"/tmp/seed-{pid}{sfx}", extra], capture_output=True, text=True)
sys.stdout.write(out.stdout)
