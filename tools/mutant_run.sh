#!/bin/sh
# usage: tools/mutant_run.sh <scratch-repo-dir> <Cxx> [check args...]
# Builds a private copy of the driver against <scratch-repo-dir> (a copy/worktree of /repo with a mutation applied)
# into <scratch-repo-dir>/.vtarget and runs the property's check against it. Evidence and replays of that run go to
# <scratch-repo-dir>/.vout so that /verif/evidence and /verif/replays are not touched.
R=$(cd "$1" && pwd) || exit 2; shift
id="$1"; shift
T="$R/.vtarget"; O="$R/.vout"; D="$R/.vdriver"
mkdir -p "$T" "$O" "$D/.cargo"
rm -rf "$D/src"; cp -r /verif/driver/src "$D/src"
sed "s#/repo/#$R/#g" /verif/driver/Cargo.toml > "$D/Cargo.toml"
cp /verif/driver/Cargo.lock "$D/Cargo.lock"
printf '[net]\noffline = true\n[build]\ntarget-dir = "%s"\nrustflags = ["--cfg", "dmntk_verif"]\n' "$T" > "$D/.cargo/config.toml"
( cd "$D" && CARGO_NET_OFFLINE=true cargo build --offline --release >"$T/build.log" 2>&1 && CARGO_NET_OFFLINE=true cargo build --offline --profile checked >>"$T/build.log" 2>&1 ) || { echo "MUTANT-BUILD-FAILED"; tail -20 "$T/build.log"; exit 2; }
mod=$(echo "$id" | tr 'A-Z' 'a-z')
cd /verif && VDRV_TARGET="$T" VERIF_OUT="$O" python3-vt -m "pbt.props.$mod" "$@"
