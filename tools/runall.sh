#!/bin/bash
# runs every claimed check's quick tier once (sequentially), prints one summary line per property
seed=${1:-0}
cd /verif
for id in $(python3 -c "import json;print(' '.join(c['property_id'] for c in json.load(open('MANIFEST.json'))['checks']))"); do
  t0=$(date +%s)
  out=$(VERIF_SEED=$seed ./check $id --tier quick 2>&1); rc=$?
  t1=$(date +%s)
  echo "$id rc=$rc $((t1-t0))s $(echo "$out" | grep -E "^\[$id\] tier" | tail -1 | cut -c1-230)"
  echo "$out" | grep -E "^VIOLATION|INCONCLUSIVE" | head -3
done
