#!/usr/bin/env python3
"""tools/coverage_gaps.py <llvm-cov show text>: lists runs of executable lines that were never executed (count 0), per file,
with the enclosing `fn`; test modules (`#[cfg(test)]` to the end of the file) are left out. Last line = totals."""
import re, sys
cur = None; files = {}
for line in open(sys.argv[1], errors="replace"):
    line = line.rstrip("\n")
    m = re.match(r"^(/\S+\.rs):$", line)
    if m:
        cur = files.setdefault(m.group(1), []); continue
    m = re.match(r"^\s*(\d+)\|\s*([0-9.]+[kMG]?)?\|(.*)$", line)
    if m and cur is not None:
        cur.append((int(m.group(1)), m.group(2), m.group(3)))
tot_exec = tot_zero = 0
for f, lines in files.items():
    fn = "?"; runs = []; run = None; in_test = False
    ex = zero = 0
    for no, cnt, src in lines:
        if "#[cfg(test)]" in src: in_test = True
        if in_test: continue
        m = re.search(r"\bfn\s+([A-Za-z0-9_]+)", src)
        if m: fn = m.group(1)
        if cnt is None:
            continue
        ex += 1
        if cnt == "0":
            zero += 1
            if run and run[1] >= no - 3 and run[2] == fn: run[1] = no; run[3].append(src.strip())
            else:
                run = [no, no, fn, [src.strip()]]; runs.append(run)
        else:
            run = None
    tot_exec += ex; tot_zero += zero
    print(f"== {f}: {zero} of {ex} executable lines never reached")
    for a, b, fn, srcs in runs:
        print(f"   {a}-{b} fn {fn}: {' '.join(srcs)[:170]}")
print(f"TOTAL never reached: {tot_zero} of {tot_exec} executable lines in the anchor files")
