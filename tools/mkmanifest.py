#!/usr/bin/env python3
"""Writes /verif/MANIFEST.json from pbt/registry.py; every property not claimed is listed under not_applicable."""
import json, os, sys
sys.path.insert(0, "/verif")
from pbt.registry import CHECKS, NOT_APPLICABLE

props = [json.loads(l)["id"] for l in open("/verif/properties.jsonl")]
checks = []
for pid in props:
    if pid not in CHECKS:
        continue
    c = CHECKS[pid]
    checks.append({
        "property_id": pid,
        "quick_cmd": "./check %s --tier quick" % pid,
        "thorough_cmd": "./check %s --tier thorough" % pid,
        "evidence_file": "/verif/evidence/%s.json" % pid,
        "replay_cmd_template": "./check %s --replay {path}" % pid,
        "engine": c.get("engine", "pbt"),
        "level_claimed": {"category": c["level"], "text": c["text"], "design_ref": c["design"]},
        "level_note": c["note"],
        "technique": c["technique"],
    })
na = []
for pid in props:
    if pid not in CHECKS:
        na.append({"property_id": pid, "reason": NOT_APPLICABLE.get(pid, "check not built yet in this session; see DESIGN.md section 5 for the intended generated-input check")})
m = {
    "version": 1,
    "setup_cmd": "./tools/setup.sh",
    "hooks": {
        "guard": "dmntk_verif",
        "enable": "RUSTFLAGS='--cfg dmntk_verif' (set in /verif/driver/.cargo/config.toml and /verif/fuzz/.cargo/config.toml; the harness crates depend on /repo by path and patch all dmntk-* crates to /repo)",
        "baseline_off_cmd": "/verif/tools/baseline.sh",
        "source_commits": ["79e275b"],
        "add_only": True,
    },
    "engines": [
        {"name": "pbt", "path": "/verif/pbt", "serves_properties": sorted(CHECKS), "kind_free_text": "Python property engine (choice-sequence generators with shrinking, enumerators, reference models as oracles) driving the SUT through the Rust driver /verif/driver (JSON lines)"},
        {"name": "fuzz", "path": "/verif/fuzz", "serves_properties": ["C05", "C12", "C19"], "kind_free_text": "cargo-fuzz/libFuzzer targets with in-target oracles (thorough tier)"},
    ],
    "checks": checks,
    "not_applicable": na,
    "notes": "All checks rebuild the driver from /repo's working tree first (tools/build.sh). Exit 2 = inconclusive (build failure/infrastructure), never a violation.",
}
json.dump(m, open("/verif/MANIFEST.json", "w"), indent=1)
print("MANIFEST.json: %d checks, %d not_applicable" % (len(checks), len(na)))
