#!/usr/bin/env python3
"""tools/feel.py 'expr' ['{"a": ...}'-style scope json]  -- quick manual probe of the SUT through the driver"""
import json, sys
sys.path.insert(0, "/verif")
from pbt.engine import Driver
d = Driver(sys.argv[3] if len(sys.argv) > 3 else "checked"); d.start()
scope = json.loads(sys.argv[2]) if len(sys.argv) > 2 and sys.argv[2] else None
for text in sys.argv[1].split(";;"):
    r = d.safe({"op": "eval", "text": text, "scope": scope, "ast": True})
    print(text, "=>", json.dumps(r.get("values", r), ensure_ascii=False), "   AST:", r.get("ast"))
d.stop()
