#!/bin/sh
# Rebuilds the driver (both profiles) from /repo's current working tree with hooks enabled. Exit 2 = cannot build.
cd /verif/driver || exit 2
export CARGO_NET_OFFLINE=true
T=/verif/.target
LOG=$T/build.log
mkdir -p $T
(
  flock 9
  # cargo does not notice edits of the bundled C sources of dmntk-feel-number (its build script declares no
  # rerun-if-changed for them in a way cargo tracks reliably): force that crate to be rebuilt when they changed
  h=$(cat /repo/feel-number/decnumber/* /repo/feel-number/build.rs 2>/dev/null | sha1sum | cut -d' ' -f1)
  if [ "$h" != "$(cat $T/decnumber.sha 2>/dev/null)" ]; then
    cargo clean --offline --release -p dmntk-feel-number >/dev/null 2>&1
    cargo clean --offline --profile checked -p dmntk-feel-number >/dev/null 2>&1
    echo "$h" > $T/decnumber.sha
  fi
  cargo build --offline --release >"$LOG" 2>&1 && cargo build --offline --profile checked >>"$LOG" 2>&1
) 9>$T/build.lock
rc=$?
if [ $rc -ne 0 ]; then
  echo "INCONCLUSIVE: driver build failed (see $LOG)"; tail -30 "$LOG"; exit 2
fi
exit 0
