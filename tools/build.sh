#!/bin/sh
# Rebuilds the driver (both profiles) from /repo's current working tree with hooks enabled. Exit 2 = cannot build.
cd /verif/driver || exit 2
export CARGO_NET_OFFLINE=true
LOG=/verif/.target/build.log
mkdir -p /verif/.target
(
  flock 9
  cargo build --offline --release >"$LOG" 2>&1 && cargo build --offline --profile checked >>"$LOG" 2>&1
) 9>/verif/.target/build.lock
rc=$?
if [ $rc -ne 0 ]; then
  echo "INCONCLUSIVE: driver build failed (see $LOG)"; tail -30 "$LOG"; exit 2
fi
exit 0
