#!/bin/bash
# runs every thorough tier once, sequentially; evidence/replays go to $VERIF_OUT (default /var/tmp/thorough-out) so that the committed
# quick-tier evidence is not overwritten
export VERIF_OUT=${VERIF_OUT:-/var/tmp/thorough-out}
mkdir -p $VERIF_OUT
cd /verif
for id in ${@:-C07 C10 C17 C16 C09 C01 C13 C02 C03 C04 C11 C06 C08 C14 C15 C19 C18 C20 C12 C05}; do
  t0=$(date +%s)
  out=$(./check $id --tier thorough 2>&1); rc=$?
  t1=$(date +%s)
  echo "$id rc=$rc $((t1-t0))s $(echo "$out" | grep -E "^\[$id\] tier" | tail -1 | cut -c1-260)"
  echo "$out" | grep -E "^VIOLATION|INCONCLUSIVE" | head -5
done
