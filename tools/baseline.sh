#!/bin/sh
# Runs the repository's own suite with the verification guard OFF and checks the pinned baseline (3371 passing).
cd /repo || exit 2
unset RUSTFLAGS
LOG=${1:-/verif/.target/baseline.log}
mkdir -p "$(dirname "$LOG")"
if [ -f /w/lib/nextest.toml ] && cargo nextest --version >/dev/null 2>&1; then
  cargo nextest run --workspace --no-fail-fast --tool-config-file pb:/w/lib/nextest.toml --profile pb --test-threads 8 --offline >"$LOG" 2>&1
else
  cargo test --workspace --no-fail-fast --offline >"$LOG" 2>&1
fi
grep -E "Summary|tests run|^test result" "$LOG" | tail -20
grep -E "^\s+FAIL" "$LOG" | sort -u
