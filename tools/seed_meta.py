#!/usr/bin/env python3
"""tools/seed_meta.py <seed-id> <check-output-file> [checks...]: writes /verif/seeded/<id>/meta.json from the agent's meta, my confirmation log and the check output."""
import json, os, re, sys
sid, outf = sys.argv[1], sys.argv[2]
d = "/verif/seeded/" + sid
am = {}
try:
    am = json.load(open(d + "/agent_meta.json"))
except Exception:
    pass
log = open(d + "/confirm.log").read() if os.path.exists(d + "/confirm.log") else ""
out = open(outf).read() if os.path.exists(outf) else ""
viol = re.findall(r"^VIOLATION property=(\S+) replay=(\S+)", out, re.M)
sigs = re.findall(r"signature=(\S+)", out)
summ = re.findall(r"^\[(C\d+)\] tier=.*$", out, re.M)
prop = am.get("property", sid[:3])
meta = {
    "property": prop,
    "summary": am.get("summary"),
    "files": am.get("files"),
    "needs_to_manifest": am.get("needs_to_manifest"),
    "origin": "written by an independent sub-agent that saw only the property text and a scratch worktree of /repo (nothing from /verif)",
    "confirmed_by_me": {
        "how": "tools/seed_confirm.sh %s: patch applied in the scratch worktree, `cargo test --workspace --no-fail-fast --offline` (same pass/fail set as the baseline), SEED/run_demo.sh with the change (must fail) and with the patch reverted (must pass)" % sid,
        "log": log.strip().splitlines()[-4:],
    },
    "detection": {
        "how": "tools/mutant_run.sh /tmp/seed-%s %s --tier quick (private driver built against the worktree with the change applied)" % (sid, prop),
        "detected": bool(viol),
        "violations": [{"property": p, "replay": os.path.basename(r)} for p, r in viol][:3],
        "signatures": sorted(set(sigs))[:5],
        "summary_line": summ[-1:] ,
    },
}
json.dump(meta, open(d + "/meta.json", "w"), indent=1, ensure_ascii=False)
print(sid, "detected" if viol else "NOT DETECTED", sorted(set(sigs))[:3])
