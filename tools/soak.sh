#!/bin/bash
# usage: tools/soak.sh <seed> [Cxx...]   runs the quick tiers (default: all claimed) with another seed, three at a time, with evidence and
# replays redirected to scratch directories (so /verif/evidence and /verif/replays are not touched); prints one line per check and the
# first lines of anything that is not a silent pass. For hunting false alarms on the unchanged tree.
sd=$1; shift
ids=${@:-$(python3 -c "import json;print(' '.join(c['property_id'] for c in json.load(open('/verif/MANIFEST.json'))['checks']))")}
soak() { id=$1; sd=$2; mod=$(echo $id | tr A-Z a-z); out=$(cd /verif && VERIF_SEED=$sd VERIF_OUT=/var/tmp/soak-$id python3-vt -m pbt.props.$mod --tier quick 2>&1); rc=$?
  echo "$id seed=$sd rc=$rc $(echo "$out" | grep -E "^\[$id\] tier" | tail -1 | cut -c1-140)"; echo "$out" | grep -E -A4 "^VIOLATION|INCONCL" | head -12 | cut -c1-400; rm -rf /var/tmp/soak-$id; }
export -f soak
printf "%s\n" $ids | xargs -P 3 -I{} bash -c "soak {} $sd"
