#!/bin/sh
# Run once after a fresh restore, offline: builds the driver (both profiles) from /repo and byte-compiles the engine.
cd /verif || exit 1
export CARGO_NET_OFFLINE=true
./tools/build.sh || exit 1
python3-vt -m compileall -q pbt >/dev/null 2>&1
echo "setup ok"
