//! Workspace requests. The snapshot uses the read-only hook compiled under `--cfg dmntk_verif`.

use crate::conv::{jctx, vj};
use crate::modelops::State;
use dmntk_feel::context::FeelContext;
use dmntk_workspace::Workspace;
use serde_json::{json, Value as J};

fn snapshot(ws: &Workspace) -> J {
  #[cfg(dmntk_verif)]
  {
    let (list, by_ns, by_name, evaluators) = ws.verif_snapshot();
    json!({"list": list.iter().map(|(a, b)| json!([a, b])).collect::<Vec<J>>(), "by_namespace": by_ns, "by_name": by_name, "evaluators": evaluators})
  }
  #[cfg(not(dmntk_verif))]
  {
    let _ = ws;
    json!({"unavailable": true})
  }
}

/// {"op":"ws","w":"new|add|replace|remove|clear|deploy|evaluate|snapshot", ...}
pub fn op_ws(state: &mut State, req: &J) -> J {
  let w = req.get("w").and_then(|x| x.as_str()).unwrap_or("");
  if w == "new" {
    // with "files": [[relative path, content]...] the workspace is created over a directory holding those files (it loads and deploys
    // what it finds there); the directory lives under the system's temporary directory for the duration of the call
    if let Some(files) = req.get("files").and_then(|x| x.as_array()) {
      static COUNTER: std::sync::atomic::AtomicUsize = std::sync::atomic::AtomicUsize::new(0);
      let dir = std::env::temp_dir().join(format!("vdrv-ws-{}-{}", std::process::id(), COUNTER.fetch_add(1, std::sync::atomic::Ordering::Relaxed)));
      for f in files {
        let rel = f.get(0).and_then(|x| x.as_str()).unwrap_or("x");
        let content = f.get(1).and_then(|x| x.as_str()).unwrap_or("");
        let path = dir.join(rel);
        if let Some(parent) = path.parent() {
          let _ = std::fs::create_dir_all(parent);
        }
        if std::fs::write(&path, content).is_err() {
          let _ = std::fs::remove_dir_all(&dir);
          return json!({"error": "cannot write the workspace directory"});
        }
      }
      let _ = std::fs::create_dir_all(&dir);
      state.workspace = Some(Workspace::new(Some(dir.clone())));
      let _ = std::fs::remove_dir_all(&dir);
    } else {
      state.workspace = Some(Workspace::new(None));
    }
    return json!({"ok": true, "snapshot": snapshot(state.workspace.as_ref().unwrap())});
  }
  let ws = match state.workspace.as_mut() {
    Some(ws) => ws,
    None => return json!({"error": "no workspace"}),
  };
  let mut out = match w {
    "add" | "replace" => {
      let xml = req.get("xml").and_then(|x| x.as_str()).unwrap_or("");
      match dmntk_model::parse(xml) {
        Ok(defs) => {
          let r = if w == "add" { ws.add(defs) } else { ws.replace(defs) };
          match r {
            Ok(()) => json!({"ok": true}),
            Err(e) => json!({"err": e.to_string()}),
          }
        }
        Err(e) => json!({"parse_err": e.to_string()}),
      }
    }
    "remove" => {
      ws.remove(req.get("namespace").and_then(|x| x.as_str()).unwrap_or(""), req.get("name").and_then(|x| x.as_str()).unwrap_or(""));
      json!({"ok": true})
    }
    "clear" => {
      ws.clear();
      json!({"ok": true})
    }
    "deploy" => match ws.deploy() {
      Ok(()) => json!({"ok": true}),
      Err(e) => json!({"err": e.to_string()}),
    },
    "evaluate" => {
      let ctx = match req.get("input") {
        Some(J::Array(a)) => match jctx(a) {
          Ok(c) => c,
          Err(e) => return json!({ "error": e }),
        },
        _ => FeelContext::default(),
      };
      match ws.evaluate_invocable(
        req.get("model").and_then(|x| x.as_str()).unwrap_or(""),
        req.get("invocable").and_then(|x| x.as_str()).unwrap_or(""),
        &ctx,
      ) {
        Ok(v) => json!({"value": vj(&v)}),
        Err(e) => json!({"err": e.to_string()}),
      }
    }
    "snapshot" => json!({"ok": true}),
    _ => return json!({"error": "unknown ws op"}),
  };
  out["snapshot"] = snapshot(ws);
  out
}
