//! C16 only: coercion / type_of over values that may contain function values with a *declared result type*.
//! FEEL function literals always carry the result type `Any`; typed results exist only for functions built from
//! DMN models (business knowledge models, decision services), so the public constructor is used directly here.
//! No oracle: answers have exactly the shape of the `types` op.
//!
//! {"op":"c16","types":[T...],"queries":[["coerce",i,V] | ["typeof",V]]}
//! V = any value json of `conv::jv`, plus {"fn":{"params":[T...],"result":T}} (also nested inside {"l":[..]} / {"c":[[name,V]..]}).

use crate::conv::{jtype, jv, vj};
use dmntk_feel::context::FeelContext;
use dmntk_feel::values::{Value, Values};
use dmntk_feel::{FunctionBody, Name, Scope};
use serde_json::{json, Value as J};
use std::sync::Arc;

fn jv16(j: &J) -> Result<Value, String> {
  if let J::Object(m) = j {
    if let Some(f) = m.get("fn") {
      let mut params = vec![];
      for (i, p) in f.get("params").and_then(|x| x.as_array()).ok_or("fn.params must be a list")?.iter().enumerate() {
        // parameter names in DESCENDING alphabetical order (q9, q8, ...): the order of a function type's parameter types is the order of
        // declaration, not of the names
        params.push((Name::from(format!("q{}", 9 - i).as_str()), jtype(p)?));
      }
      let result = jtype(f.get("result").ok_or("fn.result missing")?)?;
      let body = FunctionBody::LiteralExpression(Arc::new(Box::new(|_: &Scope| Value::Null(None))));
      return Ok(Value::FunctionDefinition(params, body, result));
    }
    if let Some(J::Array(a)) = m.get("l") {
      let mut items = vec![];
      for x in a {
        items.push(jv16(x)?);
      }
      return Ok(Value::List(Values::new(items)));
    }
    if let Some(J::Array(a)) = m.get("c") {
      let mut ctx = FeelContext::default();
      for e in a {
        let pair = e.as_array().ok_or("context entry must be [name, value]")?;
        if pair.len() != 2 {
          return Err("context entry must be [name, value]".to_string());
        }
        ctx.set_entry(&Name::from(pair[0].as_str().ok_or("entry name must be string")?), jv16(&pair[1])?);
      }
      return Ok(Value::Context(ctx));
    }
  }
  jv(j)
}

pub fn op_c16(req: &J) -> J {
  let empty = vec![];
  let mut types = vec![];
  for t in req.get("types").and_then(|x| x.as_array()).unwrap_or(&empty) {
    match jtype(t) {
      Ok(t) => types.push(t),
      Err(e) => return json!({ "error": e }),
    }
  }
  let mut out = vec![];
  for q in req.get("queries").and_then(|x| x.as_array()).unwrap_or(&empty) {
    let a = match q.as_array() {
      Some(a) => a,
      None => return json!({"error": "bad query"}),
    };
    match a.first().and_then(|x| x.as_str()).unwrap_or("") {
      "coerce" => {
        let i = a.get(1).and_then(|x| x.as_u64()).unwrap_or(u64::MAX) as usize;
        if i >= types.len() {
          return json!({"error": "type index out of range"});
        }
        match jv16(a.get(2).unwrap_or(&J::Null)) {
          Ok(v) => {
            let c = types[i].coerced(&v);
            let c2 = types[i].coerced(&c);
            out.push(json!({"value": vj(&c), "type": c.type_of().to_string(), "conforms": c.type_of().is_conformant(&types[i]),
              "input": vj(&v), "input_type": v.type_of().to_string(), "input_conforms": v.type_of().is_conformant(&types[i]),
              "twice": vj(&c2), "target": types[i].to_string()}));
          }
          Err(e) => return json!({ "error": e }),
        }
      }
      // ["invoke-result", i, V, nparams, named]: a function value with `nparams` parameters of type Any, a body that returns V and the declared
      // result type types[i] (the public constructor: FEEL function literals always have the result type Any) is bound to `f` and invoked
      // through the parser and the evaluator: f() / f(1) / f(1, 2) or with named arguments; the answer is the value of the invocation and the
      // value of invoking a second such function on that result
      "invoke-result" => {
        let i = a.get(1).and_then(|x| x.as_u64()).unwrap_or(u64::MAX) as usize;
        if i >= types.len() {
          return json!({"error": "type index out of range"});
        }
        let v = match jv16(a.get(2).unwrap_or(&J::Null)) {
          Ok(v) => v,
          Err(e) => return json!({ "error": e }),
        };
        let n = a.get(3).and_then(|x| x.as_u64()).unwrap_or(0) as usize;
        let named = a.get(4).and_then(|x| x.as_bool()).unwrap_or(false);
        let params: Vec<(Name, dmntk_feel::FeelType)> = (0..n).map(|k| (Name::from(format!("p{}", k).as_str()), dmntk_feel::FeelType::Any)).collect();
        let body_value = v.clone();
        let body = FunctionBody::LiteralExpression(Arc::new(Box::new(move |_: &Scope| body_value.clone())));
        let f = Value::FunctionDefinition(params.clone(), body, types[i].clone());
        // g(x) returns its argument and has the same declared result type: coercing twice
        let g_body = FunctionBody::LiteralExpression(Arc::new(Box::new(|scope: &Scope| scope.get_entry(&Name::from("x")).unwrap_or(Value::Null(None)))));
        let g = Value::FunctionDefinition(vec![(Name::from("x"), dmntk_feel::FeelType::Any)], g_body, types[i].clone());
        let mut ctx = FeelContext::default();
        ctx.set_entry(&Name::from("f"), f);
        ctx.set_entry(&Name::from("g"), g);
        let scope: Scope = ctx.into();
        let args: Vec<String> = (0..n).map(|k| if named { format!("p{}: {}", k, k + 1) } else { format!("{}", k + 1) }).collect();
        let call = format!("f({})", args.join(", "));
        let mut answers = vec![];
        for text in [call.clone(), format!("g({})", call)] {
          match dmntk_feel_parser::parse_expression(&scope, &text, false) {
            Ok(node) => match dmntk_feel_evaluator::evaluate(&scope, &node) {
              Ok(r) => answers.push(vj(&r)),
              Err(e) => return json!({"error": format!("evaluate {}: {}", text, e)}),
            },
            Err(e) => return json!({"error": format!("parse {}: {}", text, e)}),
          }
        }
        out.push(json!({"value": answers[0], "twice": answers[1], "input": vj(&v), "input_type": v.type_of().to_string(), "call": call}));
      }
      "typeof" => match jv16(a.get(1).unwrap_or(&J::Null)) {
        Ok(v) => out.push(J::String(v.type_of().to_string())),
        Err(e) => return json!({ "error": e }),
      },
      _ => return json!({"error": "unknown c16 query"}),
    }
  }
  json!({ "answers": out })
}
