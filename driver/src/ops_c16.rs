//! C16 only: coercion / type_of over values that may contain function values with a *declared result type*.
//! FEEL function literals always carry the result type `Any`; typed results exist only for functions built from
//! DMN models (business knowledge models, decision services), so the public constructor is used directly here.
//! No oracle: answers have exactly the shape of the `types` op.
//!
//! {"op":"c16","types":[T...],"queries":[["coerce",i,V] | ["typeof",V]]}
//! V = any value json of `conv::jv`, plus {"fn":{"params":[T...],"result":T}} (also nested inside {"l":[..]} / {"c":[[name,V]..]}).

use crate::conv::{jtype, jv, vj};
use dmntk_feel::context::FeelContext;
use dmntk_feel::values::{Value, Values};
use dmntk_feel::{FunctionBody, Name, Scope};
use serde_json::{json, Value as J};
use std::sync::Arc;

fn jv16(j: &J) -> Result<Value, String> {
  if let J::Object(m) = j {
    if let Some(f) = m.get("fn") {
      let mut params = vec![];
      for (i, p) in f.get("params").and_then(|x| x.as_array()).ok_or("fn.params must be a list")?.iter().enumerate() {
        params.push((Name::from(format!("p{}", i).as_str()), jtype(p)?));
      }
      let result = jtype(f.get("result").ok_or("fn.result missing")?)?;
      let body = FunctionBody::LiteralExpression(Arc::new(Box::new(|_: &Scope| Value::Null(None))));
      return Ok(Value::FunctionDefinition(params, body, result));
    }
    if let Some(J::Array(a)) = m.get("l") {
      let mut items = vec![];
      for x in a {
        items.push(jv16(x)?);
      }
      return Ok(Value::List(Values::new(items)));
    }
    if let Some(J::Array(a)) = m.get("c") {
      let mut ctx = FeelContext::default();
      for e in a {
        let pair = e.as_array().ok_or("context entry must be [name, value]")?;
        if pair.len() != 2 {
          return Err("context entry must be [name, value]".to_string());
        }
        ctx.set_entry(&Name::from(pair[0].as_str().ok_or("entry name must be string")?), jv16(&pair[1])?);
      }
      return Ok(Value::Context(ctx));
    }
  }
  jv(j)
}

pub fn op_c16(req: &J) -> J {
  let empty = vec![];
  let mut types = vec![];
  for t in req.get("types").and_then(|x| x.as_array()).unwrap_or(&empty) {
    match jtype(t) {
      Ok(t) => types.push(t),
      Err(e) => return json!({ "error": e }),
    }
  }
  let mut out = vec![];
  for q in req.get("queries").and_then(|x| x.as_array()).unwrap_or(&empty) {
    let a = match q.as_array() {
      Some(a) => a,
      None => return json!({"error": "bad query"}),
    };
    match a.first().and_then(|x| x.as_str()).unwrap_or("") {
      "coerce" => {
        let i = a.get(1).and_then(|x| x.as_u64()).unwrap_or(u64::MAX) as usize;
        if i >= types.len() {
          return json!({"error": "type index out of range"});
        }
        match jv16(a.get(2).unwrap_or(&J::Null)) {
          Ok(v) => {
            let c = types[i].coerced(&v);
            let c2 = types[i].coerced(&c);
            out.push(json!({"value": vj(&c), "type": c.type_of().to_string(), "conforms": c.type_of().is_conformant(&types[i]),
              "input": vj(&v), "input_type": v.type_of().to_string(), "input_conforms": v.type_of().is_conformant(&types[i]),
              "twice": vj(&c2), "target": types[i].to_string()}));
          }
          Err(e) => return json!({ "error": e }),
        }
      }
      "typeof" => match jv16(a.get(1).unwrap_or(&J::Null)) {
        Ok(v) => out.push(J::String(v.type_of().to_string())),
        Err(e) => return json!({ "error": e }),
      },
      _ => return json!({"error": "unknown c16 query"}),
    }
  }
  json!({ "answers": out })
}
