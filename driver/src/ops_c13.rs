//! C13: FEEL expressions evaluated over a caller's scope that holds function values made by a built model (business knowledge
//! models and decision services bound to functions), so that the purity of invoking them is seen at the caller's scope.
//! {"op":"mfeel","xml":..,"funcs":[["bkm"|"ds", id]...],"scope":[ctx...],"texts":[..],"repeat":n}
//! -> {"bound":[names of the function values], "results":[{"values":[..],"scope_before":..,"scope_after":[..]} | {"parse_err":..}]}

use crate::conv::{jscope, vj};
use dmntk_feel::context::FeelContext;
use dmntk_feel::values::Value;
use dmntk_model_evaluator::ModelEvaluator;
use serde_json::{json, Value as J};

pub fn op_mfeel(req: &J) -> J {
  let xml = req.get("xml").and_then(|x| x.as_str()).unwrap_or("");
  let defs = match dmntk_model::parse(xml) {
    Ok(d) => d,
    Err(e) => return json!({"parse_model_err": e.to_string()}),
  };
  let me = match ModelEvaluator::new(&defs) {
    Ok(me) => me,
    Err(e) => return json!({"build_err": e.to_string()}),
  };
  let empty = vec![];
  let mut functions = FeelContext::default();
  for f in req.get("funcs").and_then(|x| x.as_array()).unwrap_or(&empty) {
    let kind = f.get(0).and_then(|x| x.as_str()).unwrap_or("");
    let id = f.get(1).and_then(|x| x.as_str()).unwrap_or("");
    match kind {
      "bkm" => {
        if let Ok(ev) = me.business_knowledge_model_evaluator() {
          ev.evaluate(id, &FeelContext::default(), &me, &mut functions);
        }
      }
      "ds" => {
        if let Ok(ev) = me.decision_service_evaluator() {
          ev.evaluate_as_function_definition(id, &FeelContext::default(), &mut functions);
        }
      }
      _ => return json!({"error": "funcs entries are [\"bkm\"|\"ds\", id]"}),
    }
  }
  let bound: Vec<String> = functions.get_entries().iter().filter(|(_, v)| matches!(v, Value::FunctionDefinition(..))).map(|(n, _)| n.to_string()).collect();
  let scope = match jscope(req.get("scope")) {
    Ok(s) => s,
    Err(e) => return json!({ "error": e }),
  };
  // the function values live in a context of their own on top of the caller's other contexts
  scope.push(functions);
  let repeat = req.get("repeat").and_then(|r| r.as_u64()).unwrap_or(2).max(1);
  let mut results = vec![];
  for t in req.get("texts").and_then(|x| x.as_array()).unwrap_or(&empty) {
    let text = t.as_str().unwrap_or("");
    let before = scope.to_string();
    let node = match dmntk_feel_parser::parse_expression(&scope, text, false) {
      Ok(n) => n,
      Err(e) => {
        results.push(json!({"parse_err": e.to_string(), "scope_before": before, "scope_after_parse": scope.to_string()}));
        continue;
      }
    };
    let after_parse = scope.to_string();
    match dmntk_feel_evaluator::prepare(&node) {
      Ok(evaluator) => {
        let mut values = vec![];
        let mut scopes = vec![];
        for _ in 0..repeat {
          let v = evaluator(&scope);
          values.push(vj(&v));
          scopes.push(scope.to_string());
        }
        results.push(json!({"values": values, "scope_before": before, "scope_after_parse": after_parse, "scope_after": scopes}));
      }
      Err(e) => results.push(json!({"prepare_err": e.to_string(), "scope_before": before})),
    }
  }
  json!({"bound": bound, "results": results})
}
