//! vdrv — adapter around the code under test. One JSON request per stdin line, one JSON answer per stdout line.
//! It contains no oracle: it only exposes the SUT faithfully.

mod conv;
mod feelops;
mod modelops;
mod ops_c13;
mod ops_c16;
mod wsops;

use serde_json::{json, Value as J};
use std::io::{BufRead, Write};
use std::panic::{catch_unwind, AssertUnwindSafe};
use std::sync::Mutex;

pub static LAST_PANIC: Mutex<Option<(String, String)>> = Mutex::new(None);

pub fn install_hook() {
  std::panic::set_hook(Box::new(|info| {
    let msg = if let Some(s) = info.payload().downcast_ref::<&str>() {
      s.to_string()
    } else if let Some(s) = info.payload().downcast_ref::<String>() {
      s.clone()
    } else {
      "<non-string panic>".to_string()
    };
    let loc = info.location().map(|l| format!("{}:{}", l.file(), l.line())).unwrap_or_default();
    if let Ok(mut g) = LAST_PANIC.lock() {
      if g.is_none() {
        *g = Some((msg, loc));
      }
    }
  }));
}

pub fn take_panic() -> J {
  let p = LAST_PANIC.lock().ok().and_then(|mut g| g.take());
  match p {
    Some((m, l)) => json!({"panic": m, "location": l}),
    None => json!({"panic": "<unknown>", "location": ""}),
  }
}

/// Runs one request under catch_unwind.
pub fn guarded<F: FnOnce() -> J>(f: F) -> J {
  if let Ok(mut g) = LAST_PANIC.lock() {
    *g = None;
  }
  match catch_unwind(AssertUnwindSafe(f)) {
    Ok(j) => j,
    Err(_) => take_panic(),
  }
}

fn dispatch(state: &mut modelops::State, req: &J) -> J {
  let op = req.get("op").and_then(|o| o.as_str()).unwrap_or("");
  match op {
    "ping" => json!({"pong": true, "checked": cfg!(debug_assertions)}),
    "batch" => {
      let empty = vec![];
      let items = req.get("items").and_then(|i| i.as_array()).unwrap_or(&empty);
      let mut out = Vec::with_capacity(items.len());
      for it in items {
        out.push(dispatch(state, it));
      }
      json!({ "batch": out })
    }
    "parse" => guarded(|| feelops::op_parse(req)),
    "eval" => guarded(|| feelops::op_eval(req)),
    "history" => guarded(|| feelops::op_history(req)),
    "num" => guarded(|| feelops::op_num(req)),
    "numpar" => guarded(|| feelops::op_numpar(req)),
    "temporal" => guarded(|| feelops::op_temporal(req)),
    "types" => guarded(|| feelops::op_types(req)),
    "typematrix" => guarded(|| feelops::op_typematrix(req)),
    "model" => guarded(|| modelops::op_model(state, req)),
    "invoke" => guarded(|| modelops::op_invoke(state, req)),
    "drop" => guarded(|| modelops::op_drop(state, req)),
    "probe" => guarded(|| modelops::op_probe(req)),
    "mhistory" => guarded(|| modelops::op_mhistory(req)),
    "dtable" => guarded(|| modelops::op_dtable(req)),
    "threads" => guarded(|| modelops::op_threads(state, req)),
    "ws" => guarded(|| wsops::op_ws(state, req)),
    "c16" => guarded(|| ops_c16::op_c16(req)),
    "mfeel" => guarded(|| ops_c13::op_mfeel(req)),
    _ => json!({"error": format!("unknown op '{}'", op)}),
  }
}

fn main_loop() {
  let stdin = std::io::stdin();
  let stdout = std::io::stdout();
  let mut state = modelops::State::default();
  for line in stdin.lock().lines() {
    let line = match line {
      Ok(l) => l,
      Err(_) => break,
    };
    if line.trim().is_empty() {
      continue;
    }
    let answer = match serde_json::from_str::<J>(&line) {
      Ok(req) => dispatch(&mut state, &req),
      Err(e) => json!({"error": format!("bad request json: {}", e)}),
    };
    let mut out = stdout.lock();
    let _ = writeln!(out, "{}", answer);
    let _ = out.flush();
  }
}

fn main() {
  install_hook();
  // the property texts speak of an 8 MiB default stack: make that explicit and independent of ulimit
  let t = std::thread::Builder::new().stack_size(8 * 1024 * 1024).spawn(main_loop).expect("spawn");
  let _ = t.join();
}
