//! vsrv — starts the real HTTP service of the working tree on 127.0.0.1:<port>.
fn main() -> std::io::Result<()> {
  let port = std::env::args().nth(1).unwrap_or_else(|| "22022".to_string());
  actix_web::rt::System::new("vsrv").block_on(dmntk_server::start_server(Some("127.0.0.1".to_string()), Some(port), None))
}
