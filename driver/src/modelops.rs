//! Model-level requests: model/invoke/probe, dtable, threads.

use crate::conv::{jctx, jscope, vj};
use dmntk_feel::context::FeelContext;
use dmntk_model::model::{DecisionTable, Definitions, NamedElement};
use dmntk_model_evaluator::ModelEvaluator;
use serde_json::{json, Value as J};
use std::collections::HashMap;
use std::sync::{mpsc, Arc, Barrier};
use std::time::Duration;

#[derive(Default)]
pub struct State {
  pub models: HashMap<u64, (Arc<ModelEvaluator>, Vec<String>)>,
  pub next: u64,
  pub workspace: Option<dmntk_workspace::Workspace>,
}

pub fn invocable_names(d: &Definitions) -> Vec<String> {
  let mut names = vec![];
  for x in d.decisions() {
    names.push(x.name().to_string());
  }
  for x in d.business_knowledge_models() {
    names.push(x.name().to_string());
  }
  for x in d.decision_services() {
    names.push(x.name().to_string());
  }
  names
}

fn input_ctx(j: Option<&J>) -> Result<FeelContext, String> {
  match j {
    None | Some(J::Null) => Ok(FeelContext::default()),
    Some(J::Array(a)) => jctx(a),
    Some(o) => Err(format!("bad input context {}", o)),
  }
}

pub fn op_model(state: &mut State, req: &J) -> J {
  let xml = req.get("xml").and_then(|x| x.as_str()).unwrap_or("");
  let defs = match dmntk_model::parse(xml) {
    Ok(d) => d,
    Err(e) => return json!({"parse_err": e.to_string()}),
  };
  let names = invocable_names(&defs);
  match ModelEvaluator::new(&defs) {
    Ok(me) => {
      let h = state.next;
      state.next += 1;
      state.models.insert(h, (me, names.clone()));
      json!({"handle": h, "invocables": names, "name": defs.name(), "namespace": defs.namespace()})
    }
    Err(e) => json!({"build_err": e.to_string(), "invocables": names}),
  }
}

pub fn op_drop(state: &mut State, req: &J) -> J {
  match req.get("handle").and_then(|h| h.as_u64()) {
    Some(h) => {
      state.models.remove(&h);
      json!({"ok": true})
    }
    None => {
      state.models.clear();
      json!({"ok": true})
    }
  }
}

pub fn op_invoke(state: &mut State, req: &J) -> J {
  let h = req.get("handle").and_then(|h| h.as_u64()).unwrap_or(u64::MAX);
  let me = match state.models.get(&h) {
    Some((me, _)) => Arc::clone(me),
    None => return json!({"error": "no such handle"}),
  };
  let name = req.get("name").and_then(|x| x.as_str()).unwrap_or("");
  let repeat = req.get("repeat").and_then(|r| r.as_u64()).unwrap_or(1).max(1);
  // several inputs in one request: "inputs":[ctx...]; or a single "input"
  let mut inputs = vec![];
  if let Some(J::Array(a)) = req.get("inputs") {
    for i in a {
      match input_ctx(Some(i)) {
        Ok(c) => inputs.push(c),
        Err(e) => return json!({ "error": e }),
      }
    }
  } else {
    match input_ctx(req.get("input")) {
      Ok(c) => inputs.push(c),
      Err(e) => return json!({ "error": e }),
    }
  }
  let mut values = vec![];
  let mut inputs_after = vec![];
  for input in &inputs {
    let before = input.to_string();
    for _ in 0..repeat {
      values.push(vj(&me.evaluate_invocable(name, input)));
    }
    inputs_after.push(json!([before, input.to_string()]));
  }
  json!({"values": values, "inputs_before_after": inputs_after})
}

/// parse -> ModelEvaluator::new -> evaluate every invocable (own names + extra names) with every input.
pub fn op_probe(req: &J) -> J {
  let xml = req.get("xml").and_then(|x| x.as_str()).unwrap_or("");
  let defs = match dmntk_model::parse(xml) {
    Ok(d) => d,
    Err(e) => return json!({"parse_err": e.to_string()}),
  };
  let mut names = invocable_names(&defs);
  if let Some(J::Array(extra)) = req.get("names") {
    for n in extra {
      if let Some(n) = n.as_str() {
        if !names.iter().any(|x| x == n) {
          names.push(n.to_string());
        }
      }
    }
  }
  let me = match ModelEvaluator::new(&defs) {
    Ok(me) => me,
    Err(e) => return json!({"build_err": e.to_string(), "invocables": names}),
  };
  if req.get("build_only").and_then(|x| x.as_bool()).unwrap_or(false) {
    // only the model is loaded and its evaluator built: nothing is invoked
    return json!({"built": true, "invocables": names, "results": []});
  }
  let mut inputs = vec![FeelContext::default()];
  if let Some(J::Array(a)) = req.get("inputs") {
    for i in a {
      match input_ctx(Some(i)) {
        Ok(c) => inputs.push(c),
        Err(e) => return json!({ "error": e }),
      }
    }
  }
  let mut results = vec![];
  for n in &names {
    for input in &inputs {
      results.push(vj(&me.evaluate_invocable(n, input)));
    }
  }
  json!({"built": true, "invocables": names, "results": results})
}

/// History of invocations over several models built once:
/// {"models":[xml...], "ops":[[model index, invocable name, input ctx]...]} -> per step the value and the rendering of the
/// supplied input context before/after the call.
pub fn op_mhistory(req: &J) -> J {
  let empty = vec![];
  let mut evaluators = vec![];
  let mut built = vec![];
  for x in req.get("models").and_then(|x| x.as_array()).unwrap_or(&empty) {
    let xml = x.as_str().unwrap_or("");
    match dmntk_model::parse(xml) {
      Ok(defs) => match ModelEvaluator::new(&defs) {
        Ok(me) => {
          evaluators.push(Some(me));
          built.push(json!({"ok": true}));
        }
        Err(e) => {
          evaluators.push(None);
          built.push(json!({"build_err": e.to_string()}));
        }
      },
      Err(e) => {
        evaluators.push(None);
        built.push(json!({"parse_err": e.to_string()}));
      }
    }
  }
  let mut steps = vec![];
  for op in req.get("ops").and_then(|x| x.as_array()).unwrap_or(&empty) {
    let m = op.get(0).and_then(|x| x.as_u64()).unwrap_or(u64::MAX) as usize;
    let name = op.get(1).and_then(|x| x.as_str()).unwrap_or("");
    let input = match input_ctx(op.get(2)) {
      Ok(c) => c,
      Err(e) => return json!({ "error": e }),
    };
    match evaluators.get(m) {
      Some(Some(me)) => {
        let before = input.to_string();
        let v = me.evaluate_invocable(name, &input);
        steps.push(json!({"value": vj(&v), "input_before": before, "input_after": input.to_string()}));
      }
      Some(None) => steps.push(json!({"skipped": true})),
      None => return json!({"error": "model index out of range"}),
    }
  }
  json!({"built": built, "steps": steps})
}

pub fn table_json(t: &DecisionTable) -> J {
  json!({
    "information_item_name": t.information_item_name,
    "hit_policy": t.hit_policy.to_string(),
    "aggregation": t.aggregation.map(|a| a.to_string()),
    "orientation": t.preferred_orientation.to_string(),
    "output_label": t.output_label,
    "inputs": t.input_clauses.iter().map(|c| json!({"expr": c.input_expression, "values": c.input_values})).collect::<Vec<J>>(),
    "outputs": t.output_clauses.iter().map(|c| json!({"name": c.name, "type_ref": c.type_ref, "values": c.output_values, "default": c.default_output_entry})).collect::<Vec<J>>(),
    "annotations": t.annotations.iter().map(|a| J::String(a.name.clone())).collect::<Vec<J>>(),
    "rules": t.rules.iter().map(|r| json!({
      "in": r.input_entries.iter().map(|e| J::String(e.text.clone())).collect::<Vec<J>>(),
      "out": r.output_entries.iter().map(|e| J::String(e.text.clone())).collect::<Vec<J>>(),
      "ann": r.annotation_entries.iter().map(|e| J::String(e.text.clone())).collect::<Vec<J>>()})).collect::<Vec<J>>(),
  })
}

/// {"text": drawing, "inputs": [scope...]} : recognise, dump, and evaluate once per input scope.
pub fn op_dtable(req: &J) -> J {
  let text = req.get("text").and_then(|x| x.as_str()).unwrap_or("");
  let table = match dmntk_recognizer::build(text) {
    Ok(t) => t,
    Err(e) => return json!({"err": e.to_string()}),
  };
  let mut out = json!({"table": table_json(&table)});
  if let Some(J::Array(inputs)) = req.get("inputs") {
    let mut values = vec![];
    for sj in inputs {
      let scope = match jscope(Some(sj)) {
        Ok(s) => s,
        Err(e) => return json!({ "error": e }),
      };
      match dmntk_model_evaluator::build_decision_table_evaluator(&scope, &table) {
        Ok(ev) => {
          let before = scope.to_string();
          let v = ev(&scope);
          let v2 = ev(&scope);
          values.push(json!({"value": vj(&v), "again": vj(&v2), "scope_same": before == scope.to_string()}));
        }
        Err(e) => values.push(json!({"build_err": e.to_string()})),
      }
    }
    out["values"] = json!(values);
  }
  out
}

/// Concurrent evaluation on one shared evaluator, following a generated plan.
/// {"handle":h, "calls":[[name, ctx]...], "threads":[[ [call, yields, spins]... ]...], "barrier":bool, "skew":[spins per thread], "watchdog_ms":n}
/// With "xml": text and "rounds": n instead of a handle: n rounds, each on a FRESH evaluator built from the text ("cold" implied: the
/// sequential pass is made after the threads), so that whatever an evaluator initialises lazily at its first use is initialised under
/// contention n times. The answer is that of the first round in which a concurrent value differs from the sequential one (or that
/// hangs / panics), else that of the last round; "rounds_done" says how many were run.
pub fn op_threads(state: &mut State, req: &J) -> J {
  let empty = vec![];
  let mut calls: Vec<(String, FeelContext)> = vec![];
  for c in req.get("calls").and_then(|x| x.as_array()).unwrap_or(&empty) {
    let name = c.get(0).and_then(|x| x.as_str()).unwrap_or("").to_string();
    match input_ctx(c.get(1)) {
      Ok(ctx) => calls.push((name, ctx)),
      Err(e) => return json!({ "error": e }),
    }
  }
  let calls = Arc::new(calls);
  if let Some(xml) = req.get("xml").and_then(|x| x.as_str()) {
    let rounds = req.get("rounds").and_then(|x| x.as_u64()).unwrap_or(1).max(1);
    let defs = match dmntk_model::parse(xml) {
      Ok(d) => d,
      Err(e) => return json!({"error": format!("parse: {}", e)}),
    };
    let mut last = J::Null;
    for round in 0..rounds {
      let me = match ModelEvaluator::new(&defs) {
        Ok(me) => me,
        Err(e) => return json!({"error": format!("build: {}", e)}),
      };
      let mut r = threads_round(me, Arc::clone(&calls), req, true);
      let differs = r.get("hang").is_some()
        || match (r.get("sequential").and_then(|x| x.as_array()), r.get("concurrent").and_then(|x| x.as_array())) {
          (Some(seq), Some(conc)) => {
            let plans = req.get("threads").and_then(|x| x.as_array()).unwrap_or(&empty);
            conc.iter().enumerate().any(|(ti, vals)| match vals.as_array() {
              None => true,
              Some(vals) => vals.iter().enumerate().any(|(si, v)| {
                let call = plans.get(ti).and_then(|p| p.get(si)).and_then(|s| s.get(0)).and_then(|x| x.as_u64()).unwrap_or(0) as usize;
                seq.get(call).map(|w| w != v).unwrap_or(true)
              }),
            })
          }
          _ => true,
        };
      if let Some(o) = r.as_object_mut() {
        o.insert("rounds_done".to_string(), json!(round + 1));
      }
      last = r;
      if differs {
        break;
      }
    }
    return last;
  }
  let h = req.get("handle").and_then(|h| h.as_u64()).unwrap_or(u64::MAX);
  let me = match state.models.get(&h) {
    Some((me, _)) => Arc::clone(me),
    None => return json!({"error": "no such handle"}),
  };
  let cold = req.get("cold").and_then(|b| b.as_bool()).unwrap_or(false);
  threads_round(me, calls, req, cold)
}

fn threads_round(me: Arc<ModelEvaluator>, calls: Arc<Vec<(String, FeelContext)>>, req: &J, cold: bool) -> J {
  let empty = vec![];
  // sequential reference pass by the SUT itself (the oracle compares, not the driver); with "cold": true it is made AFTER the
  // concurrent run, so that in a fresh process the first use of every lazily initialised global happens under contention
  let sequential: Vec<J> = if cold { vec![] } else { calls.iter().map(|(n, c)| vj(&me.evaluate_invocable(n, c))).collect() };
  let mut plans: Vec<Vec<(usize, u64, u64)>> = vec![];
  for t in req.get("threads").and_then(|x| x.as_array()).unwrap_or(&empty) {
    let mut steps = vec![];
    for s in t.as_array().unwrap_or(&empty) {
      let call = s.get(0).and_then(|x| x.as_u64()).unwrap_or(0) as usize;
      if call >= calls.len() {
        return json!({"error": "call index out of range"});
      }
      steps.push((call, s.get(1).and_then(|x| x.as_u64()).unwrap_or(0), s.get(2).and_then(|x| x.as_u64()).unwrap_or(0)));
    }
    plans.push(steps);
  }
  let use_barrier = req.get("barrier").and_then(|b| b.as_bool()).unwrap_or(true);
  let skew: Vec<u64> = req
    .get("skew")
    .and_then(|x| x.as_array())
    .map(|a| a.iter().map(|x| x.as_u64().unwrap_or(0)).collect())
    .unwrap_or_default();
  let watchdog = Duration::from_millis(req.get("watchdog_ms").and_then(|x| x.as_u64()).unwrap_or(60000));
  let n = plans.len();
  let barrier = Arc::new(Barrier::new(n.max(1)));
  // after the blocking barrier (threads are woken one after the other) a spinning one: all threads leave it within nanoseconds
  let arrived = Arc::new(std::sync::atomic::AtomicUsize::new(0));
  let (tx, rx) = mpsc::channel::<(usize, Result<Vec<String>, String>)>();
  for (ti, plan) in plans.into_iter().enumerate() {
    let me = Arc::clone(&me);
    let calls = Arc::clone(&calls);
    let barrier = Arc::clone(&barrier);
    let arrived = Arc::clone(&arrived);
    let tx = tx.clone();
    let sk = skew.get(ti).copied().unwrap_or(0);
    let _ = std::thread::Builder::new().stack_size(8 * 1024 * 1024).spawn(move || {
      let r = std::panic::catch_unwind(std::panic::AssertUnwindSafe(|| {
        if use_barrier {
          barrier.wait();
          arrived.fetch_add(1, std::sync::atomic::Ordering::SeqCst);
          let mut spins = 0u64;
          while arrived.load(std::sync::atomic::Ordering::SeqCst) < n && spins < 50_000_000 {
            std::hint::spin_loop();
            spins += 1;
          }
        }
        let mut acc = 0u64;
        for i in 0..sk {
          acc = acc.wrapping_add(std::hint::black_box(i));
        }
        let mut out = Vec::with_capacity(plan.len());
        for (call, yields, spins) in plan {
          for _ in 0..yields {
            std::thread::yield_now();
          }
          for i in 0..spins {
            acc = acc.wrapping_add(std::hint::black_box(i));
          }
          let (name, ctx) = &calls[call];
          out.push(vj(&me.evaluate_invocable(name, ctx)).to_string());
        }
        std::hint::black_box(acc);
        out
      }));
      let _ = tx.send((ti, r.map_err(|_| "panic in worker thread".to_string())));
    });
  }
  drop(tx);
  let mut per_thread: Vec<J> = vec![J::Null; n];
  let mut got = 0;
  let deadline = std::time::Instant::now() + watchdog;
  while got < n {
    let now = std::time::Instant::now();
    if now >= deadline {
      return json!({"hang": true, "joined": got, "threads": n, "sequential": sequential});
    }
    match rx.recv_timeout(deadline - now) {
      Ok((ti, Ok(values))) => {
        per_thread[ti] = json!(values.iter().map(|s| serde_json::from_str::<J>(s).unwrap_or(J::Null)).collect::<Vec<J>>());
        got += 1;
      }
      Ok((ti, Err(e))) => {
        per_thread[ti] = json!({ "thread_panic": e, "detail": crate::take_panic() });
        got += 1;
      }
      Err(mpsc::RecvTimeoutError::Timeout) => {
        return json!({"hang": true, "joined": got, "threads": n, "sequential": sequential});
      }
      Err(mpsc::RecvTimeoutError::Disconnected) => break,
    }
  }
  let after: Vec<J> = calls.iter().map(|(n, c)| vj(&me.evaluate_invocable(n, c))).collect();
  let sequential = if cold { after.clone() } else { sequential };
  json!({"sequential": sequential, "concurrent": per_thread, "after": after})
}
