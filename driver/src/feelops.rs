//! FEEL-level requests: parse, eval, history, num, temporal, types.

use crate::conv::{jscope, jtype, jv, vj};
use dmntk_feel::values::Value;
use dmntk_feel::{FeelDate, FeelDateTime, FeelDaysAndTimeDuration, FeelNumber, FeelTime, FeelYearsAndMonthsDuration, Scope};
use dmntk_common::Jsonify;
use serde_json::{json, Value as J};
use std::convert::TryFrom;
use std::str::FromStr;

fn s<'a>(req: &'a J, key: &str) -> &'a str {
  req.get(key).and_then(|v| v.as_str()).unwrap_or("")
}

/// Parses `text` through the entry point named by `entry`; Ok(debug rendering of the tree or name).
pub fn parse_entry(scope: &Scope, entry: &str, text: &str) -> Result<ParseOut, String> {
  use dmntk_feel_parser::*;
  let r = match entry {
    "" | "expression" => parse_expression(scope, text, false),
    "textual" => parse_textual_expression(scope, text, false),
    "textuals" => parse_textual_expressions(scope, text, false),
    "boxed" => parse_boxed_expression(scope, text, false),
    "context" => parse_context(scope, text, false),
    "unary" => parse_unary_tests(scope, text, false),
    "name" => return parse_name(scope, text, false).map(|n| ParseOut::Name(n.to_string())).map_err(|e| e.to_string()),
    "longest_name" => return parse_longest_name(text).map(|n| ParseOut::Name(n.to_string())).map_err(|e| e.to_string()),
    other => return Err(format!("unknown entry {}", other)),
  };
  r.map(ParseOut::Node).map_err(|e| e.to_string())
}

pub enum ParseOut {
  Node(dmntk_feel::AstNode),
  Name(String),
}

pub fn op_parse(req: &J) -> J {
  let scope = match jscope(req.get("scope")) {
    Ok(s) => s,
    Err(e) => return json!({ "error": e }),
  };
  let before = scope.to_string();
  let text = s(req, "text");
  let r = parse_entry(&scope, s(req, "entry"), text);
  let after = scope.to_string();
  match r {
    Ok(ParseOut::Node(n)) => {
      // second parse of the same text in the same scope: derived PartialEq must agree
      let mut out = json!({"ok": format!("{:?}", n), "scope_before": before, "scope_after": after});
      if req.get("twice").and_then(|b| b.as_bool()).unwrap_or(false) {
        if let Ok(ParseOut::Node(n2)) = parse_entry(&scope, s(req, "entry"), text) {
          out["same_twice"] = J::Bool(n == n2);
        } else {
          out["same_twice"] = J::Bool(false);
        }
      }
      out
    }
    Ok(ParseOut::Name(n)) => json!({"name": n, "scope_before": before, "scope_after": after}),
    Err(e) => json!({"err": e, "scope_before": before, "scope_after": after}),
  }
}

pub fn op_eval(req: &J) -> J {
  let scope = match jscope(req.get("scope")) {
    Ok(s) => s,
    Err(e) => return json!({ "error": e }),
  };
  let before = scope.to_string();
  let text = s(req, "text");
  let entry = s(req, "entry");
  let node = match parse_entry(&scope, entry, text) {
    Ok(ParseOut::Node(n)) => n,
    Ok(ParseOut::Name(n)) => return json!({ "name": n }),
    Err(e) => return json!({"parse_err": e, "scope_before": before, "scope_after": scope.to_string()}),
  };
  let after_parse = scope.to_string();
  let repeat = req.get("repeat").and_then(|r| r.as_u64()).unwrap_or(1).max(1);
  let mut values = vec![];
  let mut scopes = vec![];
  let mut jsonified = vec![];
  let want_json = req.get("jsonify").and_then(|b| b.as_bool()).unwrap_or(false);
  if entry == "context" {
    // contexts are evaluated through evaluate_context_node
    for _ in 0..repeat {
      match dmntk_feel_evaluator::evaluate_context_node(&scope, &node) {
        Ok(ctx) => values.push(vj(&Value::Context(ctx))),
        Err(e) => values.push(json!({"eval_err": e.to_string()})),
      }
      scopes.push(scope.to_string());
    }
  } else {
    match dmntk_feel_evaluator::prepare(&node) {
      Ok(evaluator) => {
        for _ in 0..repeat {
          let v = evaluator(&scope);
          if want_json {
            jsonified.push(v.jsonify());
          }
          values.push(vj(&v));
          scopes.push(scope.to_string());
        }
      }
      Err(e) => return json!({"prepare_err": e.to_string(), "scope_before": before, "scope_after": scope.to_string()}),
    }
  }
  let mut out = json!({"values": values, "scope_before": before, "scope_after_parse": after_parse, "scope_after": scopes});
  if req.get("ast").and_then(|b| b.as_bool()).unwrap_or(false) {
    out["ast"] = J::String(format!("{:?}", node));
  }
  if want_json {
    out["jsonified"] = json!(jsonified);
  }
  out
}

/// History of evaluations/parses over several prepared evaluators and several scopes.
/// {"scopes":[scope...], "exprs":[{"text":..,"scope":j}], "ops":[["eval",i,j] | ["parse",text,entry,j]]}
pub fn op_history(req: &J) -> J {
  let empty = vec![];
  let mut scopes = vec![];
  for sj in req.get("scopes").and_then(|x| x.as_array()).unwrap_or(&empty) {
    match jscope(Some(sj)) {
      Ok(s) => scopes.push(s),
      Err(e) => return json!({ "error": e }),
    }
  }
  let initial: Vec<String> = scopes.iter().map(|s| s.to_string()).collect();
  let mut evaluators = vec![];
  let mut prep = vec![];
  for e in req.get("exprs").and_then(|x| x.as_array()).unwrap_or(&empty) {
    let j = e.get("scope").and_then(|x| x.as_u64()).unwrap_or(0) as usize;
    if j >= scopes.len() {
      return json!({"error": "scope index out of range"});
    }
    let text = s(e, "text");
    match dmntk_feel_parser::parse_expression(&scopes[j], text, false) {
      Ok(node) => match dmntk_feel_evaluator::prepare(&node) {
        Ok(ev) => {
          evaluators.push(Some(ev));
          prep.push(json!({"ok": true}));
        }
        Err(e) => {
          evaluators.push(None);
          prep.push(json!({"prepare_err": e.to_string()}));
        }
      },
      Err(e) => {
        evaluators.push(None);
        prep.push(json!({"parse_err": e.to_string()}));
      }
    }
  }
  let after_prepare: Vec<String> = scopes.iter().map(|s| s.to_string()).collect();
  let mut steps = vec![];
  for op in req.get("ops").and_then(|x| x.as_array()).unwrap_or(&empty) {
    let a = match op.as_array() {
      Some(a) => a,
      None => return json!({"error": "bad op"}),
    };
    let kind = a.first().and_then(|x| x.as_str()).unwrap_or("");
    let mut step = match kind {
      "eval" => {
        let i = a.get(1).and_then(|x| x.as_u64()).unwrap_or(0) as usize;
        let j = a.get(2).and_then(|x| x.as_u64()).unwrap_or(0) as usize;
        if i >= evaluators.len() || j >= scopes.len() {
          return json!({"error": "index out of range"});
        }
        match &evaluators[i] {
          Some(ev) => json!({"value": vj(&ev(&scopes[j]))}),
          None => json!({"skipped": true}),
        }
      }
      "parse" => {
        let text = a.get(1).and_then(|x| x.as_str()).unwrap_or("");
        let entry = a.get(2).and_then(|x| x.as_str()).unwrap_or("");
        let j = a.get(3).and_then(|x| x.as_u64()).unwrap_or(0) as usize;
        if j >= scopes.len() {
          return json!({"error": "index out of range"});
        }
        match parse_entry(&scopes[j], entry, text) {
          Ok(ParseOut::Node(n)) => json!({"ok": format!("{:?}", n)}),
          Ok(ParseOut::Name(n)) => json!({ "name": n }),
          Err(e) => json!({ "err": e }),
        }
      }
      _ => return json!({"error": "unknown history op"}),
    };
    step["scopes"] = json!(scopes.iter().map(|s| s.to_string()).collect::<Vec<String>>());
    steps.push(step);
  }
  json!({"initial": initial, "prepared": prep, "after_prepare": after_prepare, "steps": steps})
}

fn nj(n: &FeelNumber) -> J {
  json!({"n": n.to_string(), "d": format!("{:?}", n), "j": n.jsonify()})
}

fn onj(n: Option<FeelNumber>) -> J {
  match n {
    Some(n) => nj(&n),
    None => json!({"none": true}),
  }
}

/// Direct FeelNumber API. {"op":"num","f":"add","a":[text...]}
/// The same `num` requests evaluated alone (one after another) and then by several threads at once: {"reqs":[num request...],
/// "threads":n, "rounds":r}. Every thread evaluates every request `r` times (each thread starts at another position); the answer lists
/// the requests whose concurrent result (or whose result alone AFTER the threads ended) differs from the result alone before.
pub fn op_numpar(req: &J) -> J {
  let empty = vec![];
  let reqs: Vec<J> = req.get("reqs").and_then(|x| x.as_array()).unwrap_or(&empty).clone();
  let threads = req.get("threads").and_then(|x| x.as_u64()).unwrap_or(4).max(1) as usize;
  let rounds = req.get("rounds").and_then(|x| x.as_u64()).unwrap_or(10) as usize;
  let before: Vec<String> = reqs.iter().map(|r| op_num(r).to_string()).collect();
  let mismatches = std::sync::Mutex::new(Vec::<J>::new());
  let started = std::sync::atomic::AtomicUsize::new(0);
  std::thread::scope(|sc| {
    for t in 0..threads {
      let reqs = &reqs;
      let before = &before;
      let mismatches = &mismatches;
      let started = &started;
      sc.spawn(move || {
        started.fetch_add(1, std::sync::atomic::Ordering::SeqCst);
        let mut spins = 0u64;
        while started.load(std::sync::atomic::Ordering::SeqCst) < threads && spins < 50_000_000 {
          std::hint::spin_loop();
          spins += 1;
        }
        let n = reqs.len();
        for round in 0..rounds {
          for k in 0..n {
            let i = (k + t * 7 + round) % n;
            let got = std::panic::catch_unwind(|| op_num(&reqs[i]).to_string()).unwrap_or_else(|_| "\"panic\"".to_string());
            if got != before[i] {
              if let Ok(mut m) = mismatches.lock() {
                if m.len() < 20 {
                  m.push(json!({"i": i, "alone": before[i], "concurrent": got, "thread": t, "round": round}));
                }
              }
            }
          }
        }
      });
    }
  });
  let mut out = mismatches.into_inner().unwrap_or_default();
  for (i, r) in reqs.iter().enumerate() {
    let again = op_num(r).to_string();
    if again != before[i] && out.len() < 40 {
      out.push(json!({"i": i, "alone": before[i], "alone_afterwards": again}));
    }
  }
  json!({"mismatches": out, "evaluations": reqs.len() * (threads * rounds + 2)})
}

pub fn op_num(req: &J) -> J {
  let f = s(req, "f");
  let empty = vec![];
  let args = req.get("a").and_then(|x| x.as_array()).unwrap_or(&empty);
  if f == "from_str" {
    let t = args.first().and_then(|x| x.as_str()).unwrap_or("");
    return match FeelNumber::from_str(t) {
      Ok(n) => nj(&n),
      Err(e) => json!({"err": e.to_string()}),
    };
  }
  if f == "roundtrip" {
    // from_str -> Display -> from_str again; the SUT's own equality between original and re-read number
    let t = args.first().and_then(|x| x.as_str()).unwrap_or("");
    return match FeelNumber::from_str(t) {
      Ok(n) => {
        let mut out = nj(&n);
        match FeelNumber::from_str(&n.to_string()) {
          Ok(back) => {
            out["back_ok"] = J::Bool(true);
            out["back_eq"] = J::Bool(back == n);
            out["back_d"] = J::String(format!("{:?}", back));
          }
          Err(e) => {
            out["back_ok"] = J::Bool(false);
            out["back_err"] = J::String(e.to_string());
          }
        }
        out
      }
      Err(e) => json!({"err": e.to_string()}),
    };
  }
  let mut ns = vec![];
  for a in args {
    match a.as_str().map(FeelNumber::from_str) {
      Some(Ok(n)) => ns.push(n),
      _ => return json!({"error": format!("bad operand {}", a)}),
    }
  }
  let need = |k: usize| ns.len() >= k;
  match f {
    "id" if need(1) => nj(&ns[0]),
    "add" if need(2) => nj(&(ns[0] + ns[1])),
    "sub" if need(2) => nj(&(ns[0] - ns[1])),
    "mul" if need(2) => nj(&(ns[0] * ns[1])),
    "div" if need(2) => nj(&(ns[0] / ns[1])),
    "rem" if need(2) => nj(&(ns[0] % ns[1])),
    "neg" if need(1) => nj(&(-ns[0])),
    "abs" if need(1) => nj(&ns[0].abs()),
    "floor" if need(1) => nj(&ns[0].floor()),
    "ceiling" if need(1) => nj(&ns[0].ceiling()),
    "trunc" if need(1) => nj(&ns[0].trunc()),
    "fract" if need(1) => nj(&ns[0].fract()),
    "exp" if need(1) => nj(&ns[0].exp()),
    "round" if need(2) => nj(&ns[0].round(&ns[1])),
    "pow" if need(2) => onj(ns[0].pow(&ns[1])),
    "sqrt" if need(1) => onj(ns[0].sqrt()),
    "ln" if need(1) => onj(ns[0].ln()),
    "square" if need(1) => onj(ns[0].square()),
    "even" if need(1) => json!({"b": ns[0].even()}),
    "odd" if need(1) => json!({"b": ns[0].odd()}),
    "is_integer" if need(1) => json!({"b": ns[0].is_integer()}),
    "is_negative" if need(1) => json!({"b": ns[0].is_negative()}),
    "is_positive" if need(1) => json!({"b": ns[0].is_positive()}),
    "eq" if need(2) => json!({"b": ns[0] == ns[1]}),
    "lt" if need(2) => json!({"b": ns[0] < ns[1]}),
    "le" if need(2) => json!({"b": ns[0] <= ns[1]}),
    "gt" if need(2) => json!({"b": ns[0] > ns[1]}),
    "ge" if need(2) => json!({"b": ns[0] >= ns[1]}),
    "to_u8" if need(1) => json!({"i": ns[0].to_u8()}),
    "to_u64" if need(1) => json!({"i": ns[0].to_u64()}),
    "to_isize" if need(1) => json!({"i": ns[0].to_isize()}),
    "to_usize" if need(1) => json!({"i": ns[0].to_usize()}),
    _ => json!({"error": format!("unknown num op {} / arity", f)}),
  }
}

/// Temporal constructors outside FEEL: TryFrom<&str>/FromStr/Display and the xsd constructors of Value.
pub fn op_temporal(req: &J) -> J {
  let kind = s(req, "kind");
  let text = s(req, "text");
  fn r<T: std::fmt::Display, E: std::fmt::Display>(x: Result<T, E>) -> J {
    match x {
      Ok(v) => json!({"ok": v.to_string()}),
      Err(e) => json!({"err": e.to_string()}),
    }
  }
  fn rv<E: std::fmt::Display>(x: Result<Value, E>) -> J {
    match x {
      Ok(v) => json!({"value": vj(&v)}),
      Err(e) => json!({"err": e.to_string()}),
    }
  }
  match kind {
    "date" => r(FeelDate::try_from(text)),
    "time" => r(FeelTime::from_str(text)),
    "dt" => r(FeelDateTime::try_from(text)),
    "dtd" => r(FeelDaysAndTimeDuration::try_from(text)),
    "ymd" => r(FeelYearsAndMonthsDuration::try_from(text)),
    "xsd_integer" => rv(Value::try_from_xsd_integer(text)),
    "xsd_decimal" => rv(Value::try_from_xsd_decimal(text)),
    "xsd_double" => rv(Value::try_from_xsd_double(text)),
    "xsd_boolean" => rv(Value::try_from_xsd_boolean(text)),
    "xsd_date" => rv(Value::try_from_xsd_date(text)),
    "xsd_time" => rv(Value::try_from_xsd_time(text)),
    "xsd_date_time" => rv(Value::try_from_xsd_date_time(text)),
    "xsd_duration" => rv(Value::try_from_xsd_duration(text)),
    _ => json!({"error": "unknown temporal kind"}),
  }
}

/// {"types":[T...], "queries":[["equiv",i,j] | ["conf",i,j] | ["coerce",i,value] | ["typeof",value]]}
pub fn op_types(req: &J) -> J {
  let empty = vec![];
  let mut types = vec![];
  for t in req.get("types").and_then(|x| x.as_array()).unwrap_or(&empty) {
    match jtype(t) {
      Ok(t) => types.push(t),
      Err(e) => return json!({ "error": e }),
    }
  }
  let mut out = vec![];
  for q in req.get("queries").and_then(|x| x.as_array()).unwrap_or(&empty) {
    let a = match q.as_array() {
      Some(a) => a,
      None => return json!({"error": "bad query"}),
    };
    let kind = a.first().and_then(|x| x.as_str()).unwrap_or("");
    let idx = |k: usize| a.get(k).and_then(|x| x.as_u64()).unwrap_or(u64::MAX) as usize;
    match kind {
      "equiv" | "conf" => {
        let (i, j) = (idx(1), idx(2));
        if i >= types.len() || j >= types.len() {
          return json!({"error": "type index out of range"});
        }
        let b = if kind == "equiv" { types[i].is_equivalent(&types[j]) } else { types[i].is_conformant(&types[j]) };
        out.push(J::Bool(b));
      }
      "coerce" => {
        let i = idx(1);
        if i >= types.len() {
          return json!({"error": "type index out of range"});
        }
        match jv(a.get(2).unwrap_or(&J::Null)) {
          Ok(v) => {
            let c = types[i].coerced(&v);
            let c2 = types[i].coerced(&c);
            out.push(json!({"value": vj(&c), "type": c.type_of().to_string(), "conforms": c.type_of().is_conformant(&types[i]),
              "input_type": v.type_of().to_string(), "input_conforms": v.type_of().is_conformant(&types[i]), "twice": vj(&c2)}));
          }
          Err(e) => return json!({ "error": e }),
        }
      }
      "typeof" => match jv(a.get(1).unwrap_or(&J::Null)) {
        Ok(v) => out.push(J::String(v.type_of().to_string())),
        Err(e) => return json!({ "error": e }),
      },
      "show" => {
        let i = idx(1);
        if i >= types.len() {
          return json!({"error": "type index out of range"});
        }
        out.push(J::String(types[i].to_string()));
      }
      _ => return json!({"error": "unknown types query"}),
    }
  }
  json!({ "answers": out })
}

/// Whole relation matrices over a universe: rows as strings of '0'/'1'.
pub fn op_typematrix(req: &J) -> J {
  let empty = vec![];
  let mut types = vec![];
  for t in req.get("types").and_then(|x| x.as_array()).unwrap_or(&empty) {
    match jtype(t) {
      Ok(t) => types.push(t),
      Err(e) => return json!({ "error": e }),
    }
  }
  let mut equiv = Vec::with_capacity(types.len());
  let mut conf = Vec::with_capacity(types.len());
  for a in &types {
    let mut re = String::with_capacity(types.len());
    let mut rc = String::with_capacity(types.len());
    for b in &types {
      re.push(if a.is_equivalent(b) { '1' } else { '0' });
      rc.push(if a.is_conformant(b) { '1' } else { '0' });
    }
    equiv.push(re);
    conf.push(rc);
  }
  json!({"equiv": equiv, "conf": conf, "shown": types.iter().map(|t| t.to_string()).collect::<Vec<String>>()})
}
