//! JSON <-> FEEL value conversion used by the driver. No oracle lives here: values are only transported.

use dmntk_feel::context::FeelContext;
use dmntk_feel::values::{Value, Values};
use dmntk_feel::{FeelDate, FeelDateTime, FeelDaysAndTimeDuration, FeelNumber, FeelTime, FeelType, FeelYearsAndMonthsDuration, Name, Scope};
use serde_json::{json, Value as J};
use std::convert::TryFrom;
use std::ops::Deref;
use std::str::FromStr;

/// SUT value -> JSON.
pub fn vj(v: &Value) -> J {
  match v {
    Value::Null(None) => J::Null,
    Value::Null(Some(t)) => json!({ "N": t }),
    Value::Boolean(b) => J::Bool(*b),
    Value::Number(n) => json!({"n": n.to_string(), "d": format!("{:?}", n)}),
    Value::String(s) => json!({ "s": s }),
    Value::List(items) => json!({"l": items.as_vec().iter().map(vj).collect::<Vec<J>>()}),
    Value::Context(ctx) => {
      json!({"c": ctx.deref().iter().map(|(k, v)| json!([k.to_string(), vj(v)])).collect::<Vec<J>>()})
    }
    Value::Date(d) => json!({"date": d.to_string()}),
    Value::Time(t) => json!({"time": t.to_string()}),
    Value::DateTime(t) => json!({"dt": t.to_string()}),
    Value::DaysAndTimeDuration(d) => json!({"dtd": d.to_string()}),
    Value::YearsAndMonthsDuration(d) => json!({"ymd": d.to_string()}),
    Value::Range(a, ca, b, cb) => json!({"r": [vj(a), ca, vj(b), cb]}),
    Value::FunctionDefinition(params, _, result) => json!({"f": {
      "params": params.iter().map(|(n, t)| json!([n.to_string(), t.to_string()])).collect::<Vec<J>>(),
      "result": result.to_string()}}),
    Value::BuiltInFunction(b) => json!({"bif": format!("{:?}", b)}),
    Value::FeelType(t) => json!({"type": t.to_string()}),
    Value::UnaryLess(x) => json!({"u": ["<", vj(x)]}),
    Value::UnaryLessOrEqual(x) => json!({"u": ["<=", vj(x)]}),
    Value::UnaryGreater(x) => json!({"u": [">", vj(x)]}),
    Value::UnaryGreaterOrEqual(x) => json!({"u": [">=", vj(x)]}),
    Value::ExpressionList(items) => json!({"el": items.as_vec().iter().map(vj).collect::<Vec<J>>()}),
    Value::NegatedCommaList(items) => json!({"ncl": items.as_vec().iter().map(vj).collect::<Vec<J>>()}),
    Value::Irrelevant => json!({"o": "Irrelevant"}),
    other => json!({"o": format!("{:?}", other)}),
  }
}

fn err<T>(s: String) -> Result<T, String> {
  Err(s)
}

/// JSON -> SUT value, using only public constructors (names never pass through the lexer).
pub fn jv(j: &J) -> Result<Value, String> {
  match j {
    J::Null => Ok(Value::Null(None)),
    J::Bool(b) => Ok(Value::Boolean(*b)),
    J::Object(m) => {
      if let Some(J::String(s)) = m.get("n") {
        return FeelNumber::from_str(s).map(Value::Number).map_err(|e| format!("bad number {}: {}", s, e));
      }
      if let Some(J::String(s)) = m.get("s") {
        return Ok(Value::String(s.clone()));
      }
      if let Some(J::Array(a)) = m.get("l") {
        let mut items = vec![];
        for x in a {
          items.push(jv(x)?);
        }
        return Ok(Value::List(Values::new(items)));
      }
      if let Some(J::Array(a)) = m.get("c") {
        return Ok(Value::Context(jctx(a)?));
      }
      if let Some(J::String(s)) = m.get("date") {
        return FeelDate::try_from(s.as_str()).map(Value::Date).map_err(|e| format!("bad date {}: {}", s, e));
      }
      if let Some(J::String(s)) = m.get("time") {
        return FeelTime::from_str(s).map(Value::Time).map_err(|e| format!("bad time {}: {}", s, e));
      }
      if let Some(J::String(s)) = m.get("dt") {
        return FeelDateTime::try_from(s.as_str()).map(Value::DateTime).map_err(|e| format!("bad dt {}: {}", s, e));
      }
      if let Some(J::String(s)) = m.get("dtd") {
        return FeelDaysAndTimeDuration::try_from(s.as_str())
          .map(Value::DaysAndTimeDuration)
          .map_err(|e| format!("bad dtd {}: {}", s, e));
      }
      if let Some(J::String(s)) = m.get("ymd") {
        return FeelYearsAndMonthsDuration::try_from(s.as_str())
          .map(Value::YearsAndMonthsDuration)
          .map_err(|e| format!("bad ymd {}: {}", s, e));
      }
      if let Some(J::Array(a)) = m.get("r") {
        if a.len() == 4 {
          return Ok(Value::Range(
            Box::new(jv(&a[0])?),
            a[1].as_bool().unwrap_or(true),
            Box::new(jv(&a[2])?),
            a[3].as_bool().unwrap_or(true),
          ));
        }
      }
      if let Some(J::String(s)) = m.get("feel") {
        // value given as a FEEL expression evaluated in an empty scope (ranges, functions)
        let scope = Scope::default();
        let node = dmntk_feel_parser::parse_expression(&scope, s, false).map_err(|e| format!("feel binding parse: {}", e))?;
        return dmntk_feel_evaluator::evaluate(&scope, &node).map_err(|e| format!("feel binding eval: {}", e));
      }
      if let Some(J::String(s)) = m.get("N") {
        return Ok(Value::Null(Some(s.clone())));
      }
      err(format!("unsupported value json: {}", j))
    }
    _ => err(format!("unsupported value json: {}", j)),
  }
}

/// JSON list of [name, value] pairs -> context.
pub fn jctx(a: &[J]) -> Result<FeelContext, String> {
  let mut ctx = FeelContext::default();
  for e in a {
    let pair = e.as_array().ok_or_else(|| "context entry must be [name, value]".to_string())?;
    if pair.len() != 2 {
      return err("context entry must be [name, value]".to_string());
    }
    let name = pair[0].as_str().ok_or_else(|| "entry name must be string".to_string())?;
    ctx.set_entry(&Name::from(name), jv(&pair[1])?);
  }
  Ok(ctx)
}

/// JSON list of contexts (bottom first) -> scope.
pub fn jscope(j: Option<&J>) -> Result<Scope, String> {
  match j {
    None | Some(J::Null) => Ok(Scope::default()),
    Some(J::Array(ctxs)) => {
      let scope = Scope::new();
      for c in ctxs {
        let a = c.as_array().ok_or_else(|| "scope must be a list of contexts".to_string())?;
        scope.push(jctx(a)?);
      }
      Ok(scope)
    }
    Some(other) => err(format!("bad scope: {}", other)),
  }
}

/// FEEL type from a compact JSON description.
/// "Any" | "Null" | "number" ... | {"list": T} | {"range": T} | {"context": [[name, T]...]} | {"function": [[T...], R]}
pub fn jtype(j: &J) -> Result<FeelType, String> {
  match j {
    J::String(s) => match s.as_str() {
      "Any" => Ok(FeelType::Any),
      "Null" => Ok(FeelType::Null),
      "boolean" => Ok(FeelType::Boolean),
      "number" => Ok(FeelType::Number),
      "string" => Ok(FeelType::String),
      "date" => Ok(FeelType::Date),
      "time" => Ok(FeelType::Time),
      "date and time" => Ok(FeelType::DateTime),
      "days and time duration" => Ok(FeelType::DaysAndTimeDuration),
      "years and months duration" => Ok(FeelType::YearsAndMonthsDuration),
      other => err(format!("unknown simple type {}", other)),
    },
    J::Object(m) => {
      if let Some(t) = m.get("list") {
        return Ok(FeelType::List(Box::new(jtype(t)?)));
      }
      if let Some(t) = m.get("range") {
        return Ok(FeelType::Range(Box::new(jtype(t)?)));
      }
      if let Some(J::Array(a)) = m.get("context") {
        let mut entries = std::collections::BTreeMap::new();
        for e in a {
          let pair = e.as_array().ok_or("bad context type entry")?;
          entries.insert(Name::from(pair[0].as_str().ok_or("bad entry name")?), jtype(&pair[1])?);
        }
        return Ok(FeelType::Context(entries));
      }
      if let Some(J::Array(a)) = m.get("function") {
        let params = a[0].as_array().ok_or("bad function params")?;
        let mut ps = vec![];
        for p in params {
          ps.push(jtype(p)?);
        }
        return Ok(FeelType::Function(ps, Box::new(jtype(&a[1])?)));
      }
      err(format!("bad type json {}", j))
    }
    _ => err(format!("bad type json {}", j)),
  }
}
