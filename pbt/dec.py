"""decimal128 helpers: the reference context (CPython decimal = libmpdec, independent of decNumber) and operand generators."""
import decimal
from decimal import Decimal

EMAX, EMIN, PREC = 6144, -6143, 34
ETINY = EMIN - (PREC - 1)      # -6176: smallest exponent of a (subnormal) coefficient digit
ETOP = EMAX - (PREC - 1)       # 6111: largest exponent of a full coefficient


def ctx128():
    c = decimal.Context(prec=PREC, Emax=EMAX, Emin=EMIN, rounding=decimal.ROUND_HALF_EVEN, clamp=1)
    c.traps = dict.fromkeys(c.traps, False)
    c.clear_flags()
    return c


BIG = decimal.Context(prec=20000, Emax=decimal.MAX_EMAX, Emin=decimal.MIN_EMIN)
BIG.traps = dict.fromkeys(BIG.traps, False)


def D(text):
    """Exact Decimal of any digit string (no rounding: Decimal() construction ignores context)."""
    return Decimal(text)


def gen_coeff(src, maxdigits=PREC):
    """Coefficient as a digit string without leading zeros ('0' allowed)."""
    n = src.weighted([(4, None), (2, 1), (2, 2), (2, 17), (2, 33), (4, 34)])
    if n is None or n > maxdigits:
        n = src.int(1, maxdigits)
    shape = src.weighted([(6, "rand"), (2, "nines"), (2, "one0"), (2, "five0"), (3, "tz"), (1, "zero"), (1, "one"), (2, "declets"), (2, "pow2")])
    if shape == "declets":
        return gen_coeff_declets(src, maxdigits)
    if shape == "pow2":
        # next to the limits of the machine integers a conversion may go through (i8 ... u128, f64's 2^53)
        c = str(2 ** src.choice(POW2_BITS) + src.int(-2, 2))
        return c if len(c) <= maxdigits else c[:maxdigits]
    if shape == "zero":
        return "0"
    if shape == "one":
        return "1"
    if shape == "nines":
        return "9" * n
    if shape == "one0":
        return "1" + "0" * (n - 1)
    if shape == "five0":
        return "5" + "0" * (n - 1)
    first = str(src.int(1, 9))
    if shape == "tz":
        k = src.int(0, n - 1)
        return first + src.digits(n - 1 - k) + "0" * k
    return first + src.digits(n - 1)


DECLETS = ["000", "000", "000", "001", "009", "010", "099", "100", "500", "900", "999"]


def gen_coeff_declets(src, maxdigits=PREC):
    """Coefficient built from the 3-digit groups in which decimal128 stores it (one leading digit + 11 declets): the number of digits is
    often one where a new group begins (1, 4, 7, ... 34), the first digit is often small, the groups are often 000 / 999 / 001 ..."""
    if src.bool(0.6):
        n = min(maxdigits, 1 + 3 * src.int(0, 11))
    else:
        n = src.int(1, maxdigits)
    lead = n % 3 or 3
    first = src.choice(["1", "2", "3", "9"]) if src.bool(0.7) else str(src.int(1, 9))
    out = first + src.digits(lead - 1)
    for _ in range((n - lead) // 3):
        out += src.choice(DECLETS) if src.bool(0.7) else src.digits(3)
    return out


POW2_BITS = [7, 8, 15, 16, 31, 32, 53, 63, 64, 100, 112]


def gen_exp(src):
    kind = src.weighted([(5, "small"), (3, "mid"), (2, "lo"), (2, "hi"), (2, "any")])
    if kind == "small":
        return src.int(-40, 40)
    if kind == "mid":
        return src.int(-400, 400)
    if kind == "lo":
        return ETINY + src.int(0, 40)
    if kind == "hi":
        return ETOP - src.int(0, 40)
    return src.int(ETINY, ETOP)


def gen_d128(src, allow_neg=True):
    """(sign, coeff, exp): a finite decimal128 value, exactly representable."""
    sign = "-" if (allow_neg and src.bool(0.4)) else ""
    return sign, gen_coeff(src), gen_exp(src)


def sci(t):
    sign, coeff, exp = t
    return "%s%sE%+d" % (sign, coeff, exp)


def plain(t):
    """Exact plain-decimal spelling of the triple (what FEEL literals look like)."""
    sign, coeff, exp = t
    if exp >= 0:
        return sign + coeff + "0" * exp
    k = -exp
    if k >= len(coeff):
        return sign + "0." + "0" * (k - len(coeff)) + coeff
    return sign + coeff[:-k] + "." + coeff[-k:]
