"""Python <-> wire values. Reference values: None, bool, Decimal, str, list, dict (context), Fn/Range/Temporal markers."""
from decimal import Decimal


class Fn:
    """Opaque function value (only its kind is compared)."""
    def __init__(self, params=None, result=None, call=None):
        self.params, self.result, self.call = params, result, call

    def __repr__(self):
        return "<function>"

    def __eq__(self, other):
        return isinstance(other, Fn)

    def __hash__(self):
        return 1


class Rng:
    def __init__(self, lo, lc, hi, hc):
        self.lo, self.lc, self.hi, self.hc = lo, lc, hi, hc

    def __repr__(self):
        return "%s%r..%r%s" % ("[" if self.lc else "(", self.lo, self.hi, "]" if self.hc else ")")

    def __eq__(self, o):
        return isinstance(o, Rng) and (self.lo, self.lc, self.hi, self.hc) == (o.lo, o.lc, o.hi, o.hc)

    def __hash__(self):
        return 2


class Tmp:
    """Temporal value carried as (kind, text)."""
    def __init__(self, kind, text):
        self.kind, self.text = kind, text

    def __repr__(self):
        return "%s(%s)" % (self.kind, self.text)

    def __eq__(self, o):
        return isinstance(o, Tmp) and (self.kind, self.text) == (o.kind, o.text)

    def __hash__(self):
        return hash((self.kind, self.text))


class Other:
    def __init__(self, j):
        self.j = j

    def __repr__(self):
        return "Other(%r)" % (self.j,)

    def __eq__(self, o):
        return isinstance(o, Other) and self.j == o.j

    def __hash__(self):
        return 3


def to_wire(v):
    """reference value -> binding JSON"""
    if v is None:
        return None
    if isinstance(v, bool):
        return v
    if isinstance(v, Decimal):
        return {"n": format(v, "f") if v == v.to_integral_value() and abs(v.as_tuple().exponent) < 40 else str(v)}
    if isinstance(v, int):
        return {"n": str(v)}
    if isinstance(v, str):
        return {"s": v}
    if isinstance(v, list):
        return {"l": [to_wire(x) for x in v]}
    if isinstance(v, dict):
        return {"c": [[k, to_wire(x)] for k, x in v.items()]}
    if isinstance(v, Tmp):
        return {v.kind: v.text}
    if isinstance(v, Rng):
        return {"r": [to_wire(v.lo), v.lc, to_wire(v.hi), v.hc]}
    raise TypeError("cannot bind %r" % (v,))


def from_wire(j):
    """driver value JSON -> reference value (null traces dropped)"""
    if j is None or isinstance(j, bool):
        return j
    if isinstance(j, dict):
        if "N" in j:
            return None
        if "n" in j:
            d = j.get("d", j["n"])
            try:
                return Decimal(d)
            except Exception:
                return Other(j)
        if "s" in j:
            return j["s"]
        if "l" in j:
            return [from_wire(x) for x in j["l"]]
        if "c" in j:
            return {k: from_wire(x) for k, x in j["c"]}
        for k in ("date", "time", "dt", "dtd", "ymd"):
            if k in j:
                return Tmp(k, j[k])
        if "r" in j:
            a = j["r"]
            return Rng(from_wire(a[0]), a[1], from_wire(a[2]), a[3])
        if "f" in j or "bif" in j:
            return Fn()
    return Other(j)


def null_trace(j):
    return j.get("N") if isinstance(j, dict) else None


def same(a, b):
    """Structural equality of reference values: numbers numerically (1.0 == 1.00), contexts by key set."""
    if isinstance(a, bool) or isinstance(b, bool):
        return isinstance(a, bool) and isinstance(b, bool) and a == b
    if isinstance(a, Decimal) and isinstance(b, Decimal):
        return a == b
    if isinstance(a, list) and isinstance(b, list):
        return len(a) == len(b) and all(same(x, y) for x, y in zip(a, b))
    if isinstance(a, dict) and isinstance(b, dict):
        return set(a) == set(b) and all(same(a[k], b[k]) for k in a)
    if type(a) != type(b):
        return False
    return a == b


def show(v):
    if isinstance(v, Decimal):
        return str(v)
    if isinstance(v, list):
        return "[" + ", ".join(show(x) for x in v) + "]"
    if isinstance(v, dict):
        return "{" + ", ".join("%s: %s" % (k, show(x)) for k, x in v.items()) + "}"
    if isinstance(v, str):
        return '"' + v + '"'
    if v is None:
        return "null"
    if isinstance(v, bool):
        return "true" if v else "false"
    return repr(v)
