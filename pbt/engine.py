"""Property engine: driver process management, choice-sequence generators with shrinking,
evidence, known findings, replay.  No property-specific knowledge lives here."""
import hashlib
import json
import os
import random
import select
import shutil
import subprocess
import sys
import time
from collections import Counter

VERIF = os.path.dirname(os.path.dirname(os.path.abspath(__file__)))
TARGET = os.environ.get("VDRV_TARGET") or os.path.join(VERIF, ".target")   # where the driver binaries are
OUT = os.environ.get("VERIF_OUT") or VERIF                                    # where evidence/ and new replays/ go


SURVEY = bool(os.environ.get("VERIF_SURVEY"))
ONLY_PARTS = [x for x in (os.environ.get("VERIF_PARTS") or "").split(",") if x]   # triage aid: run only these parts (never set by a registered check)


PRLIMIT = shutil.which("prlimit")


class DriverDied(Exception):
    pass


class DriverTimeout(Exception):
    pass


class Inconclusive(Exception):
    """Infrastructure problem or budget hit: never a violation (exit 2)."""


# ------------------------------------------------------------------------------------------------
# driver
# ------------------------------------------------------------------------------------------------

class Driver:
    """JSON-lines client of one vdrv process. profile: 'release' (overflow checks off) or 'checked'."""

    def __init__(self, profile="release", timeout=20.0, env=None):
        self.profile = profile
        self.env = env              # extra environment of the driver process (e.g. TZ: the process's local time zone)
        self.path = os.path.join(TARGET, profile, "vdrv")
        self.timeout = timeout
        self.proc = None
        self.buf = b""
        self.requests = 0
        self.restarts = 0

    def start(self):
        if not os.path.exists(self.path):
            raise Inconclusive("driver binary missing: %s (run setup)" % self.path)
        # 16 GiB address space per driver process: a runaway allocation ends that process, not the machine
        cmd = ([PRLIMIT, "--as=%d" % (16 << 30)] if PRLIMIT else []) + [self.path]
        self.proc = subprocess.Popen(cmd, stdin=subprocess.PIPE, stdout=subprocess.PIPE,
                                     stderr=subprocess.DEVNULL, bufsize=0, env=dict(os.environ, **self.env) if self.env else None)
        self.buf = b""

    def stop(self):
        if self.proc is not None:
            if os.environ.get("VERIF_GRACEFUL") and self.proc.poll() is None:
                # coverage runs (tools/coverage.sh): let the process end by itself at end of input so that it writes its profile
                try:
                    self.proc.stdin.close()
                    self.proc.wait(timeout=10)
                except Exception:
                    pass
            try:
                self.proc.kill()
                self.proc.wait(timeout=5)
            except Exception:
                pass
            self.proc = None

    def restart(self):
        self.stop()
        self.restarts += 1
        self.start()

    def _readline(self, timeout):
        deadline = time.monotonic() + timeout
        fd = self.proc.stdout.fileno()
        while True:
            nl = self.buf.find(b"\n")
            if nl >= 0:
                line, self.buf = self.buf[:nl], self.buf[nl + 1:]
                return line
            remaining = deadline - time.monotonic()
            if remaining <= 0:
                raise DriverTimeout()
            r, _, _ = select.select([fd], [], [], remaining)
            if not r:
                raise DriverTimeout()
            chunk = os.read(fd, 1 << 20)
            if not chunk:
                raise DriverDied()
            self.buf += chunk

    def call(self, req, timeout=None):
        """One request. Raises DriverDied / DriverTimeout (driver is restarted before raising)."""
        if self.proc is None or self.proc.poll() is not None:
            self.restart() if self.proc is not None else self.start()
        data = (json.dumps(req, ensure_ascii=True) + "\n").encode()
        try:
            self.proc.stdin.write(data)
            self.proc.stdin.flush()
            line = self._readline(timeout or self.timeout)
            while not line.lstrip().startswith(b"{"):
                # a line the code under test printed on its own (Workspace::new reports what it loaded from a directory): not the answer
                line = self._readline(timeout or self.timeout)
        except (BrokenPipeError, DriverDied):
            code = None
            try:
                code = self.proc.wait(timeout=5)
            except Exception:
                pass
            self.restart()
            e = DriverDied("driver died (exit %s)" % code)
            e.code = code
            raise e
        except DriverTimeout:
            self.restart()
            raise
        self.requests += 1
        return json.loads(line)

    def safe(self, req, timeout=None):
        """Like call, but death/timeout come back as a response record: {'died':code} / {'timeout':True}."""
        try:
            return self.call(req, timeout)
        except DriverDied as e:
            return {"died": getattr(e, "code", None)}
        except DriverTimeout:
            return {"timeout": True}

    def batch(self, reqs, timeout=None):
        """Many requests in one round trip. On death/timeout falls back to one-by-one so the culprit is isolated."""
        if not reqs:
            return []
        try:
            r = self.call({"op": "batch", "items": reqs}, timeout or max(self.timeout, 0.02 * len(reqs) + self.timeout))
            self.requests += len(reqs) - 1
            return r["batch"]
        except (DriverDied, DriverTimeout):
            return [self.safe(q, timeout) for q in reqs]


# ------------------------------------------------------------------------------------------------
# choice source (generators are plain functions of a Src; shrinking works on the recorded choices)
# ------------------------------------------------------------------------------------------------

class Src:
    def __init__(self, rnd=None, prefix=None):
        self.rnd = rnd
        self.prefix = prefix
        self.choices = []

    def _draw(self, n):
        """integer in 0..n inclusive; 0 is the simplest choice."""
        i = len(self.choices)
        if self.prefix is not None and i < len(self.prefix):
            v = min(self.prefix[i], n)
        elif self.rnd is not None and self.prefix is None:
            v = self.rnd.randint(0, n) if n > 0 else 0
        else:
            v = 0
        self.choices.append(v)
        return v

    def int(self, lo, hi):
        if hi < lo:
            lo, hi = hi, lo
        return lo + self._draw(hi - lo)

    def bool(self, p=0.5):
        """True with probability ~p; False is the simple choice."""
        return self._draw(9999) >= int((1.0 - p) * 10000)

    def choice(self, seq):
        return seq[self._draw(len(seq) - 1)]

    def weighted(self, pairs):
        """pairs: [(weight, value)...]; first is simplest."""
        total = sum(w for w, _ in pairs)
        x = self._draw(total - 1)
        for w, v in pairs:
            if x < w:
                return v
            x -= w
        return pairs[-1][1]

    def sample(self, seq, k):
        seq = list(seq)
        out = []
        for _ in range(min(k, len(seq))):
            out.append(seq.pop(self._draw(len(seq) - 1)))
        return out

    def shuffle(self, seq):
        seq = list(seq)
        return self.sample(seq, len(seq))

    def list(self, fn, lo, hi):
        return [fn(self) for _ in range(self.int(lo, hi))]

    def digits(self, n):
        return "".join(str(self._draw(9)) for _ in range(n))


def shrink(choices, interesting, budget=400, seconds=None):
    """Greedy choice-sequence reduction: delete chunks, zero chunks, lower single values. `seconds`: wall-clock limit of the whole
    reduction (a failure that is a time-out costs a full request budget per attempt); the result is then only less reduced."""
    best = list(choices)
    calls = [0]
    deadline = None if seconds is None else time.monotonic() + seconds

    def test(c):
        if calls[0] >= budget or (deadline is not None and time.monotonic() > deadline):
            calls[0] = budget
            return False
        calls[0] += 1
        try:
            return interesting(c)
        except Exception:
            return False

    improved = True
    while improved and calls[0] < budget:
        improved = False
        for size in (16, 8, 4, 2, 1):
            i = 0
            while i + size <= len(best):
                cand = best[:i] + best[i + size:]
                if test(cand):
                    best = cand
                    improved = True
                else:
                    i += 1
        for i in range(len(best)):
            if best[i] == 0:
                continue
            cand = list(best)
            cand[i] = 0
            if test(cand):
                best = cand
                improved = True
                continue
            lo, hi = 0, best[i]
            while lo + 1 < hi and calls[0] < budget:
                mid = (lo + hi) // 2
                cand = list(best)
                cand[i] = mid
                if test(cand):
                    hi = mid
                    best = cand
                    improved = True
                else:
                    lo = mid
    while best and best[-1] == 0:
        best.pop()
    return best


# ------------------------------------------------------------------------------------------------
# failures, known findings
# ------------------------------------------------------------------------------------------------

class Fail:
    def __init__(self, sig, msg, **detail):
        self.sig = sig          # defect-class signature assigned by the property's diagnosis
        self.msg = msg
        self.detail = detail

    def to_json(self):
        return {"signature": self.sig, "message": self.msg, "detail": self.detail}


def load_known():
    """known_findings.json (the committed list) plus per-property staging files findings/CXX.known.json."""
    out = []
    p = os.path.join(VERIF, "known_findings.json")
    if os.path.exists(p):
        with open(p) as f:
            out.extend(json.load(f).get("findings", []))
    d = os.path.join(VERIF, "findings")
    if os.path.isdir(d):
        for fn in sorted(os.listdir(d)):
            if fn.endswith(".known.json"):
                with open(os.path.join(d, fn)) as f:
                    out.extend(json.load(f).get("findings", []))
    return out


def canon(x):
    return json.dumps(x, sort_keys=True, ensure_ascii=True, default=str)


def h(x):
    return hashlib.sha1(canon(x).encode()).hexdigest()[:16]


# ------------------------------------------------------------------------------------------------
# one run of one property
# ------------------------------------------------------------------------------------------------

class Part:
    """A unit of a property check: generator + request builder + judge, addressable for replay."""

    def __init__(self, name, gen=None, reqs=None, judge=None, profile="release"):
        self.name = name
        self.gen = gen          # gen(src) -> case (JSON-serialisable)
        self.reqs = reqs        # reqs(case) -> [driver requests]
        self.judge = judge      # judge(ctx, case, responses) -> None | Fail
        self.profile = profile  # 'release' | 'checked' | 'both'


class Ctx:
    def __init__(self, prop, tier, seed, level="exploration", worker=0, workers=1):
        self.prop = prop
        self.tier = tier
        self.seed = seed
        self.level = level
        self.w = worker          # this process is worker w of W (thorough tier fans out)
        self.W = workers
        self.t0 = time.monotonic()
        self.drivers = {}
        self.evaluations = 0
        self.nontrivial = set()
        self.classes = Counter()
        self.samples = []
        self.sample_slots = {}
        self.excluded_known = Counter()
        self.known_seen = {}
        self.enumerations = []
        self.violations = []
        self.rule = ""
        self.assumptions = []
        self.extra = {}
        self.parts = {}
        self.known = [k for k in load_known() if k.get("property") == prop]
        self.open_sigs = {k["signature"]: k for k in self.known if k.get("status") == "open"}
        self.max_violations = 1
        self.quiet = False
        self.survey = Counter()

    # -- infrastructure
    def driver(self, profile="release"):
        d = self.drivers.get(profile)
        if d is None:
            d = Driver(profile, timeout=20.0 if self.tier == "quick" else 60.0)
            d.start()
            self.drivers[profile] = d
        return d

    def thorough(self):
        return self.tier == "thorough"

    def scale(self, quick, thorough):
        return thorough if self.tier == "thorough" else quick

    def rng(self, tag=""):
        return random.Random("%s/%s/%s/%s" % (self.prop, self.seed, tag, self.w))

    def share(self, n):
        """This worker's share of n cases."""
        return (n + self.W - 1) // self.W

    def mine(self, iterable):
        """This worker's share of an enumeration (every W-th element)."""
        for i, x in enumerate(iterable):
            if i % self.W == self.w:
                yield x

    def log(self, *a):
        if not self.quiet:
            print("[%s %6.1fs]" % (self.prop, time.monotonic() - self.t0), *a, flush=True)

    # -- accounting
    def count(self, n=1):
        self.evaluations += n

    def note(self, key=None, nontrivial=False, labels=(), sample=None):
        """Record one judged case. key: canonical identity (hashed); labels: classes for the histogram."""
        self.evaluations += 1
        for l in labels:
            self.classes[l] += 1
        if nontrivial and key is not None:
            self.nontrivial.add(key if isinstance(key, str) and len(key) <= 16 else h(key))
        if sample is not None:
            slot = labels[0] if labels else "_"
            k = self.sample_slots.get(slot, 0)
            if k < 2 and len(self.samples) < 24:
                self.sample_slots[slot] = k + 1
                self.samples.append(sample)

    def enumeration(self, name, size, exhaustive):
        self.enumerations.append({"name": name, "size": size, "exhaustive": bool(exhaustive)})

    # -- verdicts
    def is_known(self, sig):
        """An open finding, or a combination 'Cxx/a+b' whose components 'Cxx/a' and 'Cxx/b' are all open findings."""
        if sig in self.open_sigs:
            return True
        if "+" in sig and "/" in sig:
            prefix, rest = sig.split("/", 1)
            return all((prefix + "/" + part) in self.open_sigs for part in rest.split("+"))
        return False

    def components(self, sig):
        if sig in self.open_sigs or "+" not in sig:
            return [sig]
        prefix, rest = sig.split("/", 1)
        return [prefix + "/" + part for part in rest.split("+")]

    def report(self, part, case, fail, responses=None, choices=None):
        """Known finding -> counted and tolerated; else a violation with a replay file."""
        if self.is_known(fail.sig):
            for sig in self.components(fail.sig):
                self.excluded_known[sig] += 1
                if sig not in self.known_seen:
                    self.known_seen[sig] = {"case": case, "message": fail.msg}
            return False
        rec = {"property": self.prop, "part": part, "case": case, "failure": fail.to_json(),
               "responses": responses, "choices": choices, "seed": self.seed, "tier": self.tier}
        d = os.path.join(OUT, "replays", self.prop)
        os.makedirs(d, exist_ok=True)
        path = os.path.join(d, "%s-%s.json" % (part.replace("/", "_"), h([part, case])))
        with open(path, "w") as f:
            json.dump(rec, f, indent=1, ensure_ascii=True, default=str)
        self.violations.append({"part": part, "signature": fail.sig, "message": fail.msg, "replay": path})
        print("VIOLATION property=%s replay=%s" % (self.prop, path), flush=True)
        print("  part=%s signature=%s\n  %s" % (part, fail.sig, fail.msg[:2000]), flush=True)
        return True

    def stop(self):
        return len(self.violations) >= self.max_violations

    # -- running parts
    def register(self, part):
        self.parts[part.name] = part
        return part

    def _profiles(self, part):
        return ["release", "checked"] if part.profile == "both" else [part.profile]

    def run_case(self, part, case):
        """Evaluate one case (all profiles); returns (fail|None, responses)."""
        all_resp = {}
        for prof in self._profiles(part):
            reqs = part.reqs(case) if part.reqs else []
            resp = self.driver(prof).batch(reqs) if reqs else []
            all_resp[prof] = resp
            f = part.judge(self, case, resp) if part.profile != "both" else part.judge(self, case, resp, prof)
            if f is not None:
                return f, all_resp
        return None, all_resp

    def forall(self, part, n, batch=200):
        """n generated cases; batched round trips; first unexplained failure is shrunk and reported."""
        self.register(part)
        if ONLY_PARTS and part.name not in ONLY_PARTS:
            return 0
        rnd = self.rng(part.name)
        done = 0
        n = self.share(n)
        while done < n and not self.stop():
            k = min(batch, n - done)
            cases, choices = [], []
            for _ in range(k):
                src = Src(random.Random(rnd.getrandbits(64)))
                cases.append(part.gen(src))
                choices.append(src.choices)
            failed = None
            for prof in self._profiles(part):
                spans, flat = [], []
                for c in cases:
                    r = part.reqs(c)
                    spans.append((len(flat), len(flat) + len(r)))
                    flat.extend(r)
                resp = self.driver(prof).batch(flat)
                for idx, c in enumerate(cases):
                    a, b = spans[idx]
                    f = part.judge(self, c, resp[a:b]) if part.profile != "both" else part.judge(self, c, resp[a:b], prof)
                    if f is not None:
                        if self.is_known(f.sig):
                            self.report(part.name, c, f)
                            continue
                        if SURVEY:
                            # triage aid (VERIF_SURVEY=1): no shrinking, no stop; first example of each signature is printed
                            self.survey[f.sig] += 1
                            if self.survey[f.sig] <= int(os.environ.get("VERIF_SURVEY_N", "1")):
                                print("SURVEY %s #%d: %s" % (f.sig, self.survey[f.sig], f.msg[:1500]), flush=True)
                            continue
                        failed = (idx, f, resp[a:b])
                        break
                if failed:
                    break
            done += k
            if failed:
                idx, f, resp = failed
                case, ch = self._shrink(part, cases[idx], choices[idx], f)
                f2, resp2 = self.run_case_quiet(part, case)
                if f2 is None or f2.sig != f.sig:
                    case, ch, f2, resp2 = cases[idx], choices[idx], f, resp
                self.report(part.name, case, f2, resp2, ch)
        return done

    def run_case_quiet(self, part, case):
        saved = (self.evaluations, set(self.nontrivial), Counter(self.classes), list(self.samples), dict(self.sample_slots),
                 Counter(self.excluded_known))
        try:
            return self.run_case(part, case)
        finally:
            (self.evaluations, self.nontrivial, self.classes, self.samples, self.sample_slots, self.excluded_known) = saved

    def _shrink(self, part, case, choices, fail):
        def interesting(ch):
            src = Src(prefix=ch)
            c = part.gen(src)
            f, _ = self.run_case_quiet(part, c)
            return f is not None and f.sig == fail.sig
        try:
            best = shrink(choices, interesting, budget=self.scale(300, 1500), seconds=self.scale(90, 600))
            src = Src(prefix=best)
            return part.gen(src), best
        except Exception:
            return case, choices

    def enumerate(self, part, cases, batch=500, name=None, exhaustive=False):
        """Deterministic enumeration (shortest/simplest first, so the first failure is minimal)."""
        self.register(part)
        if ONLY_PARTS and part.name not in ONLY_PARTS:
            return 0
        buf = []
        total = 0

        def flush():
            nonlocal total
            if not buf:
                return
            for prof in self._profiles(part):
                spans, flat = [], []
                for c in buf:
                    r = part.reqs(c)
                    spans.append((len(flat), len(flat) + len(r)))
                    flat.extend(r)
                resp = self.driver(prof).batch(flat)
                for idx, c in enumerate(buf):
                    a, b = spans[idx]
                    f = part.judge(self, c, resp[a:b]) if part.profile != "both" else part.judge(self, c, resp[a:b], prof)
                    if f is not None:
                        self.report(part.name, c, f, resp[a:b])
                        if self.stop():
                            break
                if self.stop():
                    break
            total += len(buf)
            buf.clear()

        for c in self.mine(cases):
            buf.append(c)
            if len(buf) >= batch:
                flush()
                if self.stop():
                    break
        if not self.stop():
            flush()
        self.enumeration(name or part.name, total, exhaustive and not self.stop())
        return total

    def replay_dir(self):
        """Replay tier: every saved failing case of this property is re-judged first."""
        d = os.path.join(VERIF, "replays", self.prop)
        n = 0
        if not os.path.isdir(d):
            return 0
        for fn in sorted(os.listdir(d)):
            if not fn.endswith(".json"):
                continue
            n += self.replay_file(os.path.join(d, fn), report=True)
        return n

    def replay_file(self, path, report=True):
        with open(path) as f:
            rec = json.load(f)
        part = self.parts.get(rec.get("part"))
        if part is None:
            return 0
        f, resp = self.run_case(part, rec["case"])
        if f is not None and report:
            if self.is_known(f.sig):
                self.report(part.name, rec["case"], f)
            else:
                self.violations.append({"part": part.name, "signature": f.sig, "message": f.msg, "replay": path})
                print("VIOLATION property=%s replay=%s" % (self.prop, path), flush=True)
                print("  (replayed) part=%s signature=%s\n  %s" % (part.name, f.sig, f.msg[:2000]), flush=True)
        return 1

    # -- finishing
    def result(self):
        return {
            "evaluations": int(self.evaluations), "nontrivial": sorted(self.nontrivial), "rule": self.rule,
            "samples": self.samples[:24], "classes": dict(self.classes), "excluded_known": dict(self.excluded_known),
            "known_seen": self.known_seen, "enumerations": self.enumerations, "violations": self.violations,
            "driver_requests": sum(d.requests for d in self.drivers.values()),
            "driver_restarts": sum(d.restarts for d in self.drivers.values()),
            "extra": self.extra, "assumptions": self.assumptions, "wall": time.monotonic() - self.t0,
        }

    def finish(self):
        for d in self.drivers.values():
            d.stop()
        if SURVEY:
            print("SURVEY totals:", dict(self.survey), flush=True)
        res = self.result()
        if self.W > 1:
            d = os.path.join(TARGET, "partials")
            os.makedirs(d, exist_ok=True)
            with open(os.path.join(d, "%s.%d.json" % (self.prop, self.w)), "w") as f:
                json.dump(res, f, default=str)
            self.log("worker %d/%d: evaluations=%d violations=%d" % (self.w, self.W, self.evaluations, len(self.violations)))
            return 1 if self.violations else 0
        return finalize(self.prop, self.tier, self.seed, self.level, [res], self.open_sigs)


def finalize(prop, tier, seed, level, results, open_sigs, wall=None):
    """Merges worker results, prints KNOWN-FINDING lines, writes the evidence file."""
    evaluations = sum(r["evaluations"] for r in results)
    nontrivial = set()
    classes, excluded = Counter(), Counter()
    samples, enumerations, violations, known_seen, extra, assumptions = [], [], [], {}, {}, []
    for r in results:
        nontrivial.update(r["nontrivial"])
        classes.update(r["classes"])
        excluded.update(r["excluded_known"])
        violations.extend(r["violations"])
        for k, v in r["known_seen"].items():
            known_seen.setdefault(k, v)
        for k, v in r["extra"].items():
            if isinstance(v, (int, float)) and not isinstance(v, bool) and k in extra:
                extra[k] += v
            else:
                extra.setdefault(k, v)
        assumptions = assumptions or r["assumptions"]
    # samples: round-robin over workers; enumerations: merged by name
    for i in range(24):
        for r in results:
            if i < len(r["samples"]) and len(samples) < 24:
                samples.append(r["samples"][i])
    by_name = {}
    for r in results:
        for e in r["enumerations"]:
            b = by_name.setdefault(e["name"], {"name": e["name"], "size": 0, "exhaustive": True, "parts": 0})
            b["size"] += e["size"]
            b["parts"] += 1
            b["exhaustive"] = b["exhaustive"] and bool(e["exhaustive"])
    for b in by_name.values():
        # complete only if every worker finished its share completely and nothing was cut short by a violation
        b["exhaustive"] = b["exhaustive"] and b.pop("parts") == len(results) and not violations
    enumerations = list(by_name.values())
    for sig in sorted(known_seen):
        k = open_sigs.get(sig, {})
        print("KNOWN-FINDING: property=%s %s [%s] (seen %d times this run)" % (prop, k.get("what", sig), sig, excluded[sig]), flush=True)
    w = wall if wall is not None else max(r["wall"] for r in results)
    cov = {
        "evaluations": int(evaluations),
        "distinct_nontrivial": len(nontrivial),
        "rule": results[0]["rule"],
        "samples": samples,
        "classes": dict(classes.most_common(400)),
        "excluded_known": dict(excluded),
        "enumerations": enumerations,
        "exhaustive": False,
        "workers": len(results),
        "driver_requests": sum(r["driver_requests"] for r in results),
        "driver_restarts": sum(r["driver_restarts"] for r in results),
    }
    cov.update(extra)
    ev = {"property_id": prop, "tier": tier, "seed": int(seed), "level": level, "coverage": cov,
          "assumptions": assumptions, "wall_s": round(w, 2), "violations": len(violations)}
    os.makedirs(os.path.join(OUT, "evidence"), exist_ok=True)
    with open(os.path.join(OUT, "evidence", prop + ".json"), "w") as f:
        json.dump(ev, f, indent=1, ensure_ascii=True, default=str)
    print("[%s] tier=%s seed=%s evaluations=%d distinct_nontrivial=%d violations=%d known=%s wall=%.1fs" % (
        prop, tier, seed, evaluations, len(nontrivial), len(violations), dict(excluded), w), flush=True)
    return 1 if violations else 0


def main(prop_module, argv=None):
    import argparse
    ap = argparse.ArgumentParser()
    ap.add_argument("--tier", default=os.environ.get("VERIF_TIER", "quick"))
    ap.add_argument("--seed", type=int, default=int(os.environ.get("VERIF_SEED", "0") or 0))
    ap.add_argument("--replay", default=None)
    ap.add_argument("--worker", type=int, default=None)
    ap.add_argument("--workers", type=int, default=None)
    a = ap.parse_args(argv)
    prop = prop_module.PROP
    level = getattr(prop_module, "LEVEL", "exploration")
    nworkers = a.workers if a.workers is not None else (getattr(prop_module, "WORKERS", 14) if a.tier == "thorough" else
                                                        getattr(prop_module, "QUICK_WORKERS", 1))
    if a.replay is None and a.worker is None and nworkers > 1:
        return fan_out(prop_module, prop, level, a.tier, a.seed, nworkers)
    ctx = Ctx(prop, a.tier, a.seed, level, worker=a.worker or 0, workers=nworkers if a.worker is not None else 1)
    try:
        if a.replay and a.replay.endswith(".bin"):
            # saved libFuzzer input "fuzz-<target>-<sha>.bin": re-executed by the target binary without the allow-list (strict mode)
            from . import fuzzrun
            m = os.path.basename(a.replay).split("-")
            target = m[1] if len(m) >= 3 else ""
            if not fuzzrun.build(print):
                return 2
            crashed, out = fuzzrun.replay(target, a.replay, strict=True)
            if crashed:
                print("VIOLATION property=%s replay=%s\n  %s" % (prop, a.replay, out[-1500:]))
                return 1
            print("replay: input passes now")
            return 0
        if a.replay:
            prop_module.setup(ctx)
            with open(a.replay) as f:
                rec = json.load(f)
            part = ctx.parts.get(rec.get("part"))
            if part is None:
                print("replay: unknown part %r" % rec.get("part"))
                return 2
            fl, resp = ctx.run_case(part, rec["case"])
            for d in ctx.drivers.values():
                d.stop()
            if fl is None:
                print("replay: case passes now")
                return 0
            if ctx.is_known(fl.sig):
                for sg in ctx.components(fl.sig):
                    print("KNOWN-FINDING: property=%s %s [%s]" % (ctx.prop, ctx.open_sigs[sg].get("what", ""), sg))
                return 0
            print("VIOLATION property=%s replay=%s\n  %s" % (ctx.prop, a.replay, fl.msg))
            return 1
        prop_module.setup(ctx)
        if ctx.w == 0:
            ctx.replay_dir()
        if not ctx.stop():
            prop_module.run(ctx)
        return ctx.finish()
    except Inconclusive as e:
        print("INCONCLUSIVE: %s" % e, flush=True)
        for d in ctx.drivers.values():
            d.stop()
        return 2


def fan_out(prop_module, prop, level, tier, seed, nworkers):
    """Thorough tier: W worker processes (own driver each), merged evidence."""
    t0 = time.monotonic()
    pdir = os.path.join(TARGET, "partials")
    os.makedirs(pdir, exist_ok=True)
    for w in range(nworkers):
        try:
            os.remove(os.path.join(pdir, "%s.%d.json" % (prop, w)))
        except OSError:
            pass
    procs = []
    for w in range(nworkers):
        cmd = [sys.executable, "-m", prop_module.__spec__.name if prop_module.__spec__ else "pbt.props." + prop.lower(),
               "--tier", tier, "--seed", str(seed), "--worker", str(w), "--workers", str(nworkers)]
        procs.append(subprocess.Popen(cmd, cwd=VERIF))
    codes = [p.wait() for p in procs]
    results = []
    for w in range(nworkers):
        p = os.path.join(pdir, "%s.%d.json" % (prop, w))
        if os.path.exists(p):
            with open(p) as f:
                results.append(json.load(f))
    known = {k["signature"]: k for k in load_known() if k.get("property") == prop and k.get("status") == "open"}
    if not results:
        print("INCONCLUSIVE: no worker produced a result (exit codes %s)" % codes, flush=True)
        return 2
    rc = finalize(prop, tier, seed, level, results, known, wall=time.monotonic() - t0)
    if rc == 0 and any(c not in (0, 1) for c in codes):
        print("INCONCLUSIVE: worker exit codes %s" % codes, flush=True)
        return 2
    return rc
