"""Coverage-guided campaigns (cargo-fuzz/libFuzzer) used by the thorough tiers of C05, C12 and C19.

A campaign = fresh corpus copy (seed files from the repository + empty-corpus variant), `-seed=VERIF_SEED -runs=N`.
Panics at the locations of OPEN findings are tolerated in-target (VFUZZ_ALLOW); anything else that crashes the target is
a violation whose saved input is the replay file (strict mode = no allow-list)."""
import glob
import hashlib
import os
import re
import shutil
import subprocess
import time

from .engine import VERIF, TARGET, OUT, load_known

FUZZ = os.path.join(VERIF, "fuzz")
BIN = os.path.join(FUZZ, "target", "x86_64-unknown-linux-gnu", "release")


def build(log):
    if os.environ.get("VERIF_NO_FUZZ"):
        # development aid for sweeps over the generated parts only (never set by a registered command)
        log("fuzz phase switched off by VERIF_NO_FUZZ")
        return False
    env = dict(os.environ, CARGO_NET_OFFLINE="true")
    p = subprocess.run(["cargo", "+nightly", "fuzz", "build", "--fuzz-dir", "."], cwd=FUZZ, env=env, stdout=subprocess.PIPE,
                       stderr=subprocess.STDOUT, text=True)
    if p.returncode != 0:
        log("fuzz build failed:\n" + p.stdout[-3000:])
        return False
    return True


def allow_list(props):
    """`file:line` suffixes of open findings whose signature is `Cxx/panic@file:line`"""
    out = []
    for k in load_known():
        if k.get("status") == "open" and k.get("property") in props:
            m = re.search(r"panic@(.+)$", k.get("signature", ""))
            if m:
                out.append(m.group(1))
    return out


def campaign(ctx, target, prop, seed_globs, runs, dict_file=None, max_len=4096, jobs=1, allow_props=None, timeout_s=3600):
    """Runs one libFuzzer campaign; returns dict(stats). Reports a violation through ctx for each crashing input."""
    exe = os.path.join(BIN, target)
    if not os.path.exists(exe):
        return {"skipped": "target binary missing"}, []
    work = os.path.join(TARGET, "fuzz-work", "%s-%d-%d" % (target, ctx.seed, ctx.w))
    shutil.rmtree(work, ignore_errors=True)
    corpus = os.path.join(work, "corpus")
    arts = os.path.join(work, "artifacts")
    os.makedirs(corpus)
    os.makedirs(arts)
    nseeds = 0
    for g in seed_globs:
        for f in sorted(glob.glob(g, recursive=True)):
            if os.path.isfile(f) and os.path.getsize(f) <= max_len:
                shutil.copy(f, os.path.join(corpus, "seed-%05d" % nseeds))
                nseeds += 1
    allow = allow_list(allow_props or [prop])
    env = dict(os.environ, VFUZZ_ALLOW=",".join(allow))
    cmd = [exe, corpus, "-seed=%d" % (ctx.seed * 1000 + ctx.w + 1), "-runs=%d" % runs, "-max_len=%d" % max_len,
           "-artifact_prefix=" + arts + "/", "-len_control=0", "-print_final_stats=1", "-timeout=20", "-rss_limit_mb=4096", "-detect_leaks=0"]
    if dict_file and os.path.exists(dict_file):
        cmd.append("-dict=" + dict_file)
    t0 = time.monotonic()
    stats = {"target": target, "seeds": nseeds, "runs_requested": runs, "allowed_panic_locations": allow}
    crashes = []
    done = 0
    # libFuzzer stops at the first crash: restart on the same corpus until the run budget is used (bounded number of restarts)
    for attempt in range(20):
        try:
            p = subprocess.run(cmd, env=env, stdout=subprocess.PIPE, stderr=subprocess.STDOUT, text=True, timeout=timeout_s)
        except subprocess.TimeoutExpired:
            stats["timeout"] = True
            break
        out = p.stdout
        m = re.search(r"stat::number_of_executed_units:\s*(\d+)", out)
        if m:
            done += int(m.group(1))
        m = re.search(r"cov: (\d+) ft: (\d+)", out[::-1][::-1]) if False else None
        covs = re.findall(r"cov: (\d+) ft: (\d+) corp: (\d+)", out)
        if covs:
            stats["cov"], stats["features"], stats["corpus"] = (int(x) for x in covs[-1])
        new = [f for f in sorted(os.listdir(arts)) if f not in [c[0] for c in crashes]]
        if p.returncode == 0 or not new:
            if p.returncode != 0 and not new:
                stats["abnormal_exit"] = p.returncode
                stats["tail"] = out[-1500:]
            break
        for f in new:
            loc = re.findall(r"VFUZZ-PANIC at (\S+)", out)
            msg = re.findall(r"panicked at [^\n]*\n[^\n]*", out)
            crashes.append((f, loc[-1] if loc else "", msg[-1] if msg else out[-600:]))
            # take the crashing unit out of the corpus so that the campaign continues behind it
            bad = hashlib.sha1(open(os.path.join(arts, f), "rb").read()).hexdigest()
            for cf in os.listdir(corpus):
                cp = os.path.join(corpus, cf)
                try:
                    if hashlib.sha1(open(cp, "rb").read()).hexdigest() == bad:
                        os.remove(cp)
                except OSError:
                    pass
        if done >= runs:
            break
    stats["executions"] = done
    stats["wall_s"] = round(time.monotonic() - t0, 1)
    stats["crashes"] = len(crashes)
    out = []
    for f, loc, msg in crashes:
        src = os.path.join(arts, f)
        data = open(src, "rb").read()
        sha = hashlib.sha1(data).hexdigest()[:16]
        d = os.path.join(OUT, "replays", prop)
        os.makedirs(d, exist_ok=True)
        dst = os.path.join(d, "fuzz-%s-%s.bin" % (target, sha))
        shutil.copy(src, dst)
        kind = f.split("-")[0]        # crash | timeout | oom | leak
        out.append({"path": dst, "data": data, "location": loc, "message": msg, "kind": kind})
    ctx.evaluations += done
    shutil.rmtree(work, ignore_errors=True)
    return stats, out


def report_crash_only(ctx, prop, target, crashes):
    """For the crash-only properties (C12, C19 robustness): every crashing input is a violation unless its panic location is an open finding."""
    for c in crashes:
        sig = "%s/panic@%s" % (prop, c["location"]) if c["location"] else "%s/fuzz-%s" % (prop, c["kind"])
        if ctx.is_known(sig):
            ctx.excluded_known[sig] += 1
            ctx.known_seen.setdefault(sig, {"case": c["path"], "message": c["message"]})
            try:
                os.remove(c["path"])
            except OSError:
                pass
            continue
        ctx.violations.append({"part": "fuzz:" + target, "signature": sig, "message": c["message"], "replay": c["path"]})
        print("VIOLATION property=%s replay=%s" % (prop, c["path"]), flush=True)
        print("  fuzz target %s: %s" % (target, c["message"][:1500]), flush=True)


def replay(target, path, strict=True):
    """Re-executes one saved input; returns (crashed: bool, output)."""
    exe = os.path.join(BIN, target)
    env = dict(os.environ)
    if strict:
        env.pop("VFUZZ_ALLOW", None)
    p = subprocess.run([exe, path], env=env, stdout=subprocess.PIPE, stderr=subprocess.STDOUT, text=True, timeout=120)
    return p.returncode != 0, p.stdout
