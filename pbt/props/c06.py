"""C06 — the FEEL parser builds the syntax tree dictated by the grammar's precedence and associativity.

Oracles (pbt/oracles/feel_syntax.py, nothing shared with the code under test):
  (1) round trip: the fully parenthesised rendering of a tree T parses to T;
  (2) reference precedence parser over the TOKEN LIST (binding table transcribed from feel.y's declarations): for every
      set of parentheses kept, parse(text) is the reference tree or both reject; the minimal rendering gives T, and
      dropping one needed pair gives something else (another tree or a syntax error);
  (3) layout: every token-preserving layout of one token list gives one tree.
Parts: operator pairs (exhaustive), operator triples (sampled / exhaustive), random trees of depth <= 6, number spellings,
string literals over the code points (every 97th + boundaries / all), layouts.
"""
import os
import sys

from ..engine import Part, Fail, Inconclusive, main
from ..oracles import feel_syntax as fs

PROP = "C06"
SCOPE = fs.scope_for()
CAL = bool(os.environ.get("C06_CALIBRATE"))


# ---------------------------------------------------------------------------------------------------------------
# shared judging of "tree cases": {"entry", "tree", "v": [[kind, [path keys], gaps|None], ...]}
# ---------------------------------------------------------------------------------------------------------------

def req_parse(text, entry):
    return {"op": "parse", "entry": entry, "scope": SCOPE, "text": text, "twice": True}


def sut_shape(r):
    """(shape | None, error text, Fail | None) of one parse response."""
    if "ok" in r:
        try:
            sh = fs.parse_debug(r["ok"])
        except Exception as e:  # the reader is generic; failing here is a fault of the check
            raise Inconclusive("cannot read Debug text %r: %s" % (r["ok"][:200], e))
        if r.get("same_twice") is False:
            return sh, "", Fail("C06/second-parse-differs", "two parses of the same text in the same scope are not equal (derived PartialEq)")
        return sh, "", None
    if "err" in r:
        return None, r["err"], None
    return None, "", Fail("C06/no-answer", "parse request did not return a tree or an error: %r" % (r,))


def diagnose(tokens, entry, sut, err, exp):
    """Signature of an already known defect when the token list is in its trigger set and the answer is what it predicts."""
    by_flag = fs.ref_shape(tokens, entry, fs.and_labels_flag(tokens))
    if by_flag != exp and by_flag == sut:       # the single-boolean labelling of `and` reads this text differently
        return "C06/between-flag-not-nested"
    if sut is None and exp is not None:
        if any(t[3] == "spbad" for t in tokens) and "Unicode character has failed" in err:
            return "C06/surrogate-pair-low-byte"
        # the OPEN finding is tried first: a text that is in the trigger sets of both stays a known finding
        # (else the repaired defect's signature would be reported for a rejection the open one explains)
        if fs.path3_after_open_trigger(tokens) is not None and "syntax error" in err:
            return "C06/path-after-open-bracket"
        if fs.type_flag_trigger(tokens) is not None and "syntax error" in err:
            return "C06/type-name-flag-sticks"
    return None


def show(sh):
    s = repr(sh)
    return s if len(s) < 700 else s[:700] + "..."


def mismatch(where, text, tokens, entry, sut, err, exp, what):
    sig = diagnose(tokens, entry, sut, err, exp)
    if sig is None:
        if sut is None:
            sig = "C06/rejected-valid-text"
        elif exp is None:
            sig = "C06/accepted-text-the-grammar-rejects"
        else:
            sig = "C06/different-tree"
    return Fail(sig, "%s: %s\n  text:     %r\n  parser:   %s\n  expected: %s" % (
        where, what, text, show(sut) if sut is not None else "error: " + err[:200], show(exp) if exp is not None else "rejection"))


def variant_text(case, v):
    tokens = fs.render(case["tree"], frozenset(v[1]))
    gaps = v[2] if len(v) > 2 and v[2] else None
    return tokens, fs.layout_text(tokens, gaps)


_EXPANDED = {}


def expand(case):
    """Enumerated cases are stored as their template spec only; tree and variants are derived (memoised) here."""
    if "tree" in case:
        return case
    key = repr(case["spec"])
    c = _EXPANDED.get(key)
    if c is None:
        if len(_EXPANDED) > 4000:
            _EXPANDED.clear()
        c = _EXPANDED[key] = spec_case(case["spec"])
    return c


def reqs_tree(case):
    case = expand(case)
    return [req_parse(variant_text(case, v)[1], case["entry"]) for v in case["v"]]


def judge_tree(ctx, case, resp):
    case = expand(case)
    entry, tree = case["entry"], case["tree"]
    T = fs.shape(tree)
    full = set(fs.compound_paths(tree, entry))
    root = tree[0]
    first_fail = None
    canon = {}
    for v, r in zip(case["v"], resp):
        kind = v[0]
        tokens, text = variant_text(case, v)
        sut, err, f = sut_shape(r)
        if f is not None:
            f.msg = "%s\n  text: %r" % (f.msg, text)
            return f
        exp = fs.ref_shape(tokens, entry)
        kept = set(v[1])
        nontrivial = bool(full - kept) or kind == "min" and bool(kept)
        labels = ["variant:" + kind.split(":")[0], "root:" + root, "agree-tree" if exp is not None else "agree-reject"]
        if case.get("rebound"):
            labels.append("excluded:built-in-type-name-before-a-word(rebound to a bound name)")
        if len(v) > 2 and v[2]:
            labels.append("layout:fancy")
        ctx.note(key=text, nontrivial=nontrivial, labels=labels,
                 sample={"text": text[:160], "variant": kind, "tree": (r.get("ok") or r.get("err") or "")[:160]})
        f = None
        if kind == "full" and sut != T:
            f = mismatch(kind, text, tokens, entry, sut, err, T, "the fully parenthesised rendering does not parse back to its tree")
        elif kind == "min" and exp == T and sut != T:
            f = mismatch(kind, text, tokens, entry, sut, err, T, "the minimally parenthesised rendering does not parse back to its tree")
        elif kind.startswith("drop") and exp != T and sut == T:
            f = mismatch(kind, text, tokens, entry, sut, err, exp, "a needed pair of parentheses was removed and the tree did not change")
        elif kind == "layout" and canon.get(tuple(v[1]), (sut, err == "")) != (sut, err == ""):
            f = mismatch(kind, text, tokens, entry, sut, err, canon[tuple(v[1])][0],
                         "white space / comments between the same tokens changed the result (expected = result of the one-blank layout)")
        elif sut != exp and exp != T and uses_locals(tokens):
            # another set of parentheses gives another tree, and in that tree a name that only an enclosing construct binds may stand outside
            # its construct: there it is an unknown name (and swallows the words after it). Nothing is asserted for such a rendering.
            labels.append("locals:rescoped-not-asserted")
        elif sut != exp:
            f = mismatch(kind, text, tokens, entry, sut, err, exp, "the parser and the grammar's binding rules disagree")
        if len(v) <= 2 or not v[2]:
            canon[tuple(v[1])] = (sut, err == "")
        if f is not None:
            if f.sig in ctx.open_sigs:
                ctx.report(case.get("part", "tree"), {"entry": entry, "tree": tree, "v": [v]}, f)   # tolerated, counted; keep judging the rest
                continue
            if first_fail is None:
                first_fail = f
    return first_fail


def uses_locals(tokens):
    return any(t[0] == "name" and t[1] in fs.LOCAL_NAMES for t in tokens)


def make_variants(tree, entry, src=None, max_drop=6, subsets=2):
    """[[kind, paths]...] : full, min, every single needed pair dropped, all / some other subsets."""
    full = sorted(fs.compound_paths(tree, entry))
    keep, ok = fs.minimal_parens(tree, entry)
    if not ok:
        raise Inconclusive("reference parser does not read back its own full rendering: %r" % (tree,))
    keep = sorted(keep)
    out = [["full", full]]
    seen = {tuple(full)}

    def add(kind, paths):
        key = tuple(sorted(paths))
        if key not in seen:
            seen.add(key)
            out.append([kind, sorted(paths)])

    add("min", keep)
    if tuple(keep) == tuple(full):
        out[0][0] = "full"          # full is also minimal: judged as full (the stronger statement)
    drops = keep if src is None or len(keep) <= max_drop else src.sample(keep, max_drop)
    for p in drops:
        add("drop:" + p, [q for q in keep if q != p])
    if len(full) <= 3 and src is None:
        for m in range(1 << len(full)):
            add("subset", [p for i, p in enumerate(full) if m >> i & 1])
    elif src is not None:
        extra = [p for p in fs.all_paths(tree) if p not in keep]
        for _ in range(subsets):
            k = src.int(0, min(4, len(extra)))
            add("subset", keep + src.sample(extra, k))
    return out


def safe_types(tree, entry, variants):
    for v in variants:
        if fs.unsafe_type_follow(fs.render(tree, frozenset(v[1]))):
            return False
    return True


def tree_case(tree, entry="expression", src=None, **kw):
    v = make_variants(tree, entry, src, **kw)
    rebound = False
    if not safe_types(tree, entry, v):
        tree = fs.fix_types(tree)
        v = make_variants(tree, entry, src, **kw)
        rebound = True
    return {"entry": entry, "tree": tree, "v": v, "rebound": rebound}


# ---------------------------------------------------------------------------------------------------------------
# operator templates for the pair / triple enumerations
# ---------------------------------------------------------------------------------------------------------------

def N(n):
    return ["name", n]


def _templates():
    T = {}
    for op in fs.BINOPS:
        T[op] = (2, lambda s, op=op: [op, s[0], s[1]])
    T["between"] = (3, lambda s: ["between", s[0], s[1], s[2]])
    T["inlist"] = (3, lambda s: ["inlist", s[0], [s[1], s[2]]])
    T["neg"] = (1, lambda s: ["neg", s[0]])
    T["instof"] = (1, lambda s: ["instof", s[0], ["tqn", ["t"]]])
    T["instof-list"] = (1, lambda s: ["instof", s[0], ["tlist", ["tb", "number"]]])
    T["path"] = (1, lambda s: ["path", s[0], "k"])
    T["filter"] = (2, lambda s: ["filter", s[0], s[1]])
    T["call"] = (3, lambda s: ["call", s[0], ["pos", [s[1], s[2]]]])
    T["call0"] = (1, lambda s: ["call", s[0], ["pos", []]])
    T["notcall"] = (1, lambda s: ["call", N("not"), ["pos", [s[0]]]])
    T["callnamed"] = (2, lambda s: ["call", s[0], ["named", [["p", s[1]]]]])
    T["callnamed-dt"] = (2, lambda s: ["call", N("f"), ["named", [["date", s[0]], ["time", s[1]]]]])
    T["ctx-dt"] = (2, lambda s: ["ctx", [["k", "name", s[0]], ["date", "name", s[1]]]])
    T["ctx-time"] = (1, lambda s: ["ctx", [["time", "name", s[0]]]])
    T["if"] = (3, lambda s: ["if", s[0], s[1], s[2]])
    T["for"] = (2, lambda s: ["for", [["x", "single", s[0]]], s[1]])
    T["for-range"] = (3, lambda s: ["for", [["x", "range", s[0], s[1]]], s[2]])
    T["for2"] = (3, lambda s: ["for", [["x", "single", s[0]], ["y", "single", s[1]]], s[2]])
    T["some"] = (2, lambda s: ["some", [["x", s[0]]], s[1]])
    T["every"] = (3, lambda s: ["every", [["x", s[0]], ["y", s[1]]], s[2]])
    T["fn"] = (1, lambda s: ["fn", [["p", None]], s[0], False])
    T["fn-ext"] = (1, lambda s: ["fn", [], s[0], True])
    T["fn-typed"] = (1, lambda s: ["fn", [["p", ["tb", "number"]], ["q", ["tqn", ["t"]]]], s[0], False])
    T["list"] = (2, lambda s: ["list", [s[0], s[1]]])
    T["list1"] = (1, lambda s: ["list", [s[0]]])
    T["ctx"] = (2, lambda s: ["ctx", [["k", "name", s[0]], [["str", [[109, "raw"]]], "str", s[1]]]])
    T["dt"] = (1, lambda s: ["dt", "date", ["pos", [s[0]]]])
    T["range[]"] = (0, lambda s: ["range", "[", ["qn", ["r"]], ["qn", ["s"]], "]"])
    T["range()"] = (0, lambda s: ["range", "(", ["num", "1", "", "plain"], ["qn", ["s", "k"]], ")"])
    T["range]["] = (0, lambda s: ["range", "]", ["qn", ["r"]], ["num", "2", "", "plain"], "["])
    T["ut<"] = (0, lambda s: ["ut", "<", ["qn", ["r"]]])
    T["ut>="] = (0, lambda s: ["ut", ">=", ["num", "5", "", "plain"]])
    T["path3"] = (0, lambda s: ["path", ["path", N("r"), "s"], "k"])
    T["emptylist"] = (0, lambda s: ["list", []])
    T["emptyctx"] = (0, lambda s: ["ctx", []])
    return T


TEMPLATES = _templates()
ROOTS_UNARY = {"exprlist": (2, lambda s: ["exprlist", [s[0], s[1]]]), "neglist": (2, lambda s: ["neglist", [s[0], s[1]]])}
FILL = [["a", "b", "c"], ["e", "f", "g"], ["u", "v", "w"]]


def build(spec, level=0):
    """spec = [template id, {slot: spec}] -> tree; unfilled slots get distinct names per nesting level."""
    tid, fills = spec
    n, fn = (TEMPLATES.get(tid) or ROOTS_UNARY[tid])
    s = []
    for i in range(n):
        sub = fills.get(str(i))
        s.append(build(sub, level + 1) if sub else N(FILL[min(level, 2)][i]))
    return fn(s)


def entry_of(spec):
    return "unary" if spec[0] in ROOTS_UNARY else "expression"


def all_A():
    return [(tid, n) for tid, (n, _) in list(TEMPLATES.items()) + list(ROOTS_UNARY.items()) if n > 0]


def pair_specs():
    yield ["irrelevant", {}]
    for a, n in all_A():
        for s in range(n):
            for b in TEMPLATES:
                yield [a, {str(s): [b, {}]}]


def triple_specs():
    """chains A[s <- B[s2 <- C]] and siblings A[s <- B, s' <- C]."""
    inner = [(tid, n) for tid, (n, _) in TEMPLATES.items()]
    for a, n in all_A():
        for s in range(n):
            for b, nb in inner:
                for s2 in range(nb):
                    for c in TEMPLATES:
                        yield [a, {str(s): [b, {str(s2): [c, {}]}]}]
                for s2 in range(n):
                    if s2 != s:
                        for c in TEMPLATES:
                            yield [a, {str(s): [b, {}], str(s2): [c, {}]}]


def spec_case(spec):
    if spec[0] == "irrelevant":
        return {"entry": "unary", "tree": ["irrelevant"], "v": [["full", []]], "spec": spec}
    c = tree_case(build(spec), entry_of(spec))
    c["spec"] = spec
    return c


def count_iter(it):
    return sum(1 for _ in it)


# ---------------------------------------------------------------------------------------------------------------
# local names: a name bound only by an enclosing construct, used inside a further construct that opens a scope
# ---------------------------------------------------------------------------------------------------------------

def _binders():
    """name -> fn(v, inner): a construct that binds the single-word name v (unknown to the caller's scope) around `inner`."""
    B = {}
    B["for"] = lambda v, t: ["for", [[v, "single", N("a")]], t]
    B["for-range"] = lambda v, t: ["for", [[v, "range", N("a"), N("b")]], t]
    B["for2"] = lambda v, t: ["for", [[v, "single", N("a")], ["m", "single", ["+", N(v), N("b")]]], t]
    B["some"] = lambda v, t: ["some", [[v, N("a")]], t]
    B["every"] = lambda v, t: ["every", [[v, N("a")], ["m", ["*", N(v), N("b")]]], t]
    B["fn"] = lambda v, t: ["fn", [[v, None]], t, False]
    B["fn-typed"] = lambda v, t: ["fn", [["m", ["tb", "number"]], [v, ["tb", "string"]]], t, False]
    B["ctx"] = lambda v, t: ["ctx", [[v, "name", N("a")], ["r", "name", t]]]
    B["ctx3"] = lambda v, t: ["ctx", [[v, "name", N("a")], ["m", "name", N("b")], ["r", "name", t]]]
    return B


BINDERS = _binders()


def _uses():
    """name -> fn(x, y): an expression that uses the outer local name x (and the inner one y) next to something a name could go on with."""
    U = {}
    for op in fs.BINOPS:
        U["x" + op + "y"] = lambda x, y, op=op: [op, N(x), N(y)]
        U["x" + op + "1"] = lambda x, y, op=op: [op, N(x), ["num", "1", "", "plain"]]
        U["y" + op + "x"] = lambda x, y, op=op: [op, N(y), N(x)]
    U["between"] = lambda x, y: ["between", N(x), N(y), N("c")]
    U["between2"] = lambda x, y: ["between", N("c"), N(x), N(y)]
    U["neg"] = lambda x, y: ["-", ["neg", N(x)], N(y)]
    U["path"] = lambda x, y: ["+", ["path", N(x), "k"], N(y)]
    U["filter"] = lambda x, y: ["filter", N(x), ["-", N(y), N(x)]]
    U["call"] = lambda x, y: ["call", N(x), ["pos", [["+", N(y), N(x)]]]]
    U["instof"] = lambda x, y: ["instof", N(x), ["tb", "number"]]
    U["if"] = lambda x, y: ["if", N(x), ["+", N(y), N(x)], ["*", N(x), N(y)]]
    U["list"] = lambda x, y: ["list", [["-", N(x), N(y)], ["/", N(y), N(x)]]]
    U["inlist"] = lambda x, y: ["inlist", N(x), [N(y), ["+", N(x), N("c")]]]
    return U


USES = _uses()


def local_cases():
    """outer binder x inner binder x use; the outer name is lx, the inner one ly (neither is known to the caller's scope)."""
    for bo, fo in BINDERS.items():
        for bi, fi in BINDERS.items():
            for u, fu in USES.items():
                tree = fo("lx", fi("ly", fu("lx", "ly")))
                c = tree_case(tree, "expression")
                c["part"] = "locals"
                c["local"] = [bo, bi, u]
                yield c
        for u, fu in USES.items():       # one construct only (control)
            c = tree_case(fo("lx", fu("lx", "lx")), "expression")
            c["part"] = "locals"
            c["local"] = [bo, None, u]
            yield c


# ---------------------------------------------------------------------------------------------------------------
# random trees
# ---------------------------------------------------------------------------------------------------------------

def gen_random(src, maxd):
    d = src.int(2, maxd)
    if src.bool(0.1):
        k = src.choice(["exprlist", "neglist"])
        tree = [k, [fs.gen_tree(src, d - 1, ()) for _ in range(src.int(1, 3))]]
        entry = "unary"
    else:
        tree = fs.gen_tree(src, d, ())
        entry = "expression"
    case = tree_case(tree, entry, src, max_drop=4, subsets=2)
    # one token-preserving fancy layout of the minimal rendering and of one more variant (no known lexer triggers)
    extra = []
    for v in case["v"][:2]:
        tokens = fs.render(case["tree"], frozenset(v[1]))
        gaps, _ = fs.gen_gaps(src, tokens, comments=0.12)
        extra.append(["layout", v[1], gaps])
    case["v"] = case["v"] + extra
    return case


# ---------------------------------------------------------------------------------------------------------------
# layouts (including the trigger sets of the two known lexer defects, diagnosed differentially)
# ---------------------------------------------------------------------------------------------------------------

def gen_layout(src):
    d = src.int(1, 4)
    if src.bool(0.1):
        tree, entry = ["exprlist", [fs.gen_tree(src, d, ()) for _ in range(src.int(1, 2))]], "unary"
    else:
        tree, entry = fs.gen_tree(src, d, ()), "expression"
    keep, ok = fs.minimal_parens(tree, entry)
    if not ok:
        raise Inconclusive("reference parser does not read back its own full rendering: %r" % (tree,))
    if fs.unsafe_type_follow(fs.render(tree, frozenset(keep))):
        tree = fs.fix_types(tree)
        keep, ok = fs.minimal_parens(tree, entry)
    paths = sorted(keep)
    tokens = fs.render(tree, frozenset(paths))
    mode = src.weighted([(6, "plain"), (2, "multi"), (2, "var"), (1, "look")])
    layouts = []
    for _ in range(3):
        gaps, info = fs.gen_gaps(src, tokens, comments=0.3, multi=0.5 if mode == "multi" else 0.0,
                                 var_comment=0.7 if mode == "var" else 0.0, look_comment=0.7 if mode == "look" else 0.0,
                                 rare_ws=0.08)
        layouts.append(gaps)
    return {"entry": entry, "tree": tree, "paths": paths, "layouts": layouts, "tight": fs.tight_gaps(tokens)}


def comment_runs(gap):
    """number of comments in a gap text"""
    n, i = 0, 0
    while i < len(gap):
        if gap.startswith("/*", i):
            i = gap.index("*/", i + 2) + 2      # the closing delimiter is searched after the opener ("/*/" does not close itself)
            n += 1
        elif gap.startswith("//", i):
            i = gap.index("\n", i) + 1
            n += 1
        else:
            i += 1
    return n


def layout_triggers(tokens, gaps):
    multi = [g for g, t in enumerate(gaps) if comment_runs(t) >= 2]
    var = [g for g in range(1, len(gaps)) if tokens[g - 1][0] == "name" and tokens[g - 1][3] == "var" and comment_runs(gaps[g]) >= 1]
    look = [g for g in range(1, len(gaps)) if tokens[g - 1][0] == "kw" and tokens[g - 1][1] in fs.LOOKAHEAD_KW and comment_runs(gaps[g]) >= 1]
    return multi, var, look


def layout_texts(case):
    tokens = fs.render(case["tree"], frozenset(case["paths"]))
    texts = [("canon", fs.layout_text(tokens), None), ("tight", fs.layout_text(tokens, case["tight"]), None)]
    for gaps in case["layouts"]:
        multi, var, look = layout_triggers(tokens, gaps)
        texts.append(("fancy", fs.layout_text(tokens, gaps), (multi, var, look)))
        if multi or var or look:
            g2 = fs.strip_gaps(gaps, var + look, 0)
            g2 = fs.strip_gaps(g2, [g for g in multi if g not in var and g not in look], 1)
            texts.append(("neutral", fs.layout_text(tokens, g2), None))
    return tokens, texts


def reqs_layout(case):
    return [req_parse(t, case["entry"]) for _, t, _ in layout_texts(case)[1]]


def judge_layout(ctx, case, resp):
    entry = case["entry"]
    tokens, texts = layout_texts(case)
    exp = fs.ref_shape(tokens, entry)
    base = None
    pending = None
    for (kind, text, trig), r in zip(texts, resp):
        sut, err, f = sut_shape(r)
        if f is not None:
            f.msg = "%s\n  text: %r" % (f.msg, text)
            return f
        labels = ["layout:" + kind]
        if trig:
            labels += ["layout:several-comments-in-a-row"] if trig[0] else []
            labels += ["layout:comment-after-iteration-variable"] if trig[1] else []
            labels += ["layout:comment-after-lookahead-keyword"] if trig[2] else []
        if any(ch in text for ch in fs.WS_RARE[1:]):
            labels.append("layout:rare-white-space")
        if "//" in text or "/*" in text:
            labels.append("layout:has-comment")
        ctx.note(key=text, nontrivial=kind != "canon", labels=labels, sample={"text": text[:200], "layout": kind})
        if kind == "canon":
            base = (sut, err)
            if sut != exp:
                f = mismatch("canon", text, tokens, entry, sut, err, exp, "the parser and the grammar's binding rules disagree")
                if f.sig in ctx.open_sigs:
                    ctx.report("layout", case, f)
                    return None      # the layouts of a text behind a known defect say nothing
                return f
            continue
        same = sut == base[0] and (err == "") == (base[1] == "")
        if kind == "neutral":
            # the previous fancy layout failed inside a known trigger set: known iff the neutralised layout is fine
            if pending is not None:
                what, ptext, psut, perr, ptrig = pending
                pending = None
                if same:
                    sig = ("C06/comment-after-iteration-variable" if ptrig[1] else "C06/comment-after-lookahead-keyword" if ptrig[2]
                           else "C06/second-comment-not-skipped")
                else:
                    sig = "C06/layout-changes-tree"
                f = Fail(sig, "%s\n  text:      %r\n  parser:    %s\n  canonical: %s" % (
                    what, ptext, show(psut) if psut is not None else "error: " + perr[:200],
                    show(base[0]) if base[0] is not None else "rejection"))
                if f.sig in ctx.open_sigs:
                    ctx.report("layout", case, f)
                else:
                    return f
            if not same:
                return Fail("C06/layout-changes-tree", "layout changed the result\n  text:      %r\n  parser:    %s\n  canonical: %s" % (
                    text, show(sut) if sut is not None else "error: " + err[:200], show(base[0]) if base[0] is not None else "rejection"))
            continue
        if not same:
            what = "white space / comments between tokens changed the result"
            if trig and (trig[0] or trig[1] or trig[2]):
                pending = (what, text, sut, err, trig)
                continue
            return Fail("C06/layout-changes-tree", "%s\n  text:      %r\n  parser:    %s\n  canonical: %s" % (
                what, text, show(sut) if sut is not None else "error: " + err[:200], show(base[0]) if base[0] is not None else "rejection"))
    return None


# ---------------------------------------------------------------------------------------------------------------
# number spellings
# ---------------------------------------------------------------------------------------------------------------

def number_cases():
    spell = []
    for b in ["0", "1", "7", "10", "42", "007", "00", "000123", "9" * 34, "1" + "0" * 40, "12345678901234567890123456789012345678901234567890"]:
        for a in ["", "0", "5", "50", "000", "125", "0" * 20 + "1", "9" * 40]:
            spell.append(["num", b, a, "plain"])
    for a in ["0", "5", "50", "000", "125", "9" * 40]:
        spell.append(["num", "0", a, "dot"])
    ctxs = [
        lambda n: n,
        lambda n: ["neg", n],
        lambda n: ["+", N("a"), n],
        lambda n: ["-", n, N("a")],
        lambda n: ["*", n, n],
        lambda n: ["**", n, ["neg", n]],
        lambda n: ["range", "[", n, n, "]"],
        lambda n: ["range", "(", n, ["qn", ["a"]], "["],
        lambda n: ["ut", "<", n],
        lambda n: ["in", N("a"), ["ut", ">=", n]],
        lambda n: ["list", [n, n]],
        lambda n: ["filter", N("a"), n],
        lambda n: ["call", N("a"), ["pos", [n]]],
        lambda n: ["path", n, "k"],
        lambda n: ["for", [["x", "range", n, n]], n],
        lambda n: ["ctx", [["k", "name", n]]],
        lambda n: ["between", n, n, n],
    ]
    for n in spell:
        for i, c in enumerate(ctxs):
            tree = c(n)
            keep, ok = fs.minimal_parens(tree)
            yield {"entry": "expression", "tree": tree, "v": [["min", sorted(keep)], ["layout", sorted(keep), fs.tight_gaps(fs.render(tree, frozenset(keep)))]]}


# ---------------------------------------------------------------------------------------------------------------
# string literals over the code points
# ---------------------------------------------------------------------------------------------------------------

BOUNDARY_CPS = [0, 1, 8, 9, 0xA, 0xB, 0xC, 0xD, 0xE, 0x1F, 0x20, 0x21, 0x22, 0x23, 0x27, 0x2F, 0x5B, 0x5C, 0x5D, 0x7E, 0x7F, 0x80, 0x85,
                0xA0, 0xFF, 0x100, 0x7FF, 0x800, 0xFFF, 0x1000, 0x2028, 0x2029, 0xD7FF, 0xE000, 0xFEFF, 0xFFFD, 0xFFFE, 0xFFFF,
                0x10000, 0x10001, 0x1003F, 0x10040, 0x1007F, 0x10080, 0x100BF, 0x100C0, 0x103FF, 0x10400, 0x1F600, 0x1F63F, 0x1F640,
                0x1FFFF, 0x20000, 0xFFFFF, 0x100000, 0x10FFBF, 0x10FFC0, 0x10FFFE, 0x10FFFF]
FORMS = ["raw", "esc", "u4", "u4l", "sp", "spl", "U6", "U6l"]
PACK = 48


def scalar(cp):
    return 0 <= cp <= 0x10FFFF and not 0xD800 <= cp <= 0xDFFF


def codepoint_packs(ctx):
    if ctx.thorough():
        cps = [cp for cp in range(0x110000) if scalar(cp)]
    else:
        off = ctx.seed % 97
        cps = sorted(set(cp for cp in range(off, 0x110000, 97) if scalar(cp)) | set(BOUNDARY_CPS))
    for form in FORMS:
        sel = [cp for cp in cps if form in fs.forms_for(cp)]
        # singles first for the boundaries (so that the first failure is minimal), then packs
        for cp in BOUNDARY_CPS:
            if form in fs.forms_for(cp):
                yield {"form": form, "cps": [cp]}
        for i in range(0, len(sel), PACK):
            yield {"form": form, "cps": sel[i:i + PACK]}


def cp_text(case, cps=None):
    return fs.str_text([[cp, case["form"]] for cp in (cps if cps is not None else case["cps"])])


def reqs_cp(case):
    return [req_parse(cp_text(case), "expression")]


def cp_ok(r, cps):
    return "ok" in r and fs.parse_debug(r["ok"]) == ("String", "".join(chr(c) for c in cps))


def judge_cp(ctx, case, resp):
    r = resp[0]
    cps, form = case["cps"], case["form"]
    for cp in cps:
        ctx.evaluations += 1
        ctx.nontrivial.add("%s:%x" % (form, cp))
    ctx.evaluations -= 1
    ctx.note(key=None, labels=["string:" + form, "string:supplementary" if cps[-1] > 0xFFFF else "string:bmp"],
             sample={"text": cp_text(case)[:120], "form": form})
    if cp_ok(r, cps):
        return None
    # which code points fail on their own?
    singles = ctx.driver().batch([req_parse(cp_text(case, [cp]), "expression") for cp in cps])
    bad = [(cp, s) for cp, s in zip(cps, singles) if not cp_ok(s, [cp])]
    if not bad:
        return Fail("C06/string-literal-pack", "string literal of %d code points (%s spelling) is not read back, each code point alone is: %r -> %r" % (
            len(cps), form, cp_text(case)[:200], r))
    known = all(form in ("sp", "spl") and cp & 0x40 and "Unicode character has failed" in s.get("err", "") for cp, s in bad)
    should = [cp for cp in cps if form in ("sp", "spl") and cp & 0x40]
    cp, s = bad[0]
    msg = "string literal %s (U+%04X, %s spelling) -> %s; expected String(%r); %d of %d code points of this pack fail" % (
        cp_text(case, [cp]), cp, form, s.get("err") or s.get("ok"), chr(cp), len(bad), len(cps))
    if known and [c for c, _ in bad] == should:
        return Fail("C06/surrogate-pair-low-byte", msg)
    return Fail("C06/string-literal-wrong", msg)


# ---------------------------------------------------------------------------------------------------------------

# ---------------------------------------------------------------------------------------------------------------
# size: wide and deep trees (the operator pairs / random trees above are small)
# ---------------------------------------------------------------------------------------------------------------

WIDTHS = [2, 10, 50, 90, 96, 97, 98, 99, 100, 101, 120, 199, 200, 201, 300, 500, 1000]
WIDTHS_QUICK = [2, 50, 98, 100, 128, 200, 256]


def wide_cases(widths=WIDTHS):
    """lists, argument lists, `in` lists, contexts, parameter lists, iteration clauses and unary-test lists with n members; left- and
    right-nested chains and unary minus / parentheses n deep. Members alternate between a number and a small compound, so that the fully
    parenthesised rendering differs from the minimal one."""
    num = lambda i: ["num", str(i % 10), "", "plain"]
    comp = lambda i: ["+", N("a"), num(i)]
    for n in widths:
        members = [num(i) if i % 2 else comp(i) for i in range(n)]
        yield tree_case(["list", members]), "list", n
        yield tree_case(["+", N("a"), ["list", members]]), "operand-list", n
        yield tree_case(["call", N("f"), ["pos", members]]), "arguments", n
        yield tree_case(["inlist", N("x"), members]), "in-list", n
        yield tree_case(["exprlist", members], "unary"), "unary-tests", n
        if n <= 300:
            yield tree_case(["ctx", [["k%d" % i, "name", members[i]] for i in range(n)]]), "context-entries", n
            yield tree_case(["fn", [["p%d" % i, None] for i in range(n)], N("a"), False]), "parameters", n
            left = N("a")
            for i in range(n):
                left = ["+", left, num(i)]
            yield tree_case(left), "left-chain", n
            right = N("a")
            for i in range(n):
                right = ["**", num(i), right] if False else ["-", num(i), right]
            yield tree_case(right), "right-nested", n
            neg = N("a")
            for i in range(n):
                neg = ["neg", neg]
            yield tree_case(neg), "unary-minus-depth", n
            nest = N("a")
            for i in range(n):
                nest = ["list", [nest]]
            yield tree_case(nest), "list-depth", n


def enum_wide(ctx):
    for case, shape, n in wide_cases(WIDTHS if ctx.thorough() else WIDTHS_QUICK):
        case["v"] = [v for v in case["v"] if v[0] in ("full", "min")]
        case["part"] = "wide"
        case["wide"] = [shape, n]
        yield case


def setup(ctx):
    ctx.rule = ("cases: syntax trees over the full operator set (every ordered operator pair in every operand position, triples, random "
                "trees of depth <= 6; leaves: bound single-word names, numbers and strings in all spellings) rendered to token lists "
                "with a chosen set of parenthesis pairs (full, minimal, minimal minus one needed pair, other subsets) and printed with "
                "token-preserving layouts; oracle: round trip for the full rendering, reference precedence parser over the token list "
                "for every other rendering, equality of all layouts. non-trivial: the text omits at least one pair a naive renderer "
                "would emit or contains a needed pair (strings: one per code point and spelling); distinct by text")
    ctx.assumptions = ["the binding table of pbt/oracles/feel_syntax.py (transcribed from feel.y lines 72-87) is the grammar's",
                       "`and` after `between` closes the innermost open between of the same bracket pair",
                       "Rust Debug text of AstNode determines the tree (derived Debug)"]
    ctx.p_pairs = ctx.register(Part("pairs", None, reqs_tree, judge_tree))
    ctx.p_triples = ctx.register(Part("triples", None, reqs_tree, judge_tree))
    ctx.p_tree = ctx.register(Part("tree", lambda src: gen_random(src, 6), reqs_tree, judge_tree))
    ctx.p_num = ctx.register(Part("numbers", None, reqs_tree, judge_tree))
    ctx.p_cp = ctx.register(Part("codepoints", None, reqs_cp, judge_cp))
    ctx.p_layout = ctx.register(Part("layout", gen_layout, reqs_layout, judge_layout))
    ctx.p_wide = ctx.register(Part("wide", None, reqs_tree, judge_tree))
    ctx.p_locals = ctx.register(Part("locals", None, reqs_tree, judge_tree))
    if CAL:
        ctx.max_violations = 10 ** 9


def run(ctx):
    npairs = count_iter(pair_specs())
    ctx.enumerate(ctx.p_pairs, ({"spec": s} for s in pair_specs()), batch=100,
                  name="ordered operator pairs x operand position (%d), all parenthesis subsets" % npairs, exhaustive=True)
    ctx.log("pairs done")
    if ctx.stop():
        return
    nl = count_iter(local_cases())
    ctx.enumerate(ctx.p_locals, local_cases(), batch=100,
                  name="names bound only by an enclosing construct: outer binder x inner binder x use (%d), all parenthesis subsets" % nl, exhaustive=True)
    ctx.log("locals done")
    if ctx.stop():
        return
    if ctx.thorough():
        ctx.enumerate(ctx.p_triples, ({"spec": s} for s in triple_specs()), batch=100,
                      name="operator triples (chains and siblings), all parenthesis subsets", exhaustive=True)
    else:
        rnd = ctx.rng("triples")
        total = count_iter(triple_specs())
        want = 2500
        pick = set(rnd.sample(range(total), want))
        ctx.enumerate(ctx.p_triples, ({"spec": s} for i, s in enumerate(triple_specs()) if i in pick), batch=100,
                      name="operator triples: %d sampled of %d" % (want, total), exhaustive=False)
    ctx.log("triples done")
    if ctx.stop():
        return
    ctx.enumerate(ctx.p_num, number_cases(), batch=200, name="number spellings x contexts x {canonical, tight}", exhaustive=True)
    ctx.enumerate(ctx.p_cp, codepoint_packs(ctx), batch=100,
                  name="string literal code points x spellings (%s)" % ("all scalar values" if ctx.thorough() else "every 97th + boundaries"),
                  exhaustive=ctx.thorough())
    ctx.log("literals done")
    if ctx.stop():
        return
    sys.setrecursionlimit(max(sys.getrecursionlimit(), 50000))
    ctx.enumerate(ctx.p_wide, enum_wide(ctx), batch=10, name="wide and deep trees: %d sizes x 11 shapes x {full, minimal}" % len(WIDTHS if ctx.thorough() else WIDTHS_QUICK),
                  exhaustive=True)
    ctx.log("wide trees done")
    if ctx.stop():
        return
    ctx.forall(ctx.p_tree, ctx.scale(2500, 400000), batch=100)
    ctx.log("random trees done")
    if ctx.stop():
        return
    ctx.forall(ctx.p_layout, ctx.scale(2500, 300000), batch=100)


if __name__ == "__main__":
    sys.exit(main(sys.modules[__name__]))
