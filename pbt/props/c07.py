"""C07 — numbers print as plain decimal text that denotes exactly their value."""
import re
import sys
from decimal import Decimal

from ..engine import Part, Fail, main
from .. import dec

PROP = "C07"
PLAIN = re.compile(r"^-?[0-9]+(\.[0-9]+)?$")
JSONNUM = re.compile(r"^-?(0|[1-9][0-9]*)(\.[0-9]+)?([eE][+-]?[0-9]+)?$")


def classify(t, d):
    sign, coeff, exp = t
    labels = []
    labels.append("neg" if sign else "pos")
    labels.append("sci" if "E" in d else "plain-internal")
    if exp > 0:
        labels.append("exp>0")
    elif exp < 0:
        labels.append("exp<0")
    else:
        labels.append("exp=0")
    if coeff == "0":
        labels.append("zero")
    elif coeff.endswith("0"):
        labels.append("trailing-zeros")
    return labels


def judge_text(ctx, where, t, value, r):
    """r: driver record with n (Display), d (Debug), j (jsonify). value: exact Decimal expected."""
    n, d, j = r.get("n"), r.get("d", ""), r.get("j")
    labels = classify(t, d) if t else ["result"]
    nontrivial = ("E" in d) or (n or "").startswith("-") or ("trailing-zeros" in labels)
    ctx.note(key=[where, str(value), n], nontrivial=nontrivial, labels=[where] + labels,
             sample={"where": where, "value": str(value), "printed": (n or "")[:80], "internal": d})
    if n is None:
        return Fail("C07/no-text", "%s: no text for %s: %r" % (where, value, r))
    if not PLAIN.match(n):
        return Fail(diagnose_text(value, n), "%s: %s prints as %r which is not plain decimal text" % (where, value, n[:120]))
    if Decimal(n) != value:
        return Fail("C07/wrong-value", "%s: %s prints as %r which denotes %s" % (where, value, n[:120], Decimal(n)))
    if j is not None:
        if not JSONNUM.match(j):
            return Fail(diagnose_json(value, j), "%s: JSON rendering of %s is %r: not a valid JSON number" % (where, value, j[:120]))
        if Decimal(j) != value:
            return Fail("C07/json-wrong-value", "%s: JSON rendering of %s is %r" % (where, value, j[:120]))
    return None


def diagnose_text(value, n):
    return "C07/not-plain"


def diagnose_json(value, j):
    return "C07/json-invalid"


# ---- part 1: from_str -> Display/jsonify -> from_str -------------------------------------------------

def gen_triple(src):
    return list(dec.gen_d128(src))


def reqs_roundtrip(case):
    return [{"op": "num", "f": "roundtrip", "a": [dec.sci(case)]}]


def judge_roundtrip(ctx, case, resp):
    r = resp[0]
    value = Decimal(dec.sci(case))
    if "n" not in r:
        return Fail("C07/rejected", "from_str(%s) failed: %r" % (dec.sci(case), r))
    f = judge_text(ctx, "from_str", case, value, r)
    if f:
        return f
    if not r.get("back_ok"):
        return Fail("C07/readback-rejected", "text %r of %s is not read back: %s" % (r["n"][:120], value, r.get("back_err")))
    if not r.get("back_eq"):
        return Fail("C07/readback-differs", "text %r of %s reads back as %s, which the library does not call equal" % (
            r["n"][:120], value, r.get("back_d")))
    return None


# ---- part 2: FEEL literals through parse + evaluate --------------------------------------------------

def gen_literal(src):
    """A FEEL numeric literal with <= 34 significant digits: digits[.digits] or .digits, optional leading/trailing zeros."""
    n = src.int(1, 34)
    digits = str(src.int(1, 9)) + src.digits(n - 1) if not src.bool(0.08) else "0"
    n = len(digits)
    point = src.int(0, n)  # digits before the point
    ip, fp = digits[:point], digits[point:]
    lead = src.weighted([(6, 0), (2, 1), (1, 3), (1, 40)])
    trail = src.weighted([(6, 0), (2, 1), (1, 3), (1, 40)])
    style = src.weighted([(5, "plain"), (2, "shift-right"), (2, "shift-left")])
    if style == "shift-right":   # small value: 0.000ddd
        z = src.int(1, 60)
        ip, fp = "", "0" * z + digits
    elif style == "shift-left":  # large integer
        z = src.int(1, 60)
        ip, fp = digits + "0" * z, ""
    ip = "0" * lead + ip
    if fp:
        fp = fp + "0" * trail
    if not ip and not src.bool(0.3):
        ip = "0"
    text = ip + ("." + fp if fp else "")
    if not ip and not fp:
        text = "0"
    neg = src.bool(0.3)
    return {"text": text, "neg": neg}


def reqs_literal(case):
    t = ("-" if case["neg"] else "") + case["text"]
    return [{"op": "eval", "text": t, "jsonify": True}]


def judge_literal(ctx, case, resp):
    r = resp[0]
    t = ("-" if case["neg"] else "") + case["text"]
    value = Decimal(t)
    if "values" not in r:
        return Fail("C07/literal-rejected", "literal %s: %r" % (t, r))
    v = r["values"][0]
    if not isinstance(v, dict) or "n" not in v:
        return Fail("C07/literal-not-number", "literal %s evaluates to %r" % (t, v))
    rec = {"n": v["n"], "d": v["d"], "j": r["jsonified"][0]}
    labels = ["leading-dot"] if case["text"].startswith(".") else []
    for l in labels:
        ctx.classes[l] += 1
    return judge_text(ctx, "literal", None, value, rec)


# ---- part 3: typed input (xsd) ------------------------------------------------------------------------

def gen_xsd(src):
    kind = src.choice(["xsd_decimal", "xsd_integer", "xsd_double"])
    t = dec.gen_d128(src)
    sign, coeff, exp = t
    if kind == "xsd_integer":
        exp = src.int(0, 30)
        text = sign + coeff + "0" * exp
    elif kind == "xsd_decimal":
        exp = src.int(-60, 30)
        text = dec.plain((sign, coeff, exp))
    else:
        how = src.weighted([(5, "sci"), (2, "plain"), (2, "coeff-zeros"), (1, "coeff-shift")])
        if how == "sci":
            text = dec.sci((sign, coeff, exp))
        elif how == "plain":
            text = dec.plain((sign, coeff, src.int(-30, 30)))
        elif how == "coeff-zeros":
            # the same number written with k more zeros at the end of the coefficient and an exponent k lower: the written exponent may
            # lie below the smallest exponent of the format (10E-6177 is 1E-6176) although the value is one of the format's
            k = src.int(1, 40)
            text = "%s%s%sE%d" % (sign, coeff, "0" * k, exp - k)
        else:
            # ... and with the point moved to the front of the coefficient (0.00123E+5): the written exponent may lie above the largest
            k = src.int(0, 5)
            text = "%s0.%s%sE%s%d" % (sign, "0" * k, coeff, src.choice(["+", ""]) if exp + k + len(coeff) >= 0 else "", exp + k + len(coeff))
    # other valid lexical forms of the same value (XML Schema part 2): a leading plus sign, leading zeros, `.5` / `5.` for decimals and
    # doubles, and for doubles the exponent marker in either case with or without a plus sign
    if src.bool(0.4):
        body = text[1:] if text.startswith("-") else text
        sg = "-" if text.startswith("-") else ""
        for _ in range(src.int(1, 2)):
            v = src.choice(["plus", "zeros", "lower-e", "exp-nosign", "dot-edge"])
            if v == "plus" and not sg:
                sg = "+"
            elif v == "zeros":
                body = "0" * src.int(1, 3) + body
            elif v == "lower-e" and kind == "xsd_double":
                body = body.replace("E", "e")
            elif v == "exp-nosign" and kind == "xsd_double":
                body = body.replace("E+", "E").replace("e+", "e")
            elif v == "dot-edge" and kind != "xsd_integer" and "E" not in body and "e" not in body:
                if body.startswith("0.") and len(body) > 2:
                    body = body[1:]
                elif "." not in body:
                    body = body + "."
        text = sg + body
    return {"kind": kind, "text": text}


def reqs_xsd(case):
    return [{"op": "temporal", "kind": case["kind"], "text": case["text"]}]


def judge_xsd(ctx, case, resp):
    r = resp[0]
    value = Decimal(case["text"])
    if "value" not in r or not isinstance(r["value"], dict) or "n" not in r["value"]:
        return Fail("C07/xsd-rejected", "%s %r: %r" % (case["kind"], case["text"], r))
    v = r["value"]
    return judge_text(ctx, case["kind"], None, value, {"n": v["n"], "d": v["d"], "j": None})


# ---- part 4: results of arithmetic ----------------------------------------------------------------------

OPS = ["add", "sub", "mul", "div", "neg", "abs", "floor", "ceiling"]


def gen_arith(src):
    op = src.choice(OPS)
    a = list(dec.gen_d128(src))
    b = list(dec.gen_d128(src))
    if src.bool(0.5):  # keep exponents close so that results are not dominated by one operand
        b[2] = max(dec.ETINY, min(dec.ETOP, a[2] + src.int(-40, 40)))
    return {"op": op, "a": a, "b": b}


def reqs_arith(case):
    args = [dec.sci(case["a"])] + ([dec.sci(case["b"])] if case["op"] in ("add", "sub", "mul", "div") else [])
    return [{"op": "num", "f": case["op"], "a": args}]


def judge_arith(ctx, case, resp):
    r = resp[0]
    if "n" not in r:
        return None  # not a number result: outside this property
    d = r["d"]
    if d in ("Infinity", "-Infinity", "NaN", "sNaN", "-NaN"):
        ctx.classes["non-finite-result(C02)"] += 1
        return None  # C02's subject ("no evaluation ever produces an infinite value")
    value = Decimal(d)  # the library's own scientific string of the result: independent of the plain-text rewriter
    f = judge_text(ctx, "arith", None, value, r)
    if f:
        f.msg = "%s(%s, %s): %s" % (case["op"], dec.sci(case["a"]), dec.sci(case["b"]), f.msg)
    return f


# ---- enumerated grid ---------------------------------------------------------------------------------------

def grid(ctx):
    lens = [1, 2, 17, 33, 34]
    step = 1 if ctx.thorough() else 7
    exps = set(range(dec.ETINY, dec.ETOP + 1, step)) | set(range(-45, 46)) | {dec.ETINY, dec.ETINY + 1, dec.ETOP - 1, dec.ETOP}
    off = ctx.seed % step
    exps |= set(range(dec.ETINY + off, dec.ETOP + 1, step))
    # every exponent near zero: the printed plain text then takes every length from 1 to about 1100 characters (each is read back)
    exps |= set(range(-1100, 1101))
    for e in sorted(exps):
        for n in lens:
            for tz in (False, True):
                if tz and n == 1:
                    coeff = "0"
                elif tz:
                    coeff = ("123456789" * 4)[: n - n // 2] + "0" * (n // 2)
                else:
                    coeff = ("987654321" * 4)[:n]
                    if coeff.endswith("0"):
                        coeff = coeff[:-1] + "7"
                for sign in ("", "-"):
                    yield [sign, coeff, e]
    # integers next to the limits of the machine integers (a conversion that goes through i8 ... u128 or f64 changes them), also written
    # with fraction zeros and as a multiple of a power of ten
    for bits in dec.POW2_BITS + [24, 52, 62, 65, 96, 127, 128]:
        for d in (-2, -1, 0, 1, 2):
            c = str(2 ** bits + d)
            if len(c) > 34:
                continue
            for sign in ("", "-"):
                yield [sign, c, 0]
                if len(c) <= 32:
                    yield [sign, c + "00", -2]
                if c.endswith("0"):
                    yield [sign, c.rstrip("0"), len(c) - len(c.rstrip("0"))]


# ---- part 5: the other renderings of a number: string(), and numbers inside printed lists and contexts ----------------------

RENDER_TEXT = "[string(x), string([x]), string({a: x}), string(-x), string(x) = string(y)]"


def gen_render(src):
    if src.bool(0.5):
        lit = gen_literal(src)
        return {"lit": ("-" if lit["neg"] else "") + lit["text"]}
    return {"triple": list(dec.gen_d128(src))}


def reqs_render(case):
    if "lit" in case:
        # the number enters as a literal of the expression
        t = RENDER_TEXT.replace("-x", "-(%s)" % case["lit"]).replace("x", "(%s)" % case["lit"]).replace("y", "(%s)" % case["lit"])
        return [{"op": "eval", "text": t}]
    b = {"n": dec.sci(case["triple"])}
    return [{"op": "eval", "text": RENDER_TEXT, "scope": [[["x", b], ["y", b]]]}]


def judge_render(ctx, case, resp):
    r = resp[0]
    src_text = case.get("lit") or dec.sci(case["triple"])
    value = Decimal(src_text)
    if "values" not in r:
        return Fail("C07/render-rejected", "string(%s): %r" % (src_text, r))
    v = r["values"][0]
    items = v.get("l") if isinstance(v, dict) else None
    if not items or len(items) != 5 or not all(isinstance(i, dict) and "s" in i for i in items[:4]):
        return Fail("C07/render-not-text", "string() of %s, of a list and of a context holding it: %r" % (src_text, v))
    texts = [items[0]["s"], items[1]["s"], items[2]["s"], items[3]["s"]]
    if not (texts[1].startswith("[") and texts[1].endswith("]")) or not (texts[2].startswith("{a: ") and texts[2].endswith("}")):
        return Fail("C07/render-not-text", "string([x]) = %r, string({a: x}) = %r for x = %s" % (texts[1][:80], texts[2][:80], src_text))
    shown = [("string(x)", texts[0], value), ("string([x])", texts[1][1:-1], value), ("string({a: x})", texts[2][4:-1], value), ("string(-x)", texts[3], value.copy_negate())]
    nontrivial = value != value.to_integral_value() or abs(value) >= Decimal(10) ** 21 or (value != 0 and abs(value) < Decimal("0.000001"))
    ctx.note(key=["render", src_text], nontrivial=nontrivial, labels=["render", "render:literal" if "lit" in case else "render:bound",
             "render:fraction" if value != value.to_integral_value() else "render:integral"],
             sample={"where": "string()", "value": src_text, "printed": texts[0][:80]})
    for what, t, val in shown:
        if not PLAIN.match(t):
            return Fail("C07/not-plain", "%s for x = %s is %r which is not plain decimal text" % (what, src_text, t[:120]))
        if Decimal(t) != val:
            return Fail("C07/wrong-value", "%s for x = %s is %r which denotes %s" % (what, src_text, t[:120], Decimal(t)))
    if items[4] is not True:
        return Fail("C07/wrong-value", "string(x) = string(x) is %r for x = %s" % (items[4], src_text))
    return None


def setup(ctx):
    ctx.rule = ("cases: (sign, coefficient, exponent) triples of finite decimal128 values read by from_str, FEEL literals of <=34 significant "
                "digits through parse+evaluate, xsd typed input, results of arithmetic, the text made by string() of a number (bound or literal, also negated and "
                "inside a printed list / context); oracle: exact Decimal of the printed text vs exact "
                "value, strict plain/JSON grammars, read-back equality. non-trivial: the library's internal text is scientific (the "
                "rewriter ran) or the value is negative or has trailing zeros; distinct by (source, value, printed text)")
    ctx.assumptions = ["CPython decimal.Decimal(text) is exact for any digit string",
                       "the library's Debug text (decQuadToString of the reduced value) names the stored value"]
    ctx.p_round = ctx.register(Part("roundtrip", gen_triple, reqs_roundtrip, judge_roundtrip))
    ctx.p_grid = ctx.register(Part("grid", None, reqs_roundtrip, judge_roundtrip))
    ctx.p_lit = ctx.register(Part("literal", gen_literal, reqs_literal, judge_literal))
    ctx.p_xsd = ctx.register(Part("xsd", gen_xsd, reqs_xsd, judge_xsd))
    ctx.p_arith = ctx.register(Part("arith", gen_arith, reqs_arith, judge_arith))
    ctx.p_render = ctx.register(Part("render", gen_render, reqs_render, judge_render))


def run(ctx):
    ctx.enumerate(ctx.p_grid, grid(ctx), name="exponent x coefficient-length x trailing-zeros x sign grid",
                  exhaustive=ctx.thorough())
    ctx.forall(ctx.p_round, ctx.scale(20000, 3600000))
    ctx.forall(ctx.p_lit, ctx.scale(10000, 1800000))
    ctx.forall(ctx.p_xsd, ctx.scale(5000, 900000))
    ctx.forall(ctx.p_arith, ctx.scale(15000, 2700000))
    ctx.forall(ctx.p_render, ctx.scale(15000, 2700000))


if __name__ == "__main__":
    sys.exit(main(sys.modules[__name__]))
