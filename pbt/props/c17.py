"""C17 — the workspace holds exactly the models its history of add/remove/replace/clear/deploy operations leaves in it.

Parts
  bfs        state-space enumeration: every operation of the alphabet applied to every distinct observed state reachable
             within 5 operations (= all histories of length <= 6, given that behaviour is a function of the observed state),
             each state re-created by replaying its shortest history from a fresh workspace.
  samestate  the proviso of the above, checked: two different histories that end in the same observed state are extended by
             every operation and must answer alike and end in the same observed state again.
  random     long random histories (<= 60 operations), shrinking.
After every operation: the response, the hook snapshot (list, both lookups, evaluators) and the behaviour of evaluate for
every model name are compared with the reference model; a bfs case additionally ends with deploy + evaluate of every name
(which shows WHICH definitions are stored, e.g. A or its replacement A2).
"""
import sys

from ..engine import Part, Fail, main, canon
from ..oracles import workspace_models as WM
from ..oracles import workspace_ref as WR

PROP = "C17"
SIG_REMOVE_OR = "C17/remove-matches-namespace-or-name"

OPS = ([["add", t] for t in WM.TAGS] + [["deploy"]] + [["remove", ns, nm] for ns, nm in WM.REMOVE_KEYS] +
       [["replace", t] for t in WM.TAGS] + [["clear"]])
_OBS = {}          # canon(ops) -> observed state key (filled by the judge, read by the breadth-first driver in run())


# ---- requests ------------------------------------------------------------------------------------------

def op_request(op):
    k = op[0]
    if k in ("add", "replace"):
        return {"op": "ws", "w": k, "xml": WM.XML[op[1]]}
    if k == "remove":
        return {"op": "ws", "w": "remove", "namespace": op[1], "name": op[2]}
    return {"op": "ws", "w": k}


def eval_requests():
    return [{"op": "ws", "w": "evaluate", "model": n, "invocable": WM.INVOCABLE} for n in WM.EVAL_NAMES]


def observed_steps(n_ops, probe, every):
    """Which steps (0 = the new workspace, i = after the i-th operation, n+1 = the trial deploy) are followed by the evaluate
    observations. bfs/samestate cases observe only the state before the last operation, after it and after the trial deploy:
    their prefix is the shortest history of a state that was itself a fully observed case one level earlier."""
    total = 1 + n_ops + (1 if probe else 0)
    if every:
        return [True] * total
    last = n_ops
    return [i >= last - 1 for i in range(total)]


def history_requests(ops, probe, every):
    seq = [{"op": "ws", "w": "new"}] + [op_request(op) for op in ops] + ([{"op": "ws", "w": "deploy"}] if probe else [])
    reqs = []
    for r, obs in zip(seq, observed_steps(len(ops), probe, every)):
        reqs.append(r)
        if obs:
            reqs.extend(eval_requests())
    return reqs


# ---- reading the responses -------------------------------------------------------------------------------

class Unreadable(Exception):
    pass


def read_response(r):
    """-> ["ok"] | ["err", reason] (reason: namespace | name | other text)"""
    if not isinstance(r, dict) or "snapshot" not in r or "unavailable" in r.get("snapshot", {}):
        raise Unreadable("no snapshot in %r" % (r,))
    if r.get("ok") is True:
        return ["ok"]
    if "err" in r:
        e = r["err"]
        if "definitions with namespace" in e and "already exist" in e:
            return ["err", "namespace"]
        if "definitions with name" in e and "already exist" in e:
            return ["err", "name"]
        return ["err", e]
    raise Unreadable("unexpected response %r" % (r,))


def read_eval(r):
    if not isinstance(r, dict) or "snapshot" not in r:
        raise Unreadable("no snapshot in %r" % (r,))
    if "value" in r:
        v = r["value"]
        if isinstance(v, dict) and "s" in v:
            return ["value", v["s"]]
        return ["value", canon(v)]
    if "err" in r and "is not deployed" in r["err"]:
        return ["err"]
    raise Unreadable("unexpected evaluate response %r" % (r,))


def read_step(resp, pos, observed):
    """One operation response followed by the evaluate observations -> (step record, next pos)."""
    r = resp[pos]
    rec = {"response": read_response(r), "snapshot": r["snapshot"], "evaluate": {} if observed else None}
    pos += 1
    for n in WM.EVAL_NAMES if observed else []:
        e = resp[pos]
        rec["evaluate"][n] = read_eval(e)
        if e["snapshot"] != rec["snapshot"]:
            rec["evaluate_changed_state"] = [n, e["snapshot"]]
        pos += 1
    return rec, pos


def read_history(ops, probe, every, resp):
    """-> [initial record, one record per op, (probe record)]"""
    steps = []
    pos = 0
    for obs in observed_steps(len(ops), probe, every):
        rec, pos = read_step(resp, pos, obs)
        steps.append(rec)
    return steps


def state_key(steps, probe):
    """The observed state after the history: the snapshot, what evaluate answers, and (bfs) what deploy would make of it."""
    last = steps[-2] if probe else steps[-1]
    k = {"snapshot": last["snapshot"], "evaluate": last["evaluate"]}
    if probe:
        k["after-deploy"] = {"snapshot": steps[-1]["snapshot"], "evaluate": steps[-1]["evaluate"]}
    return canon(k)


# ---- comparison with a model ---------------------------------------------------------------------------------

def differences(rec, expected_response, model):
    """How one observed step differs from what `model` (already advanced) predicts -> list of (category, text)."""
    out = []
    got = rec["response"]
    if expected_response[0] == "ok":
        if got != ["ok"]:
            out.append(("response", "answered %s, expected ok" % (got,)))
    else:
        if got[0] != "err":
            out.append(("response", "answered ok, expected a rejection (%s already stored)" % " and ".join(expected_response[1])))
        elif got[1] not in expected_response[1]:
            out.append(("response", "rejected because of the %s, but the clash is on the %s" % (got[1], " and ".join(expected_response[1]))))
    exp = model.snapshot()
    snap = rec["snapshot"]
    if snap["list"] != exp["list"]:
        out.append(("list", "stored list %s, expected %s" % (snap["list"], exp["list"])))
    if snap["by_namespace"] != exp["by_namespace"]:
        out.append(("lookup", "namespace lookup %s, expected %s" % (snap["by_namespace"], exp["by_namespace"])))
    if snap["by_name"] != exp["by_name"]:
        out.append(("lookup", "name lookup %s, expected %s" % (snap["by_name"], exp["by_name"])))
    if snap["evaluators"] != exp["evaluators"]:
        out.append(("evaluators", "deployed evaluators %s, expected %s" % (snap["evaluators"], exp["evaluators"])))
    ev = model.evaluations()
    for n in WM.EVAL_NAMES if rec["evaluate"] is not None else []:
        if rec["evaluate"][n] != ev[n]:
            out.append(("evaluate", "evaluate(%s, Who) gives %s, expected %s" % (n, rec["evaluate"][n], ev[n])))
    if "evaluate_changed_state" in rec:
        out.append(("evaluate-mutates", "evaluate(%s) changed the state to %s" % tuple(rec["evaluate_changed_state"])))
    return out


def run_model(dev, ops, probe, steps, reading="exact"):
    """-> (index of the first differing step or None, its differences, step at which the remove-or trigger first occurs)."""
    m = WR.Model(dev, reading)
    trigger = None
    seq = [None] + list(ops) + ([["deploy"]] if probe else [])
    for i, op in enumerate(seq):
        if op is None:
            exp = ["ok"]
        else:
            if trigger is None and m.triggers(op):
                trigger = i
            exp = m.apply(op)
        d = differences(steps[i], exp, m)
        if d:
            return i, d, trigger
    return None, [], trigger


def show_ops(ops):
    return " ; ".join("%s(%s)" % (o[0], ",".join(o[1:])) for o in ops) or "(empty history)"


def labels_of(ops):
    """Classes of a history (computed on the reference model)."""
    m = WR.Model()
    labels = set()
    deployed_then_mutated = False
    for op in ops:
        if m.triggers(op):
            labels.add("drift-condition")           # a remove/replace whose namespace meets one stored model and whose name does not (or another)
        if op[0] in ("add", "replace"):
            ns, nm = WM.key_of(op[1])
            if any((x[0] == ns) != (x[1] == nm) for x in m.list):
                labels.add("add-meets-half-a-key")
            if op[1] == "E":
                labels.add("unbuildable-model")
        had = bool(m.deployed)
        r = m.apply(op)
        if had and not m.deployed and op[0] != "deploy":
            deployed_then_mutated = True
        if r[0] == "err":
            labels.add("add-rejected")
        if op[0] == "deploy" and m.deployed:
            labels.add("deploy-nonempty")
            if any(x[2] == "E" for x in m.list):
                labels.add("deploy-with-unbuildable")
    if deployed_then_mutated:
        labels.add("deploy-then-modification")
    return labels


def judge_history(ctx, case, resp, part):
    ops, probe = case["ops"], bool(case.get("probe"))
    try:
        steps = read_history(ops, probe, not probe, resp)
    except (Unreadable, IndexError, KeyError, TypeError) as e:
        return Fail("C17/driver", "history %s: %s" % (show_ops(ops), e))
    _OBS[canon(ops)] = state_key(steps, probe)
    labels = labels_of(ops)
    nontrivial = "drift-condition" in labels or "add-meets-half-a-key" in labels or "deploy-then-modification" in labels
    ctx.note(key=canon(ops), nontrivial=nontrivial, labels=[part] + sorted(part + "/" + l for l in labels) + ["%s/len-%02d" % (part, min(len(ops), 60) // 10 * 10) if part == "random" else "%s/len-%d" % (part, len(ops))],
             sample={"history": show_ops(ops), "final": steps[-1]["snapshot"]} if nontrivial else None)
    # independent of any model: the statement's invariants on every snapshot
    inv_step, inv = None, []
    for i, rec in enumerate(steps):
        inv = WR.snapshot_invariants(rec["snapshot"])
        if inv:
            inv_step = i
            break
    # the reference under both readings of a partly matching remove (they differ only on histories labelled partial-match)
    ref_i, ref_d, _ = run_model(WR.NODEV, ops, probe, steps, "exact")
    if ref_i is not None and "drift-condition" in labels:
        alt_i, alt_d, _ = run_model(WR.NODEV, ops, probe, steps, "either")
        if alt_i is None or alt_i > ref_i:
            ref_i, ref_d = alt_i, [(c, t + " [reading: remove designates every model matching either argument]") for c, t in alt_d]
    if ref_i is None and inv_step is None:
        return None
    seq = [None] + list(ops) + ([["deploy (probe)"]] if probe else [])
    dev_i, dev_d, trigger = run_model(WR.REMOVE_OR, ops, probe, steps)
    if dev_i is None and trigger is not None and (ref_i is None or trigger <= ref_i):
        # the SUT did, at every step, exactly what the known defect predicts, and the history contains its trigger
        i = ref_i if ref_i is not None else inv_step
        d = ref_d if ref_i is not None else [("invariant", t) for t in inv]
        return Fail(SIG_REMOVE_OR, "history %s: after step %d %s: %s" % (show_ops(ops), i, show_ops([seq[i]]) if seq[i] else "", "; ".join(t for _, t in d)),
                    trigger_step=trigger)
    # not (only) the known defect: report the first step at which the SUT leaves the model it had followed longest
    if ref_i is None:
        i, d, which = inv_step, [("invariant", t) for t in inv], "invariant"
    elif dev_i is not None and dev_i > ref_i:
        i, d, which = dev_i, dev_d, "behind the known remove defect (expected values are that defect's)"
    else:
        i, d, which = ref_i, ref_d, "reference"
    cat = d[0][0]
    return Fail("C17/" + cat, "history %s: after step %d %s [%s]: %s" % (show_ops(ops), i, show_ops([seq[i]]) if seq[i] else "(new workspace)", which,
                                                                         "; ".join(t for _, t in d)))


# ---- parts -------------------------------------------------------------------------------------------------

def reqs_bfs(case):
    return history_requests(case["ops"], True, False)


def judge_bfs(ctx, case, resp):
    return judge_history(ctx, dict(case, probe=True), resp, "bfs")


def gen_random(src):
    ops = []
    while len(ops) < 60 and src.bool(0.97):
        k = src.weighted([(6, "add"), (4, "deploy"), (5, "remove"), (3, "replace"), (1, "clear")])
        if k in ("add", "replace"):
            ops.append([k, src.choice(WM.TAGS)])
        elif k == "remove":
            keys = WM.MODEL_KEYS if src.bool(0.5) else WM.REMOVE_KEYS
            ns, nm = src.choice(keys)
            ops.append(["remove", ns, nm])
        else:
            ops.append([k])
    return {"ops": ops}


def reqs_random(case):
    return history_requests(case["ops"], False, True)


def judge_random(ctx, case, resp):
    return judge_history(ctx, case, resp, "random")


# ---- part: a workspace created over a directory (it loads and deploys what it finds), then a history ------------------------------

STARTUP_TAGS = ["A", "D", "E", "F", "G"]      # pairwise disjoint keys: the order in which the directory is read does not matter


class SortedModel(WR.Model):
    """the stored list compared as a set of keys: the order of the models loaded from a directory is the directory's"""

    def snapshot(self):
        s = WR.Model.snapshot(self)
        s["list"] = sorted(s["list"])
        return s


def gen_startup(src):
    load = src.sample(STARTUP_TAGS, src.int(0, len(STARTUP_TAGS)))
    files = []
    for i, t in enumerate(load):
        sub = src.weighted([(5, ""), (2, "sub/"), (1, "a/b c/")])
        files.append(["%sm%d_%s.dmn" % (sub, i, t), t])
    junk = []
    if src.bool(0.4):
        junk.append(["notes.txt", "B"])                 # not a model file: left alone whatever it holds
    if src.bool(0.3):
        junk.append(["broken.dmn", None])               # a model file that is not well-formed XML: skipped, the others are loaded
    if src.bool(0.2):
        junk.append(["dmn", "C"])                       # a file merely named dmn
    ops = gen_random(src)["ops"][:src.int(0, 12)]
    return {"files": files, "junk": junk, "ops": ops}


def reqs_startup(case):
    files = [[p, WM.XML[t]] for p, t in case["files"]] + [[p, WM.XML[t] if t else "<definitions"] for p, t in case["junk"]]
    reqs = history_requests(case["ops"], False, True)
    reqs[0] = {"op": "ws", "w": "new", "files": files}
    return reqs


def judge_startup(ctx, case, resp):
    ops = case["ops"]
    try:
        steps = read_history(ops, False, True, resp)
    except (Unreadable, IndexError, KeyError, TypeError) as e:
        return Fail("C17/driver", "workspace over a directory %r, history %s: %s" % (case["files"], show_ops(ops), e))
    for rec in steps:
        rec["snapshot"] = dict(rec["snapshot"], list=sorted(rec["snapshot"]["list"]))
    ctx.note(key=canon(case), nontrivial=len(case["files"]) >= 2, labels=["startup", "startup/files-%d" % len(case["files"])]
             + ["startup/junk:" + p for p, _ in case["junk"]] + (["startup/unbuildable-model"] if any(t == "E" for _, t in case["files"]) else []),
             sample={"files": [p for p, _ in case["files"] + case["junk"]], "history": show_ops(ops), "loaded": steps[0]["snapshot"]})
    best = None
    for reading in ("exact", "either"):
        m = SortedModel(WR.NODEV, reading)
        for _, t in case["files"]:
            m.apply(["add", t])
        m.apply(["deploy"])
        bad = None
        for i, op in enumerate([None] + list(ops)):
            exp = ["ok"] if op is None else m.apply(op)
            d = differences(steps[i], exp, m)
            if d:
                bad = (i, d)
                break
        if bad is None:
            return None
        if best is None or bad[0] > best[0]:
            best = bad
    i, d = best
    what = "the new workspace" if i == 0 else "step %d %s" % (i, show_ops([ops[i - 1]]))
    return Fail("C17/startup/" + d[0][0], "workspace created over a directory holding %s, then %s: at %s: %s" % (
        [p for p, _ in case["files"] + case["junk"]], show_ops(ops), what, "; ".join(t for _, t in d)))


def reqs_same(case):
    return history_requests(case["a"] + [case["op"]], True, False) + history_requests(case["b"] + [case["op"]], True, False)


def judge_same(ctx, case, resp):
    a, b, op = case["a"], case["b"], case["op"]
    na = len(history_requests(a + [op], True, False))
    try:
        sa = read_history(a + [op], True, False, resp[:na])
        sb = read_history(b + [op], True, False, resp[na:])
    except (Unreadable, IndexError, KeyError, TypeError) as e:
        return Fail("C17/driver", "histories %s | %s: %s" % (show_ops(a), show_ops(b), e))

    def before(steps):
        return canon({"snapshot": steps[-3]["snapshot"], "evaluate": steps[-3]["evaluate"]})
    ctx.note(key=canon([a, b, op]), nontrivial=True, labels=["samestate", "samestate/" + op[0]])
    if before(sa) != before(sb):
        ctx.classes["samestate/states-differ(skipped)"] += 1
        return None
    if sa[-2]["response"] != sb[-2]["response"] or state_key(sa, True) != state_key(sb, True):
        return Fail("C17/behaviour-not-a-function-of-the-observed-state",
                    "histories %s and %s end in the same observed state %s, but %s then answers %s / %s and leaves %s / %s" % (
                        show_ops(a), show_ops(b), before(sa), show_ops([op]), sa[-2]["response"], sb[-2]["response"],
                        state_key(sa, True), state_key(sb, True)))
    return None


def setup(ctx):
    ctx.rule = ("alphabet: models A(ns1,a) B(ns1,'a - b') C(ns2,a) A2(ns1,a; other content) D(ns3,c) E(ns4,d; parses, does not build) F(ns3/,'a-b': "
                "namespace and name differ from D's / B's only by a slash / by blanks) G(a,ns2: its namespace is spelled like A's name, its name like C's "
                "namespace; in the quick tier G joins the breadth-first enumeration to depth 4 only); "
                "operations add/replace of each model, remove of each of the 16 namespace x name pairs and of an unknown pair, clear, "
                "deploy (%d operations); after each one the response, the hook snapshot and evaluate(name, Who) for every name are "
                "compared with a reference model written from the statement. bfs: every operation on every distinct observed state "
                "(snapshot + evaluate answers + what a deploy would make of it) reachable within 5 operations, re-created from its "
                "shortest history; samestate: for states reached by two different histories, both are extended by every operation and "
                "must agree; random: histories of up to 60 operations. non-trivial: a remove/replace/add whose namespace meets one "
                "stored model while its name does not (the index drift condition), or a modification after a non-empty deploy; distinct "
                "by history" % len(OPS))
    ctx.assumptions = ["remove/replace/clear and a successful add always count as a modification that undeploys everything (documented in "
                       "workspace.rs); a rejected add changes nothing",
                       "which models a remove (or replace) designates whose namespace matches one stored model and whose name does not is not "
                       "said by the statement: a history passes if the SUT follows, throughout, either the reading 'the model having both' or "
                       "the reading 'every model having either' (both keep all stated invariants); which of two applicable rejection reasons "
                       "add reports is free",
                       "the hook snapshot plus the answers of evaluate and of a trial deploy is the whole observable state"]
    ctx.p_bfs = ctx.register(Part("bfs", None, reqs_bfs, judge_bfs))
    ctx.p_same = ctx.register(Part("samestate", None, reqs_same, judge_same))
    ctx.p_random = ctx.register(Part("random", gen_random, reqs_random, judge_random))
    ctx.p_startup = ctx.register(Part("startup", gen_startup, reqs_startup, judge_startup))
    # the same histories through the definitions / evaluate endpoints of the HTTP service (server/src/server.rs is one of this property's
    # anchors: what the endpoints do with the keys before they reach the workspace belongs to the history); generator, protocol and
    # reference are C18's
    from . import c18

    def judge_http(ctx, case, resp):
        f = c18.judge_history(ctx, case, resp, part="http")
        if f is not None and f.sig.startswith("C18/"):
            f.sig = "C17/http/" + f.sig[4:]
        return f
    ctx.p_http = ctx.register(Part("http", c18.gen_ops, lambda case: [], judge_http))

    def judge_http_conc(ctx, case, resp):
        # present at the last deploy + no modification since = evaluable: also while other clients send requests that modify nothing
        f = c18.judge_concurrent(ctx, case, resp)
        if f is not None and f.sig.startswith("C18/"):
            f.sig = "C17/http/" + f.sig[4:]
        return f
    ctx.p_http_conc = ctx.register(Part("http-concurrent", c18.gen_concurrent, lambda case: [], judge_http_conc))


LATE_TAGS = ("G",)      # models added to the alphabet later: in the quick tier they join the enumeration to a smaller depth (cost)
OPS_CORE = [op for op in OPS if not (op[0] in ("add", "replace") and op[1] in LATE_TAGS) and not (op[0] == "remove" and (op[1], op[2]) in [WM.key_of(t) for t in LATE_TAGS] + WM.PADDED_KEYS)]


def bfs(ctx, depth, OPS=OPS, tag=""):
    """Breadth first over observed states. Returns {state key: [shortest history, another history or None]}."""
    ctx.enumerate(ctx.p_bfs, [{"ops": []}], name=tag + "bfs level 0", exhaustive=True)
    if ctx.stop():
        return {}
    root = _OBS.get(canon([]))
    if root is None:
        return {}       # the part was not run (VERIF_PARTS)
    states = {root: [[], None]}
    frontier = [[]]
    for level in range(1, depth + 1):
        if not frontier:
            # no state first reached at the previous level: the observed state space is complete, every longer history ends in a
            # state whose every continuation has been run
            ctx.extra["bfs_state_space_complete_at_level"] = level - 1
            break
        cases = [{"ops": h + [op]} for h in frontier for op in OPS]
        ctx.enumerate(ctx.p_bfs, cases, batch=100, name=tag + "bfs level %d (histories of length %d from every distinct state of level %d)" % (
            level, level, level - 1), exhaustive=True)
        if ctx.stop():
            return states
        nxt = []
        for c in cases:
            k = _OBS.get(canon(c["ops"]))
            if k is None:
                continue
            if k not in states:
                states[k] = [c["ops"], None]
                nxt.append(c["ops"])
            elif c["ops"] != states[k][0] and len(c["ops"]) < depth:
                states[k][1] = c["ops"]
        ctx.log("%sbfs level %d: %d histories, %d new states (total %d)" % (tag, level, len(cases), len(nxt), len(states)))
        ctx.extra[tag + "bfs_states_level_%d" % level] = len(nxt)
        frontier = nxt
    if not frontier and "bfs_state_space_complete_at_level" not in ctx.extra:
        ctx.extra["bfs_state_space_complete_at_level"] = depth
    ctx.extra[tag + "bfs_states"] = len(states)
    return states


def run(ctx):
    depth = ctx.scale(6, 12)     # histories of length <= depth; the statement asks for 6
    if ctx.w == 0:
        saved_W, ctx.W = ctx.W, 1
        try:
            if ctx.thorough():
                states = bfs(ctx, depth)
            else:
                # quick: the alphabet without the late models to depth 6, the whole alphabet to depth 4
                states = bfs(ctx, depth, OPS_CORE, "core alphabet (%d operations): " % len(OPS_CORE))
                if not ctx.stop():
                    bfs(ctx, 4, OPS, "whole alphabet (%d operations): " % len(OPS))
            if not ctx.stop():
                pairs = [(v[0], v[1]) for v in states.values() if v[1] is not None]
                cases = [{"a": a, "b": b, "op": op} for a, b in pairs for op in OPS]
                ctx.extra["samestate_pairs"] = len(pairs)
                ctx.enumerate(ctx.p_same, cases, batch=60, name="every operation after two different histories of the same observed state",
                              exhaustive=True)
        finally:
            ctx.W = saved_W
    if ctx.stop():
        return
    ctx.forall(ctx.p_random, ctx.scale(1500, 200000), batch=40)
    if not ctx.stop():
        ctx.forall(ctx.p_startup, ctx.scale(1500, 100000), batch=20)
    if not ctx.stop():
        ctx.forall(ctx.p_http, ctx.scale(1500, 100000), batch=1)
    if not ctx.stop():
        ctx.forall(ctx.p_http_conc, ctx.scale(12, 400), batch=1)


if __name__ == "__main__":
    sys.exit(main(sys.modules[__name__]))
