"""C16 — type conformance is a preorder compatible with equivalence; coercion yields a conforming value or null.

Parts
  u1        the whole depth-1 universe (1261 types): both relation matrices in one request; every ordered pair compared
            with the reference relations, every ordered triple checked for transitivity by boolean matrix product,
            the other laws of the statement checked on the SUT's own matrices.          (exhaustive, both tiers)
  slice2    three fixed and some seeded bases of eight types of depth <= 1: the base plus EVERY constructor application over
            it (about 690 types of depth <= 2 each), all pairs and triples, same judge.
  universe2 generated sub-universes of depth <= 2 (families of related types, closed under components): same judge.
  coerce    (target type, value) through FeelType::coerced: statement oracle, conforms-or-null, idempotence.
  invoke    the same through a FEEL invocation `(function(p: T) p)(v)` (parameter coercion in builders.rs).
"""
import sys

import numpy as np

from ..engine import Part, Fail, main, canon
from ..oracles import types_ref as R

PROP = "C16"

SIG_NULLARY = "C16/nullary-function-result-ignored"
SIG_NOUNWRAP = "C16/no-unwrap-to-list-target"
DEV_NULLARY = frozenset(["nullary"])
DEV_NOUNWRAP = frozenset(["nounwrap"])

_CACHE = {}


# ====================================================================================================
# universes: matrices, reference comparison, laws
# ====================================================================================================

def matrix(rows):
    return np.array([np.frombuffer(r.encode(), dtype=np.uint8) for r in rows]) == ord("1")


def ref_matrices(types, dev=R.NODEV):
    n = len(types)
    E = np.zeros((n, n), dtype=bool)
    C = np.zeros((n, n), dtype=bool)
    for i, a in enumerate(types):
        for j, b in enumerate(types):
            if R.equiv(a, b, dev):
                E[i, j] = True
                C[i, j] = True
            elif R.conf(a, b, dev):
                C[i, j] = True
    return E, C


def closed(M):
    """Transitivity of a boolean relation: M.M <= M (float32 counts are exact up to 2^24 paths)."""
    F = M.astype(np.float32)
    return (F @ F) > 0


def shape_of(t):
    k = R.kind(t)
    if k == "simple":
        return ("simple",)
    if k in ("list", "range"):
        return (k,)
    if k == "context":
        return ("context",) + tuple(n for n, _ in t[1])
    return ("function", len(t[1]))


def components(t):
    """[(role, component type)], role: 'co' covariant, 'contra' contravariant."""
    k = R.kind(t)
    if k in ("list", "range"):
        return [("co", t[1])]
    if k == "context":
        return [("co", x) for _, x in t[1]]
    if k == "function":
        return [("contra", p) for p in t[1]] + [("co", t[2])]
    return []


class Universe:
    def __init__(self, types):
        self.types = types
        self.n = len(types)
        self.index = {t: i for i, t in enumerate(types)}
        self.shapes = [shape_of(t) for t in types]
        self.groups = {}
        for i, s in enumerate(self.shapes):
            self.groups.setdefault(s, []).append(i)

    def show(self, i):
        return R.show(self.types[i])


def structural_expectation(u, E, C):
    """What the statement's structural clauses demand of every cell, computed from the SUT's OWN answers for the
    components (one level of structure; no reference relation involved). Cells whose components are not members of the
    universe are left unconstrained. Returns (XE, XC, known): expected matrices and the mask of constrained cells."""
    n = u.n
    XE = np.zeros((n, n), dtype=bool)
    XC = np.zeros((n, n), dtype=bool)
    known = np.zeros((n, n), dtype=bool)
    simple = np.array([s == ("simple",) for s in u.shapes])
    names = np.array([t if isinstance(t, str) else "" for t in u.types])
    # simple row or simple column: identity, Null bottom, Any top, nothing else
    sm = simple[:, None] | simple[None, :]
    ident = (names[:, None] == names[None, :]) & simple[:, None] & simple[None, :]
    XE[sm] = ident[sm]
    XC[sm] = (ident | (names == "Null")[:, None] | (names == "Any")[None, :])[sm]
    known |= sm
    comp = {}
    for s, members in u.groups.items():
        if s == ("simple",):
            continue
        cols = []
        ok = np.ones(len(members), dtype=bool)
        roles = [r for r, _ in components(u.types[members[0]])]
        for k in range(len(roles)):
            col = np.array([u.index.get(components(u.types[i])[k][1], -1) for i in members])
            ok &= col >= 0
            cols.append(col)
        comp[s] = (np.array(members), roles, cols, ok)
    for sa, (ga, roles_a, cols_a, ok_a) in comp.items():
        for sb, (gb, roles_b, cols_b, ok_b) in comp.items():
            rows, colsx = ga[:, None], gb[None, :]
            okb = ok_a[:, None] & ok_b[None, :]
            if sa == sb:
                be = np.ones((len(ga), len(gb)), dtype=bool)
                bc = np.ones((len(ga), len(gb)), dtype=bool)
                for k, role in enumerate(roles_a):
                    x, y = cols_a[k][:, None], cols_b[k][None, :]
                    be &= E[x, y]
                    bc &= C[y, x] if role == "contra" else C[x, y]
                XE[rows, colsx] = be
                XC[rows, colsx] = bc
                known[rows, colsx] = okb
            elif sa[0] == "context" and sb[0] == "context":
                # different entry names: never equivalent; conforms iff every entry of the target is present and conforms
                XE[rows, colsx] = False
                na, nb = sa[1:], sb[1:]
                if set(nb) <= set(na):
                    bc = np.ones((len(ga), len(gb)), dtype=bool)
                    for kb, name in enumerate(nb):
                        ka = na.index(name)
                        bc &= C[cols_a[ka][:, None], cols_b[kb][None, :]]
                    XC[rows, colsx] = bc
                    known[rows, colsx] = okb
                else:
                    XC[rows, colsx] = False
                    known[rows, colsx] = True
            else:
                XE[rows, colsx] = False
                XC[rows, colsx] = False
                known[rows, colsx] = True
    return XE, XC, known


def judge_matrices(ctx, types, r, where):
    """Every disagreement and law violation in one universe -> list of (signature, message)."""
    u = Universe(types)
    n = u.n
    problems = []
    if not isinstance(r, dict) or "equiv" not in r:
        return [("C16/driver", "%s: typematrix failed: %r" % (where, r))]
    for i, t in enumerate(types):
        if r["shown"][i] != R.show(t):
            return [("C16/transport", "%s: type %s arrived as %s" % (where, R.show(t), r["shown"][i]))]
    E, C = matrix(r["equiv"]), matrix(r["conf"])
    key = ("ref", where) if where == "U1" else None
    if key in _CACHE:
        RE, RC = _CACHE[key]
    else:
        RE, RC = ref_matrices(types)
        if key:
            _CACHE[key] = (RE, RC)
    dev = {}

    def deviant():
        if "m" not in dev:
            dev["m"] = ref_matrices(types, DEV_NULLARY)
        return dev["m"]

    def explained(cells):
        """cells: [(rel, i, j)] — all as the nullary defect predicts and at least one differing from the reference."""
        if not (RE != E).any() and not (RC != C).any():
            return False
        DE, DC = deviant()
        differs = False
        for rel, i, j in cells:
            S, D, Rf = (E, DE, RE) if rel == "E" else (C, DC, RC)
            if S[i, j] != D[i, j]:
                return False
            if S[i, j] != Rf[i, j]:
                differs = True
        return differs

    counts = {}

    def add(law, cells, msg):
        """Classifies one witness. Returns False when enough unexplained witnesses of this law have been collected."""
        if explained(cells):
            counts[SIG_NULLARY] = counts.get(SIG_NULLARY, 0) + 1
            if counts[SIG_NULLARY] == 1:
                problems.append((SIG_NULLARY, "%s: %s" % (where, msg)))
            return True
        counts[law] = counts.get(law, 0) + 1
        problems.append(("C16/" + law, "%s: %s" % (where, msg)))
        return counts[law] < 3

    def witnesses(mask):
        """All true cells of a mask, row-major (simplest types first)."""
        idx = np.argwhere(mask)
        return [(int(x), int(y)) for x, y in idx], len(idx)

    # ---- 1. cell by cell against the reference relations
    for rel, S, Rf in (("E", E, RE), ("C", C, RC)):
        cells, total = witnesses(S != Rf)
        word = "equivalent to" if rel == "E" else "conformant to"
        for i, j in cells:
            if not add("equiv-mismatch" if rel == "E" else "conf-mismatch", [(rel, i, j)],
                       "%s %s %s: SUT says %s, the statement's relation says %s (%d such cells)" % (
                           u.show(i), word, u.show(j), bool(S[i, j]), bool(Rf[i, j]), total)):
                break
    # ---- 2. laws on the SUT's own matrices
    d = np.arange(n)
    for i in np.flatnonzero(~C[d, d]):
        if not add("law-conf-reflexive", [("C", int(i), int(i))], "%s does not conform to itself" % u.show(i)):
            break
    for i in np.flatnonzero(~E[d, d]):
        if not add("law-equiv-reflexive", [("E", int(i), int(i))], "%s is not equivalent to itself" % u.show(i)):
            break
    if "Any" in u.index:
        a = u.index["Any"]
        for i in np.flatnonzero(~C[:, a]):
            if not add("law-any-top", [("C", int(i), a)], "%s does not conform to Any" % u.show(i)):
                break
    if "Null" in u.index:
        z = u.index["Null"]
        for j in np.flatnonzero(~C[z, :]):
            if not add("law-null-bottom", [("C", z, int(j))], "Null does not conform to %s" % u.show(j)):
                break
    cells, total = witnesses(E & ~E.T)
    for i, j in cells:
        if not add("law-equiv-symmetric", [("E", i, j), ("E", j, i)], "%s equivalent to %s but not the converse" % (u.show(i), u.show(j))):
            break
    cells, total = witnesses(E & ~(C & C.T))
    for i, j in cells:
        if not add("law-equiv-implies-mutual-conformance", [("E", i, j), ("C", i, j), ("C", j, i)],
                   "%s equivalent to %s but they do not conform to each other" % (u.show(i), u.show(j))):
            break
    for rel, S, law in (("C", C, "law-conf-transitive"), ("E", E, "law-equiv-transitive")):
        cells, total = witnesses(closed(S) & ~S)
        for i, k in cells:
            j = int(np.flatnonzero(S[i, :] & S[:, k])[0])
            if not add(law, [(rel, i, j), (rel, j, k), (rel, i, k)], "%s -> %s and %s -> %s hold but %s -> %s does not (%s; %d such pairs)" % (
                    u.show(i), u.show(j), u.show(j), u.show(k), u.show(i), u.show(k), "conformance" if rel == "C" else "equivalence", total)):
                break
    # function types with different result types are never equivalent, whatever the number of parameters
    fidx = [i for i, s in enumerate(u.shapes) if s[0] == "function"]
    if fidx:
        f = np.array(fidx)
        res = [types[i][2] for i in fidx]
        ids = {}
        rid = np.array([ids.setdefault(x, len(ids)) for x in res])
        bad = E[f[:, None], f[None, :]] & (rid[:, None] != rid[None, :])
        cells, total = witnesses(bad)
        for x, y in cells:
            i, j = int(f[x]), int(f[y])
            if not add("law-function-result-matters", [("E", i, j)], "%s and %s have different result types but are equivalent (%d such pairs)" % (
                    u.show(i), u.show(j), total)):
                break
    # covariance / contravariance / same constructor, from the SUT's own answers for the components
    XE, XC, known = structural_expectation(u, E, C)
    for rel, S, X, law in (("E", E, XE, "law-structural-equivalence"), ("C", C, XC, "law-variance")):
        cells, total = witnesses(known & (S != X))
        for i, j in cells:
            comp_cells = [(rel, i, j)]
            ca, cb = components(types[i]), components(types[j])
            if shape_of(types[i]) == shape_of(types[j]):
                for (role, x), (_, y) in zip(ca, cb):
                    xi, yi = u.index[x], u.index[y]
                    comp_cells.append((rel, yi, xi) if (role == "contra" and rel == "C") else (rel, xi, yi))
            if not add(law, comp_cells, "%s %s %s is %s, but the SUT's own answers for the component types demand %s (%d such cells)" % (
                    u.show(i), "equivalent to" if rel == "E" else "conformant to", u.show(j), bool(S[i, j]), bool(X[i, j]), total)):
                break
    problems.append(("_counts", counts))
    return problems, (E, C, RE, RC)


def pick(ctx, problems):
    """First unexplained problem if any, else the first known one (so that the search continues behind known findings)."""
    counts = problems.pop()[1]
    if not problems:
        return None
    for sig, msg in problems:
        if sig not in ctx.open_sigs:
            return Fail(sig, msg, witnesses=counts)
    sig, msg = problems[0]
    k = "known_witnesses_" + sig.split("/")[1]
    ctx.extra[k] = ctx.extra.get(k, 0) + counts.get(sig, 0)
    return Fail(sig, msg, witnesses=counts)


# ---- part u1 ---------------------------------------------------------------------------------------

def u1_types():
    if "u1" not in _CACHE:
        _CACHE["u1"] = R.universe_u1()
    return _CACHE["u1"]


def reqs_u1(case):
    return [{"op": "typematrix", "types": [R.to_driver(t) for t in u1_types()]}]


def judge_u1(ctx, case, resp):
    types = u1_types()
    n = len(types)
    out = judge_matrices(ctx, types, resp[0], "U1")
    if isinstance(out, list):
        return Fail(out[0][0], out[0][1])
    problems, (E, C, RE, RC) = out
    ctx.count(n * n - 1)
    shapes = [shape_of(t)[0] for t in types]
    hist = {}
    for i in range(n):
        ci = int(C[i].sum())
        hist["u1-row/%s" % shapes[i]] = hist.get("u1-row/%s" % shapes[i], 0) + 1
        hist["u1-conf-true/%s" % shapes[i]] = hist.get("u1-conf-true/%s" % shapes[i], 0) + ci
    for k, v in hist.items():
        ctx.classes[k] += v
    ctx.extra["u1_types"] = n
    ctx.extra["u1_pairs_nonidentical"] = n * n - n
    ctx.extra["u1_conformant_pairs"] = int(C.sum())
    ctx.extra["u1_equivalent_pairs"] = int(E.sum())
    ctx.extra["u1_transitivity_premises"] = int((C.astype(np.float32) @ C.astype(np.float32)).sum())
    ctx.note(key="u1", nontrivial=True, labels=["u1"], sample={"universe": "U1", "types": n, "conformant_pairs": int(C.sum())})
    return pick(ctx, problems)


# ---- part slice2: a base of eight depth<=1 types and EVERYTHING one constructor application above it ----------

def T(text):
    return R.parse_shown(text)


FIXED_BASES = [
    ["Any", "Null", "number", "string", "list<number>", "list<Any>", "function<>->number", "function<>->string"],
    ["Any", "Null", "number", "context<>", "context<a: number>", "context<a: Any>", "context<a: number, b: string>", "range<number>"],
    ["Any", "Null", "boolean", "function<number>->string", "function<Any>->Null", "function<number, number>->number", "list<Null>",
     "range<Any>"],
]


def slice_cases(ctx):
    for b in FIXED_BASES:
        yield {"base": b}
    rnd = ctx.rng("slice2")
    u1 = u1_types()
    compound = [t for t in u1 if R.kind(t) != "simple"]
    for _ in range(ctx.scale(1, 6 * 14)):
        picked = rnd.sample(compound, 4) + rnd.sample(R.SIMPLE[2:], 2)
        yield {"base": ["Any", "Null"] + [R.show(t) for t in picked]}


def slice_types(case):
    base = [T(x) for x in case["base"]]
    out = []
    for t in base + R.constructors_over(base):
        if t not in out:
            out.append(t)
    return out


def reqs_slice(case):
    return [{"op": "typematrix", "types": [R.to_driver(t) for t in slice_types(case)]}]


def judge_slice(ctx, case, resp):
    types = slice_types(case)
    out = judge_matrices(ctx, types, resp[0], "all constructors over the base {%s}" % "; ".join(case["base"]))
    if isinstance(out, list):
        return Fail(out[0][0], out[0][1])
    problems, (E, C, RE, RC) = out
    n = len(types)
    ctx.count(n * n - 1)
    ctx.classes["slice2/types"] += n
    ctx.classes["slice2/pairs"] += n * n
    ctx.classes["slice2/triples"] += n * n * n
    ctx.classes["slice2/conformant-pairs"] += int(C.sum())
    ctx.note(key=canon(case["base"]), nontrivial=True, labels=["slice2"],
             sample={"base": case["base"], "types": n, "conformant_pairs": int(C.sum())})
    return pick(ctx, problems)


# ---- part universe2 --------------------------------------------------------------------------------

def gen_type(src, d):
    """A type of depth <= d; simplest choice first."""
    if d <= 0:
        return src.choice(R.SIMPLE)
    k = src.weighted([(3, "simple"), (2, "list"), (1, "range"), (3, "context"), (4, "function")])
    if k == "simple":
        return src.choice(R.SIMPLE)
    if k in ("list", "range"):
        return (k, gen_type(src, d - 1))
    if k == "context":
        names = src.choice([[], ["a"], ["b"], ["a", "b"]])
        return R.t_ctx([(nm, gen_type(src, d - 1)) for nm in names])
    ar = src.int(0, 2)
    return R.t_fn([gen_type(src, d - 1) for _ in range(ar)], gen_type(src, d - 1))


def rewrite(src, t, d):
    """A type related to t (depth budget d): some subterm replaced by Null / Any / a fresh type, an entry or parameter
    added or dropped."""
    k = R.kind(t)
    here = k == "simple" or src.bool(0.35)
    if here:
        how = src.weighted([(3, "Null"), (3, "Any"), (3, "fresh"), (2, "shape")])
        if how in ("Null", "Any"):
            return how
        if how == "fresh" or k in ("simple", "list", "range"):
            return gen_type(src, d)
        if k == "context":
            entries = dict(t[1])
            nm = src.choice(R.NAMES)
            if nm in entries and src.bool(0.5):
                del entries[nm]
            else:
                entries[nm] = gen_type(src, d - 1)
            return R.t_ctx(entries.items())
        params = list(t[1])
        if params and src.bool(0.5):
            params.pop(src.int(0, len(params) - 1))
        elif len(params) < 2:
            params.insert(src.int(0, len(params)), gen_type(src, d - 1))
        else:
            return R.t_fn(params, gen_type(src, d - 1))
        return R.t_fn(params, t[2])
    if k in ("list", "range"):
        return (k, rewrite(src, t[1], d - 1))
    if k == "context":
        if not t[1]:
            return R.t_ctx([(src.choice(R.NAMES), gen_type(src, d - 1))])
        i = src.int(0, len(t[1]) - 1)
        return R.t_ctx([(nm, rewrite(src, x, d - 1) if j == i else x) for j, (nm, x) in enumerate(t[1])])
    i = src.int(0, len(t[1]))
    if i == len(t[1]):
        return R.t_fn(t[1], rewrite(src, t[2], d - 1))
    return R.t_fn([rewrite(src, x, d - 1) if j == i else x for j, x in enumerate(t[1])], t[2])


def subterms(t, out):
    if t not in out:
        out.append(t)
    for _, x in components(t):
        subterms(x, out)


def gen_universe(src):
    members = []
    for _ in range(src.int(1, 3)):
        fam = [gen_type(src, 2)]
        for _ in range(src.int(1, 5)):
            fam.append(rewrite(src, src.choice(fam), 2))
        members.extend(fam)
    members.extend(["Null", "Any"])
    out = []
    for t in members:
        subterms(t, out)
    return {"types": out}


def types_of_case(case):
    return [R.from_case(t) for t in case["types"]]


def reqs_universe(case):
    return [{"op": "typematrix", "types": [R.to_driver(t) for t in types_of_case(case)]}]


def judge_universe(ctx, case, resp):
    types = types_of_case(case)
    out = judge_matrices(ctx, types, resp[0], "universe of %d types" % len(types))
    if isinstance(out, list):
        return Fail(out[0][0], out[0][1])
    problems, (E, C, RE, RC) = out
    n = len(types)
    off = ~np.eye(n, dtype=bool)
    related = int((C & off).sum())
    deep = sum(1 for t in types if R.depth(t) == 2)
    ctx.count(n * n - 1)
    labels = ["universe2", "universe2/related-pairs>=10" if related >= 10 else "universe2/related-pairs<10"]
    nt_chain = int((closed(C & off) & off).sum())
    if nt_chain:
        labels.append("universe2/has-chains")
    for s in sorted(set(shape_of(t)[0] for t in types if R.depth(t) == 2)):
        labels.append("universe2/depth2-" + s)
    ctx.classes["universe2/pairs"] += n * n
    ctx.classes["universe2/conformant-nonidentical-pairs"] += related
    ctx.classes["universe2/triples"] += n * n * n
    ctx.note(key=canon(case["types"]), nontrivial=deep > 0 and related > n, labels=labels,
             sample={"types": [R.show(t) for t in types[:6]], "n": n, "conformant_nonidentical_pairs": related})
    return pick(ctx, problems)


# ====================================================================================================
# coercion
# ====================================================================================================

SIMPLE_VALUES = {
    "Null": [None],
    "boolean": [True, False],
    "number": [{"n": "1"}, {"n": "2.5"}, {"n": "-3"}],
    "string": [{"s": "a"}, {"s": ""}],
    "date": [{"date": "2020-01-01"}],
    "time": [{"time": "10:00:00"}],
    "date and time": [{"dt": "2020-01-01T10:00:00"}],
    "days and time duration": [{"dtd": "P1D"}, {"dtd": "PT2H"}],
    "years and months duration": [{"ymd": "P1Y"}, {"ymd": "P2M"}],
}
VALUE_TYPES = [t for t in R.SIMPLE if t != "Any"]


def inhabit(src, t, typed_fn=True):
    """A value meant to inhabit t (its type_of conforms to t except where the list/range conventions decide otherwise —
    the oracle looks at type_of, not at this intention)."""
    k = R.kind(t)
    if k == "simple":
        if t == "Any":
            return gen_value(src, 1, typed_fn)
        return src.choice(SIMPLE_VALUES[t])
    if k == "list":
        n = src.weighted([(4, 1), (2, 2), (1, 0), (1, 3)])
        return {"l": [inhabit(src, t[1], typed_fn) for _ in range(n)]}
    if k == "range":
        et = t[1]
        if R.kind(et) != "simple" or et == "Any":
            lo, hi = gen_value(src, 0, typed_fn), gen_value(src, 0, typed_fn)
        else:
            lo, hi = inhabit(src, et, typed_fn), inhabit(src, et, typed_fn)
        return {"r": [lo, src.bool(0.5), hi, src.bool(0.5)]}
    if k == "context":
        entries = [[nm, inhabit(src, x, typed_fn)] for nm, x in t[1]]
        have = [nm for nm, _ in entries]
        extra = [nm for nm in R.NAMES if nm not in have]
        if extra and src.bool(0.25):
            entries.append([src.choice(extra), gen_value(src, 0, typed_fn)])
        return {"c": sorted(entries)}
    # function: parameters generalised or same (contravariant), result specialised or same
    params = [p if not src.bool(0.3) else "Any" for p in t[1]]
    res = t[2] if not src.bool(0.3) else "Null"
    if not typed_fn:
        res = "Any"
    return {"fn": {"params": list(params), "result": res}}


def gen_value(src, d, typed_fn=True):
    k = src.weighted([(6, "simple"), (3, "list"), (1, "range"), (2, "context"), (2, "fn")]) if d > 0 else "simple"
    if k == "simple":
        return src.choice(SIMPLE_VALUES[src.choice(VALUE_TYPES)])
    if k == "list":
        n = src.weighted([(4, 1), (2, 2), (1, 0), (1, 3)])
        if src.bool(0.7):
            t = gen_type(src, d - 1)
            return {"l": [inhabit(src, t, typed_fn) for _ in range(n)]}
        return {"l": [gen_value(src, d - 1, typed_fn) for _ in range(n)]}
    if k == "range":
        t = src.choice(["number", "string", "date", "Null"])
        lo = src.choice(SIMPLE_VALUES[t])
        hi = src.choice(SIMPLE_VALUES[t]) if not src.bool(0.2) else {"s": "z"}
        return {"r": [lo, src.bool(0.5), hi, src.bool(0.5)]}
    if k == "context":
        names = src.choice([[], ["a"], ["b"], ["a", "b"]])
        return {"c": [[nm, gen_value(src, d - 1, typed_fn)] for nm in names]}
    ar = src.int(0, 2)
    return {"fn": {"params": [gen_type(src, 1) for _ in range(ar)], "result": gen_type(src, 1) if typed_fn else "Any"}}


def generalise(src, t):
    """A type t conforms to (mostly): components widened to Any, context entries dropped."""
    k = R.kind(t)
    if k == "simple" or src.bool(0.2):
        return "Any" if src.bool(0.4) else t
    if k in ("list", "range"):
        return (k, generalise(src, t[1]))
    if k == "context":
        return R.t_ctx([(nm, generalise(src, x)) for nm, x in t[1] if not src.bool(0.25)])
    return R.t_fn([p if not src.bool(0.4) else "Null" for p in t[1]], generalise(src, t[2]))


def gen_coerce(src, typed_fn=True):
    if src.bool(0.5):
        # value first, target related to the value's type
        v = gen_value(src, 2, typed_fn)
        tv = R.type_of(v)
        item_t = R.type_of(v["l"][0]) if isinstance(v, dict) and "l" in v and len(v["l"]) == 1 else None
        how = src.weighted([(2, "same"), (3, "general"), (3, "list-of"), (3, "list-of-general"), (4, "item"), (2, "fresh"),
                            (2, "rewrite"), (1, "list-list")])
        if how == "same":
            t = tv
        elif how == "general":
            t = generalise(src, tv)
        elif how == "list-of":
            t = R.t_list(tv)
        elif how == "list-of-general":
            t = R.t_list(generalise(src, tv))
        elif how == "item":
            t = generalise(src, item_t) if item_t is not None else gen_type(src, 2)
        elif how == "fresh":
            t = gen_type(src, 2)
        elif how == "rewrite":
            t = rewrite(src, tv, 3)
        else:
            t = R.t_list(R.t_list(tv))
    else:
        # target first, value built from an inhabitant
        t = gen_type(src, 2)
        how = src.weighted([(3, "inhabitant"), (3, "wrapped"), (3, "item"), (2, "double-wrapped"), (1, "other")])
        if how == "inhabitant":
            v = inhabit(src, t, typed_fn)
        elif how == "wrapped":
            v = {"l": [inhabit(src, t, typed_fn)]}
        elif how == "item":
            v = inhabit(src, t[1], typed_fn) if R.kind(t) == "list" else inhabit(src, t, typed_fn)
        elif how == "double-wrapped":
            v = {"l": [{"l": [inhabit(src, t, typed_fn)]}]}
        else:
            v = gen_value(src, 2, typed_fn)
    return {"target": t, "value": v}


def reqs_coerce(case):
    t = R.from_case(case["target"])
    return [{"op": "c16", "types": [R.to_driver(t)], "queries": [["coerce", 0, R.to_driver_value(case["value"])]]}]


def value_labels(v):
    out = []
    if isinstance(v, dict) and "l" in v:
        out.append({0: "value/empty-list", 1: "value/singleton-list"}.get(len(v["l"]), "value/longer-list"))
        if len(v["l"]) > 1 and R.type_of(v) == R.t_list("Any"):
            out.append("value/heterogeneous-list")
    return out


def judge_coercion(ctx, part, target, v, got, twice, sut_input_type=None):
    """got / twice: wire values printed by the driver; the statement's clauses one by one."""
    tv = R.type_of(v)
    exp, rule = R.coerce(target, v)
    ambiguous = R.both_conversions_apply(target, v)
    g = R.wire(got)
    labels = [part + "/" + rule, part + "/target-" + R.kind(target)] + value_labels(v)
    if ambiguous:
        labels.append(part + "/both-conversions-apply(unspecified)")
    ctx.note(key=[part, R.show(target), canon(R.wire(v))], nontrivial=(tv != target and rule != "null") or
             (rule == "null" and R.kind(target) == R.kind(tv) != "simple"), labels=labels,
             sample={"target": R.show(target), "value": R.wire(v), "rule": rule, "result": g})
    what = "coercing %s (type %s) to %s" % (canon(R.wire(v)), R.show(tv), R.show(target))
    if sut_input_type is not None and sut_input_type != R.show(tv):
        return Fail("C16/type-of", "%s: the SUT's type_of says %s" % (what, sut_input_type))

    def diagnose(default):
        for dev, sig in ((DEV_NULLARY, SIG_NULLARY), (DEV_NOUNWRAP, SIG_NOUNWRAP)):
            dexp, _ = R.coerce(target, v, dev)
            if R.wire(dexp) == g and R.wire(dexp) != R.wire(exp):
                return sig
        return default

    # the result conforms to the target or is null
    if g is not None:
        try:
            tg = R.type_of(g)
        except (ValueError, R.TypeTextError) as e:
            return Fail("C16/result-unreadable", "%s: result %r: %s" % (what, got, e))
        if not R.conf(tg, target):
            return Fail(diagnose("C16/result-does-not-conform"), "%s yields %s whose type %s does not conform to the target" % (
                what, canon(g), R.show(tg)))
    # coercing twice changes nothing
    if R.wire(twice) != g:
        return Fail(diagnose("C16/not-idempotent"), "%s yields %s, coercing that again yields %s" % (what, canon(g), canon(R.wire(twice))))
    # the value itself / wrap / unwrap / null
    if ambiguous:
        ok = g in (R.wire({"l": [v]}), R.wire(v["l"][0]))
    else:
        ok = g == R.wire(exp)
    if not ok:
        return Fail(diagnose("C16/coercion-" + rule + "-expected"), "%s yields %s; the statement's rule '%s' gives %s" % (
            what, canon(g), rule, canon(R.wire(exp))))
    return None


def judge_coerce(ctx, case, resp):
    r = resp[0]
    if "answers" not in r:
        return Fail("C16/driver", "coerce request failed: %r" % (r,))
    a = r["answers"][0]
    target = R.from_case(case["target"])
    if a.get("target") != R.show(target):
        return Fail("C16/transport", "target %s arrived as %s" % (R.show(target), a.get("target")))
    if R.wire(a.get("input")) != R.wire(case["value"]):
        return Fail("C16/transport", "value %s arrived as %s" % (canon(R.wire(case["value"])), canon(a.get("input"))))
    return judge_coercion(ctx, "coerce", target, case["value"], a["value"], a["twice"], a["input_type"])


# ---- the same through a FEEL invocation ----------------------------------------------------------------

def has_empty_context_type(t):
    if R.kind(t) == "context" and not t[1]:
        return True
    return any(has_empty_context_type(x) for _, x in components(t))


def strip_empty_context(t):
    """`context<>` has no FEEL syntax: give it an entry."""
    k = R.kind(t)
    if k == "simple":
        return t
    if k in ("list", "range"):
        return (k, strip_empty_context(t[1]))
    if k == "context":
        return R.t_ctx([(nm, strip_empty_context(x)) for nm, x in t[1]] or [("a", "Any")])
    return R.t_fn([strip_empty_context(x) for x in t[1]], strip_empty_context(t[2]))


def feel_binding(v):
    """Case value -> binding json understood by the driver's scope reader (function values as FEEL literals)."""
    if isinstance(v, dict):
        if "fn" in v:
            ps = ", ".join("q%d: %s" % (9 - i, R.show(strip_empty_context(R.from_case(p)))) for i, p in enumerate(v["fn"]["params"]))
            return {"feel": "function(%s) null" % ps}
        if "l" in v:
            return {"l": [feel_binding(x) for x in v["l"]]}
        if "c" in v:
            return {"c": [[n, feel_binding(x)] for n, x in v["c"]]}
        if "r" in v:
            return {"r": [feel_binding(v["r"][0]), v["r"][1], feel_binding(v["r"][2]), v["r"][3]]}
    return v


def strip_value(v):
    if isinstance(v, dict):
        if "fn" in v:
            return {"fn": {"params": [strip_empty_context(R.from_case(p)) for p in v["fn"]["params"]], "result": "Any"}}
        if "l" in v:
            return {"l": [strip_value(x) for x in v["l"]]}
        if "c" in v:
            return {"c": [[n, strip_value(x)] for n, x in v["c"]]}
        if "r" in v:
            return {"r": [strip_value(v["r"][0]), v["r"][1], strip_value(v["r"][2]), v["r"][3]]}
    return v


def gen_invoke(src):
    c = gen_coerce(src, typed_fn=False)
    # half of the cases bind the argument by name: `f(p: v)` goes through the named dispatch, which coerces on its own
    # half of the cases have the parameter's name bound in the caller's scope as well (to a value of no generated type's kind): the parameter of
    # the invocation hides it whatever the coercion made of the argument
    return {"target": strip_empty_context(R.from_case(c["target"])), "value": strip_value(c["value"]), "named": src.bool(0.5), "outer": src.bool(0.5)}


def reqs_invoke(case):
    t = R.from_case(case["target"])
    arg = "p: " if case.get("named") else ""
    text = "(function(p: %s) p)(%sv)" % (R.show(t), arg)
    scope = [[["v", feel_binding(case["value"])]] + ([["p", {"dtd": "PT77H"}]] if case.get("outer") else [])]
    return [{"op": "eval", "scope": scope, "text": text, "repeat": 1},
            {"op": "eval", "scope": scope, "text": "(function(p: %s) p)(%s(function(p: %s) p)(%sv))" % (R.show(t), arg, R.show(t), arg)}]


def judge_invoke(ctx, case, resp):
    target = R.from_case(case["target"])
    for r in resp:
        if "values" not in r:
            return Fail("C16/invoke-failed", "invocation with parameter type %s failed: %r" % (R.show(target), r))
    return judge_coercion(ctx, "invoke", target, case["value"], resp[0]["values"][0], resp[1]["values"][0])


def gen_result(src):
    c = gen_coerce(src, typed_fn=True)
    return {"target": c["target"], "value": c["value"], "nparams": src.weighted([(3, 0), (3, 1), (2, 2)]), "named": src.bool(0.4)}


def reqs_result(case):
    t = R.from_case(case["target"])
    return [{"op": "c16", "types": [R.to_driver(t)],
             "queries": [["invoke-result", 0, R.to_driver_value(case["value"]), case["nparams"], case["named"]]]}]


def judge_result(ctx, case, resp):
    """the result of a function with a declared result type is coerced to that type, whatever the number of its parameters and however
    the arguments are given"""
    target = R.from_case(case["target"])
    r = resp[0]
    if "answers" not in r:
        return Fail("C16/invoke-failed", "invoking a function with %d parameters and result type %s failed: %r" % (case["nparams"], R.show(target), r))
    a = r["answers"][0]
    ctx.classes["result/params=%d/%s" % (case["nparams"], "named" if case["named"] else "positional")] += 1
    return judge_coercion(ctx, "result", target, case["value"], a["value"], a["twice"])


# ====================================================================================================

def setup(ctx):
    ctx.rule = ("u1: the 1261 types made of the ten simple types and one application of list / range / context (0..2 entries over "
                "a, b) / function (0..2 parameters): ALL ordered pairs compared with reference relations written from the statement, "
                "ALL ordered triples checked for transitivity by boolean matrix product on the SUT's matrices, plus reflexivity, Any top, "
                "Null bottom, equivalence laws, result-type law and one-level variance laws on the SUT's own answers (counted in "
                "enumerations and in u1_* fields, one note). slice2: the same for every type one constructor application above a base of 8 "
                "types of depth<=1 (3 fixed bases + seeded ones). universe2: generated families of related depth<=2 types closed under "
                "components (a type, rewrites with Null/Any/fresh subterms, added/dropped entries and parameters), same judge; "
                "non-trivial: contains depth-2 types and more conformant non-identical pairs than types. coerce/invoke: (target, value) with "
                "the target derived from the value's type (same, generalised, list of it, its item type, rewritten) or the value from the "
                "target (inhabitant, wrapped, item, double wrapped); non-trivial: the value's type differs from the target and a "
                "conversion applies, or null between two types of the same constructor; distinct by (target, value)")
    ctx.assumptions = ["the type of a value is the SUT's convention for lists and ranges (empty list: list<Null>, mixed items: list<Any>, "
                       "mixed end points: range<Any>); the statement only speaks of 'its type'",
                       "context conformance includes width (a context type conforms to one with fewer entries), DMN 1.3 10.3.2.9.2",
                       "numpy float32 matrix product counts paths exactly below 2^24"]
    ctx.p_u1 = ctx.register(Part("u1", None, reqs_u1, judge_u1))
    ctx.p_slice = ctx.register(Part("slice2", None, reqs_slice, judge_slice))
    ctx.p_universe = ctx.register(Part("universe2", gen_universe, reqs_universe, judge_universe))
    ctx.p_coerce = ctx.register(Part("coerce", gen_coerce, reqs_coerce, judge_coerce))
    ctx.p_invoke = ctx.register(Part("invoke", gen_invoke, reqs_invoke, judge_invoke))
    ctx.p_result = ctx.register(Part("result", gen_result, reqs_result, judge_result))
    # function values that only a model can make: knowledge models and decision services whose logic is a literal expression, a decision
    # table, a boxed context or an invocation, with a declared result type, invoked by name and from FEEL text. Generator, reference
    # (item definitions -> FEEL types -> the same coercion rules) and judge are C11's.
    from . import c11

    def judge_model_fn(ctx, case, resp):
        f = c11.judge_model(ctx, case, resp)
        if f is not None and f.sig.startswith("C11/"):
            f.sig = "C16/model-function/" + f.sig[4:]
        return f
    ctx.p_modelfn = ctx.register(Part("model-functions", c11.gen_depth(1), c11.reqs_model, judge_model_fn))


def run(ctx):
    if ctx.w == 0:
        n = len(u1_types())
        saved_W, ctx.W = ctx.W, 1
        try:
            ctx.enumerate(ctx.p_u1, [{"universe": "U1"}], name="whole universe U1 in one request", exhaustive=True)
        finally:
            ctx.W = saved_W
        if not ctx.stop():
            ctx.enumeration("U1 ordered pairs, both relations, against the reference", n * n, True)
            ctx.enumeration("U1 ordered triples, transitivity of both relations (boolean matrix product)", n * n * n, True)
    if ctx.stop():
        return
    ctx.enumerate(ctx.p_slice, slice_cases(ctx), batch=1, name="depth-2 slices: all pairs and triples of every constructor over an 8-type base")
    if ctx.stop():
        return
    ctx.forall(ctx.p_universe, ctx.scale(3000, 400000), batch=100)
    ctx.forall(ctx.p_coerce, ctx.scale(60000, 3000000))
    ctx.forall(ctx.p_invoke, ctx.scale(15000, 600000))
    ctx.forall(ctx.p_result, ctx.scale(15000, 600000))
    if not ctx.stop():
        ctx.forall(ctx.p_modelfn, ctx.scale(1500, 60000), batch=50)


if __name__ == "__main__":
    sys.exit(main(sys.modules[__name__]))
