"""C09 — three-valued logic, equality and ordering obey their laws on all values.

No external oracle: every law relates results the SUT itself produced inside one request (values bound by name, so the
operands never pass through the lexer):
  all values   : and/or follow the three-valued tables with every non-boolean operand counted as null;
                 (a = b) == (b = a);  (a != b) == not(a = b);  (a < b) == (b > a);  (a <= b) == (b >= a)
  one ordered kind (numbers, strings, dates): exactly one of a<b, a=b, a>b is true;  (a <= b) == (a<b or a=b);
                 x between a and b == x in [a..b] == (a<=x and x<=b); open interval ends == strict comparisons.
Exhaustive over ordered pairs of a value alphabet and over ordered triples of each ordered kind's sub-alphabet (mixed-kind and
unordered-kind triples are evaluated for totality only), plus random values of each ordered kind."""
import sys

from ..engine import Part, Fail, Inconclusive, main
from .. import dec

PROP = "C09"
ORDERED = ("number", "string", "date")          # the kinds the statement names for trichotomy / between / in
# the other kinds FEEL orders (the "dates" of the statement in the wide sense: times, date-times, durations). Two values of one of these
# kinds may be incomparable (a local time against one with an offset: the comparison is null), so the laws of an ordered kind are asserted
# for them only between results that ARE booleans: when <, = and > all answered, exactly one of them is true; <= is (< or =) in
# three-valued logic; between / in / conjunction agree when both conjuncts answered.
EXT_ORDERED = ("time", "dt", "dtd", "ymd")
EQ_COMPARABLE = ("boolean", "number", "string", "date", "time", "dt", "dtd", "ymd", "list", "context")

# (label, kind, binding)
ALPHABET = [
    ("null", "null", None),
    # nulls that carry a trace message: the value of a sub-expression that could not be evaluated (bound as such, or computed in place)
    ("null(traced)", "null", {"N": "could not be evaluated"}), ("1 > null (computed)", "null", {"feel": "1 > null"}),
    ("true", "boolean", True), ("false", "boolean", False),
    ("-1", "number", {"n": "-1"}), ("0", "number", {"n": "0"}), ("0.0", "number", {"n": "0.0"}), ("1", "number", {"n": "1"}),
    ("1.0", "number", {"n": "1.0"}), ("1.00", "number", {"n": "1.00"}), ("2", "number", {"n": "2"}), ("1E+30", "number", {"n": "1E+30"}),
    ('""', "string", {"s": ""}), ('"a"', "string", {"s": "a"}), ('"b"', "string", {"s": "b"}), ('"B"', "string", {"s": "B"}),
    ('"ä"', "string", {"s": "ä"}),
    ("2020-01-01", "date", {"date": "2020-01-01"}), ("2020-01-02", "date", {"date": "2020-01-02"}), ("1600-02-29", "date", {"date": "1600-02-29"}),
    ("262143-01-01", "date", {"date": "262143-01-01"}), ("999999999-12-31", "date", {"date": "999999999-12-31"}),
    ("-999999999-01-01", "date", {"date": "-999999999-01-01"}),
    ("10:00:00", "time", {"time": "10:00:00"}), ("10:00:00Z", "time", {"time": "10:00:00Z"}), ("11:00:00+01:00", "time", {"time": "11:00:00+01:00"}),
    ("23:59:59.999999999", "time", {"time": "23:59:59.999999999"}),
    ("2020-01-01T10:00:00", "dt", {"dt": "2020-01-01T10:00:00"}), ("2020-01-01T10:00:00Z", "dt", {"dt": "2020-01-01T10:00:00Z"}),
    ("2020-01-01T11:00:00+01:00", "dt", {"dt": "2020-01-01T11:00:00+01:00"}),
    ("2020-01-02T00:00:00+14:00", "dt", {"dt": "2020-01-02T00:00:00+14:00"}), ("2019-12-31T22:00:00-12:00", "dt", {"dt": "2019-12-31T22:00:00-12:00"}),
    ("P1D", "dtd", {"dtd": "P1D"}), ("PT24H", "dtd", {"dtd": "PT24H"}), ("P2D", "dtd", {"dtd": "P2D"}), ("-P1D", "dtd", {"dtd": "-P1D"}),
    ("P1Y", "ymd", {"ymd": "P1Y"}), ("P12M", "ymd", {"ymd": "P12M"}), ("P2Y", "ymd", {"ymd": "P2Y"}),
    ("[]", "list", {"l": []}), ("[1]", "list", {"l": [{"n": "1"}]}), ("[1,2]", "list", {"l": [{"n": "1"}, {"n": "2"}]}), ("[null]", "list", {"l": [None]}),
    ("{}", "context", {"c": []}), ("{a:1}", "context", {"c": [["a", {"n": "1"}]]}), ("{a:null}", "context", {"c": [["a", None]]}),
    ("[1..2]", "range", {"feel": "[1..2]"}), ("(1..2]", "range", {"feel": "(1..2]"}), ("[1..3]", "range", {"feel": "[1..3]"}),
    ("function(x) x", "function", {"feel": "function(x) x"}), ("abs (built-in)", "function", {"feel": "abs"}),
]

PAIR_OPS = ("and", "or", "=", "!=", "<", "<=", ">", ">=")
PAIR_TEXT = "[" + ", ".join("x %s y" % o for o in PAIR_OPS) + ", " + ", ".join("y %s x" % o for o in PAIR_OPS) + "]"
TRIPLE_FORMS = ("x between a and b", "x in [a..b]", "x in (a..b]", "x in [a..b)", "x in (a..b)",
                "a <= x and x <= b", "a < x and x <= b", "a <= x and x < b", "a < x and x < b",
                "a <= x", "a < x", "x <= b", "x < b")
TRIPLE_TEXT = "[" + ", ".join(TRIPLE_FORMS) + "]"


# ------------------------------------------------------------------------------------------------
# three-valued helpers
# ------------------------------------------------------------------------------------------------

def tv(kind, binding):
    return binding if kind == "boolean" else None


def and3(p, q):
    if p is False or q is False:
        return False
    if p is True and q is True:
        return True
    return None


def or3(p, q):
    if p is True or q is True:
        return True
    if p is False and q is False:
        return False
    return None


def not3(p):
    return None if p is None else (not p)


def norm(v):
    """wire value -> True | False | None; anything else is kept as ('other', v)."""
    if v is None or (isinstance(v, dict) and "N" in v):
        return None
    if isinstance(v, bool):
        return v
    return ("other", v)


def sh(v):
    return "null" if v is None else ("true" if v is True else ("false" if v is False else repr(v)[:80]))


def show_binding(b):
    if b is None:
        return "null"
    if isinstance(b, bool):
        return "true" if b else "false"
    for k in ("n", "date", "time", "dt", "dtd", "ymd", "feel"):
        if k in b:
            return b[k] if k in ("n", "feel") else '%s("%s")' % ({"date": "date", "time": "time", "dt": "date and time", "dtd": "duration", "ymd": "duration"}[k], b[k])
    if "s" in b:
        return '"%s"' % b["s"].encode("ascii", "backslashreplace").decode()
    if "l" in b:
        return "[" + ", ".join(show_binding(x) for x in b["l"]) + "]"
    if "c" in b:
        return "{" + ", ".join("%s: %s" % (k, show_binding(v)) for k, v in b["c"]) + "}"
    return repr(b)


def results(resp, n):
    """the list of n results of a request, or raises/returns a Fail."""
    if isinstance(resp, dict) and (resp.get("timeout") or "died" in resp):
        raise Inconclusive("driver %r" % resp)
    if "panic" in resp:
        return Fail("C09/panic", "panic: %s at %s" % (resp.get("panic"), resp.get("location")))
    if "error" in resp:
        raise Inconclusive("driver rejected the generated bindings: %s" % resp["error"])
    if "values" not in resp:
        return Fail("C09/not-evaluated", "the law expressions did not parse/evaluate: %r" % resp)
    v = resp["values"][0]
    if not (isinstance(v, dict) and "l" in v and len(v["l"]) == n):
        return Fail("C09/not-evaluated", "expected a list of %d results, got %r" % (n, v))
    return [norm(x) for x in v["l"]]


def far_date(binding):
    y = int(binding["date"].rsplit("-", 2)[0])
    return y >= 262143 or y <= -262144


# ------------------------------------------------------------------------------------------------
# pairs
# ------------------------------------------------------------------------------------------------

def reqs_pair(case):
    return [{"op": "eval", "text": PAIR_TEXT, "scope": [[["x", case["v"][0]], ["y", case["v"][1]]]]}]


def null_vs_nonnull_entry(cx, cy):
    """two context bindings that share a key whose value is null on exactly one side."""
    dx, dy = dict((k, v) for k, v in cx["c"]), dict((k, v) for k, v in cy["c"])
    return any(k in dy and ((dx[k] is None) != (dy[k] is None)) for k in dx)


def judge_pair(ctx, case, resp):
    (kx, ky), (bx, by) = case["k"], case["v"]
    r = results(resp[0], 16)
    if isinstance(r, Fail):
        return r
    fwd = dict(zip(PAIR_OPS, r[:8]))
    bwd = dict(zip(PAIR_OPS, r[8:]))
    sx, sy = show_binding(bx), show_binding(by)
    same_ordered = kx == ky and kx in ORDERED
    same_ext = kx == ky and kx in EXT_ORDERED
    labels = ["pair", "kinds:%s/%s" % (kx, ky) if kx <= ky else "kinds:%s/%s" % (ky, kx)]
    if same_ordered:
        labels.append("ordered-kind:" + kx)
        labels.append("order:" + ("=" if fwd["="] is True else "<" if fwd["<"] is True else ">" if fwd[">"] is True else "none"))
    elif same_ext:
        answered = all(isinstance(fwd[o], bool) for o in ("<", "=", ">"))
        labels.append("ext-ordered-kind:%s:%s" % (kx, ("=" if fwd["="] is True else "<" if fwd["<"] is True else ">" if fwd[">"] is True else "none") if answered else "incomparable"))
        if answered and fwd["="] is True and bx != by:
            labels.append("equal-value-different-spelling:" + kx)
    elif kx == ky:
        labels.append("same-unasserted-kind:" + kx)
    equal_diff_scale = kx == ky == "number" and fwd["="] is True and bx != by
    if equal_diff_scale:
        labels.append("equal-value-different-scale")
    nontrivial = kx != ky or kx == "null" or equal_diff_scale or (kx == ky and bx == by) or (same_ext and fwd["="] is True) or (kx in ("list", "context") and case.get("part") != "pairs" and len(sx) + len(sy) > 12)
    ctx.note(key=["pair", sx, sy], nontrivial=nontrivial, labels=labels,
             sample={"x": sx, "y": sy, "x?y": dict((o, sh(fwd[o])) for o in PAIR_OPS), "y?x": dict((o, sh(bwd[o])) for o in PAIR_OPS)})

    def fail(sig, law, detail):
        return Fail(sig, "%s violated for x = %s, y = %s: %s" % (law, sx, sy, detail))

    for o in PAIR_OPS:
        for d, name in ((fwd, "x %s y" % o), (bwd, "y %s x" % o)):
            if isinstance(d[o], tuple):
                return fail("C09/non-boolean-result", "boolean-or-null result", "%s = %s" % (name, sh(d[o])))
    # truth tables
    px, py = tv(kx, bx), tv(ky, by)
    for d, p, q, name in ((fwd, px, py, "x %s y"), (bwd, py, px, "y %s x")):
        if d["and"] is not and3(p, q):
            return fail("C09/and-table", "truth table of 'and' (non-boolean counts as null)", "%s = %s, table says %s" % (name % "and", sh(d["and"]), sh(and3(p, q))))
        if d["or"] is not or3(p, q):
            return fail("C09/or-table", "truth table of 'or' (non-boolean counts as null)", "%s = %s, table says %s" % (name % "or", sh(d["or"]), sh(or3(p, q))))
    # symmetry of equality
    if fwd["="] is not bwd["="]:
        sig = "C09/equality-asymmetric"
        nul, oth = (fwd, ky) if kx == "null" else (bwd, kx)
        if (kx == "null") != (ky == "null") and oth in EQ_COMPARABLE:
            other_dir = bwd if nul is fwd else fwd
            if nul["="] is None and other_dir["="] is False:
                sig = "C09/null-equality-asymmetric"
        elif kx == ky == "context" and null_vs_nonnull_entry(bx, by) and {fwd["="], bwd["="]} == {None, False}:
            sig = "C09/null-equality-asymmetric/context-entry"
        elif {fwd["="], bwd["="]} == {None, False} and "{" in sx and "{" in sy:
            # contexts (also nested in lists / contexts) one of which lacks a key of the other while a shared key holds values that can
            # not be compared: which of the two is met first depended on the order of the entries (repaired by eb06ea5)
            sig = "C09/equality-asymmetric/context-entry-order"
        return fail(sig, "(a = b) == (b = a)", "x = y is %s but y = x is %s" % (sh(fwd["="]), sh(bwd["="])))
    # != is the negation of =
    for d, name in ((fwd, "x ? y"), (bwd, "y ? x")):
        if d["!="] is not not3(d["="]):
            return fail("C09/ne-not-negation", "(a != b) == not(a = b)", "%s: = gives %s, != gives %s" % (name, sh(d["="]), sh(d["!="])))
    # mirror images
    if fwd["<"] is not bwd[">"] or fwd[">"] is not bwd["<"]:
        return fail("C09/lt-gt-mirror", "(a < b) == (b > a)", "x<y %s, y>x %s, x>y %s, y<x %s" % (sh(fwd["<"]), sh(bwd[">"]), sh(fwd[">"]), sh(bwd["<"])))
    if fwd["<="] is not bwd[">="] or fwd[">="] is not bwd["<="]:
        return fail("C09/le-ge-mirror", "(a <= b) == (b >= a)", "x<=y %s, y>=x %s, x>=y %s, y<=x %s" % (sh(fwd["<="]), sh(bwd[">="]), sh(fwd[">="]), sh(bwd["<="])))
    # one ordered kind
    if same_ordered:
        for d, name in ((fwd, "x?y"), (bwd, "y?x")):
            trio = (d["<"], d["="], d[">"])
            if sum(1 for t in trio if t is True) != 1 or any(t is None for t in trio):
                sig = "C09/trichotomy"
                if kx == "date" and (far_date(bx) or far_date(by)) and bx != by and trio == (False, False, False):
                    sig = "C09/date-order-outside-chrono-range"
                return fail(sig, "exactly one of a<b, a=b, a>b is true", "%s: < %s, = %s, > %s" % (name, sh(trio[0]), sh(trio[1]), sh(trio[2])))
            if d["<="] is not or3(d["<"], d["="]):
                return fail("C09/le-not-lt-or-eq", "(a <= b) == (a < b or a = b)", "%s: <= %s, < %s, = %s" % (name, sh(d["<="]), sh(d["<"]), sh(d["="])))
            if d[">="] is not or3(d[">"], d["="]):
                return fail("C09/ge-not-gt-or-eq", "(a >= b) == (a > b or a = b)", "%s: >= %s, > %s, = %s" % (name, sh(d[">="]), sh(d[">"]), sh(d["="])))
    if same_ext:
        for d, name in ((fwd, "x?y"), (bwd, "y?x")):
            trio = (d["<"], d["="], d[">"])
            if all(isinstance(t, bool) for t in trio) and sum(1 for t in trio if t) != 1:
                return fail("C09/trichotomy/" + kx, "exactly one of a<b, a=b, a>b is true (all three answered)", "%s: < %s, = %s, > %s" % (name, sh(trio[0]), sh(trio[1]), sh(trio[2])))
            if d["<="] is not or3(d["<"], d["="]):
                return fail("C09/le-not-lt-or-eq/" + kx, "(a <= b) == (a < b or a = b)", "%s: <= %s, < %s, = %s" % (name, sh(d["<="]), sh(d["<"]), sh(d["="])))
            if d[">="] is not or3(d[">"], d["="]):
                return fail("C09/ge-not-gt-or-eq/" + kx, "(a >= b) == (a > b or a = b)", "%s: >= %s, > %s, = %s" % (name, sh(d[">="]), sh(d[">"]), sh(d["="])))
    return None


# ------------------------------------------------------------------------------------------------
# triples
# ------------------------------------------------------------------------------------------------

def reqs_triple(case):
    bx, ba, bb = case["v"]
    return [{"op": "eval", "text": TRIPLE_TEXT, "scope": [[["x", bx], ["a", ba], ["b", bb]]]}]


def judge_triple(ctx, case, resp):
    kinds, (bx, ba, bb) = case["k"], case["v"]
    r = results(resp[0], len(TRIPLE_FORMS))
    if isinstance(r, Fail):
        return r
    d = dict(zip(TRIPLE_FORMS, r))
    sx, sa, sb = show_binding(bx), show_binding(ba), show_binding(bb)
    asserted = kinds[0] == kinds[1] == kinds[2] and kinds[0] in ORDERED
    ext = kinds[0] == kinds[1] == kinds[2] and kinds[0] in EXT_ORDERED
    on_bound = asserted and (bx == ba or bx == bb or d["a <= x"] is True and d["a < x"] is False or d["x <= b"] is True and d["x < b"] is False)
    labels = ["triple", ("triple-kind:" + kinds[0]) if asserted else ("triple-ext-kind:" + kinds[0]) if ext else ("triple-unasserted:" + ("same-kind:" + kinds[0] if len(set(kinds)) == 1 else "mixed"))]
    if asserted:
        labels.append("x-on-a-bound" if on_bound else ("x-inside" if d["x between a and b"] is True else "x-outside-or-empty"))
    ctx.note(key=["triple", sx, sa, sb], nontrivial=bool(on_bound) or not asserted, labels=labels,
             sample={"x": sx, "a": sa, "b": sb, "results": dict((f, sh(d[f])) for f in TRIPLE_FORMS[:9])})
    for f in TRIPLE_FORMS:
        if isinstance(d[f], tuple):
            return Fail("C09/non-boolean-result", "x = %s, a = %s, b = %s: %s = %s (neither boolean nor null)" % (sx, sa, sb, f, sh(d[f])))
    if not asserted and not ext:
        return None            # the statement speaks about values of one ordered kind only: evaluated, not compared

    def fail(law, detail, form):
        sig = "C09/between-in-conjunction/" + form
        if kinds[0] == "date" and any(far_date(v) for v in (bx, ba, bb)) and d[form] is None:
            sig = "C09/date-order-outside-chrono-range/between-in"
        return Fail(sig, "%s violated for x = %s, a = %s, b = %s: %s" % (law, sx, sa, sb, detail))

    pairs = (("x between a and b", "a <= x and x <= b", "a <= x", "x <= b"),
             ("x in [a..b]", "a <= x and x <= b", "a <= x", "x <= b"),
             ("x in (a..b]", "a < x and x <= b", "a < x", "x <= b"),
             ("x in [a..b)", "a <= x and x < b", "a <= x", "x < b"),
             ("x in (a..b)", "a < x and x < b", "a < x", "x < b"))
    for form, conj, left, right in pairs:
        if ext and not (isinstance(d[left], bool) and isinstance(d[right], bool)):
            continue           # incomparable operands (local against zoned): nothing is asserted
        if d[conj] is not and3(d[left], d[right]):
            return Fail("C09/and-table", "x = %s, a = %s, b = %s: %s = %s but %s = %s and %s = %s" % (
                sx, sa, sb, conj, sh(d[conj]), left, sh(d[left]), right, sh(d[right])))
        if d[form] is not d[conj]:
            return fail("%s == (%s)" % (form, conj), "%s = %s, %s = %s" % (form, sh(d[form]), conj, sh(d[conj])), form)
    return None


# ------------------------------------------------------------------------------------------------
# random values of each ordered kind
# ------------------------------------------------------------------------------------------------

CHARS = ["a", "b", "A", "B", "z", "0", " ", "\u00e4", "e", "\u00e9", "e\u0301", "\u00df", "\u0416", "\uffff", "\U0001F600", "\U00010000"]


def gen_number(src):
    return {"n": dec.sci(dec.gen_d128(src))}


def number_variant(src, b):
    """a value related to b: same value with another scale, a neighbour, the negation."""
    s, digits, e = dec.D(b["n"]).as_tuple()
    c = "".join(map(str, digits))
    how = src.weighted([(4, "scale"), (3, "neighbour"), (1, "negate"), (1, "same")])
    sign = "-" if s else ""
    if how == "scale":
        if c != "0" and len(c) < 34 and e > dec.ETINY:
            k = src.int(1, min(34 - len(c), e - dec.ETINY))
            return {"n": "%s%sE%+d" % (sign, c + "0" * k, e - k)}
        stripped = c.rstrip("0") or "0"
        if stripped == "0":
            return {"n": "0E%+d" % src.int(-5, 5)}
        e2 = e + len(c) - len(stripped)
        return {"n": "%s%sE%+d" % (sign, stripped, e2)} if e2 <= dec.ETOP else dict(b)
    if how == "neighbour":
        n = int(c) + src.choice([1, -1])
        if n < 0 or len(str(n)) > 34:
            n = int(c)
        return {"n": "%s%dE%+d" % (sign, n, e)}
    if how == "negate":
        return {"n": "%s%sE%+d" % ("" if s else "-", c, e)}
    return dict(b)


def gen_string(src):
    return {"s": "".join(src.choice(CHARS) for _ in range(src.int(0, 4)))}


def string_variant(src, b):
    s = b["s"]
    how = src.weighted([(3, "append"), (3, "prefix"), (2, "same"), (2, "case")])
    if how == "append":
        return {"s": s + src.choice(CHARS)}
    if how == "prefix":
        return {"s": s[: max(len(s) - 1, 0)]}
    if how == "case":
        return {"s": s.swapcase()}
    return dict(b)


MDAYS = [31, 28, 31, 30, 31, 30, 31, 31, 30, 31, 30, 31]


def fmt_date(y, m, d):
    return "%s%04d-%02d-%02d" % ("-" if y < 0 else "", abs(y), m, d)


def gen_date(src):
    y = src.weighted([(16, None), (1, "far+"), (1, "far-"), (2, "edge"), (1, "neg")])
    if y is None:
        y = src.int(1000, 9999)
    elif y == "far+":
        y = src.choice([262143, 262144, 999999999, src.int(262143, 999999999)])
    elif y == "far-":
        y = -src.choice([262144, 262145, 999999999, src.int(262144, 999999999)])
    elif y == "edge":
        y = src.choice([262142, -262143, 10000, 9999, 1000, 1677, 2262, 2263, 1676])
    else:
        y = -src.int(1000, 262143)
    m = src.int(1, 12)
    leap = y % 4 == 0 and (y % 100 != 0 or y % 400 == 0)
    last = 29 if (m == 2 and leap) else MDAYS[m - 1]
    d = src.weighted([(3, None), (1, 1), (1, last)])
    if d is None:
        d = src.int(1, last)
    return {"date": fmt_date(y, m, d)}


def date_variant(src, b):
    t = b["date"]
    y, m, d = t.rsplit("-", 2)
    y, m, d = int(y), int(m), int(d)
    how = src.weighted([(3, "day"), (2, "month"), (2, "year"), (2, "same"), (3, "next-day"), (2, "prev-day")])
    if how in ("next-day", "prev-day"):
        # the calendar neighbour, across the end of the month / year (31st -> 1st)
        leap = y % 4 == 0 and (y % 100 != 0 or y % 400 == 0)
        ml = lambda mm: 29 if (mm == 2 and leap) else MDAYS[mm - 1]
        if how == "next-day":
            d += 1
            if d > ml(m):
                d, m = 1, m + 1
                if m > 12:
                    m, y = 1, (y + 1 if y + 1 != 0 and abs(y + 1) <= 999999999 else y)
        else:
            d -= 1
            if d < 1:
                m -= 1
                if m < 1:
                    m, y = 12, (y - 1 if y - 1 != 0 and abs(y - 1) <= 999999999 else y)
                leap = y % 4 == 0 and (y % 100 != 0 or y % 400 == 0)
                d = ml(m)
    elif how == "day":
        d = d + 1 if d < 28 else d - 1
    elif how == "month":
        m = m + 1 if m < 12 else 11
        d = min(d, 28)
    elif how == "year":
        y2 = y + src.choice([1, -1])
        if abs(y2) < 1000 or abs(y2) > 999999999:
            y2 = y
        y = y2
        d = min(d, 28)
    return {"date": fmt_date(y, m, d)}


GEN = {"number": (gen_number, number_variant), "string": (gen_string, string_variant), "date": (gen_date, date_variant)}


def _date_key(b):
    y, m, d = b["date"].rsplit("-", 2)
    return (int(y), int(m), int(d))


SORT_KEY = {"number": lambda b: dec.D(b["n"]), "string": lambda b: b["s"], "date": _date_key}


def pool(src, kind, n):
    g, var = GEN[kind]
    out = [g(src)]
    while len(out) < n:
        out.append(var(src, src.choice(out)) if src.bool(0.6) else g(src))
    return out


# date-times around daylight-saving switches of named zones (local wall clock, the UTC instant, the same instant with a numeric
# offset): the universal laws (symmetry of =, != as negation, mirror images of < <= > >=) hold for them as for every value
DST_SWITCHES = [   # (zone, UTC instant of the switch as (y, m, d, h), standard offset hours, summer offset hours)
    ("Europe/Warsaw", (2021, 3, 28, 1), 1, 2), ("Europe/Warsaw", (2021, 10, 31, 1), 1, 2),
    ("America/New_York", (2021, 3, 14, 7), -5, -4), ("America/New_York", (2021, 11, 7, 6), -5, -4),
    ("Australia/Sydney", (2021, 4, 3, 16), 10, 11), ("Australia/Sydney", (2021, 10, 2, 16), 10, 11),
    ("Europe/London", (2020, 3, 29, 1), 0, 1), ("Europe/London", (2020, 10, 25, 1), 0, 1),
]


def _dt_text(src, zone, base, minutes, std, summer):
    import datetime
    t = datetime.datetime(*base) + datetime.timedelta(minutes=minutes)
    form = src.weighted([(4, "zone"), (3, "utc"), (2, "offset")])
    if form == "utc":
        return t.strftime("%Y-%m-%dT%H:%M:%S") + "Z"
    off = src.choice([std, summer])
    local = t + datetime.timedelta(hours=off)
    if form == "offset":
        return local.strftime("%Y-%m-%dT%H:%M:%S") + "%s%02d:00" % ("+" if off >= 0 else "-", abs(off))
    return local.strftime("%Y-%m-%dT%H:%M:%S") + "@" + zone


def gen_dst_pair(src):
    zone, base, std, summer = src.choice(DST_SWITCHES)
    a = _dt_text(src, zone, base, 10 * src.int(-18, 18), std, summer)
    b = _dt_text(src, zone, base, 10 * src.int(-18, 18), std, summer)
    return {"k": ["dt", "dt"], "v": [{"dt": a}, {"dt": b}]}


def gen_rand_pair(src):
    kind = src.choice(ORDERED)
    p = pool(src, kind, 2)
    return {"k": [kind, kind], "v": [p[0], p[1]]}


# ------------------------------------------------------------------------------------------------
# structured values: lists and contexts (nested) over leaves of every kind; the second value is often a near copy of the first
# ------------------------------------------------------------------------------------------------

LEAVES = [b for _, k, b in ALPHABET if not (isinstance(b, dict) and ("feel" in b or "l" in b or "c" in b))]
STRUCT_KEYS = ["a", "b", "c", "d", "e e"]


def gen_struct(src, depth, what=None):
    what = what or src.choice(["list", "context"])
    def item():
        if depth > 0 and src.bool(0.3):
            return gen_struct(src, depth - 1)
        return src.choice(LEAVES)
    if what == "list":
        return {"l": [item() for _ in range(src.int(0, 3))]}
    keys = src.sample(STRUCT_KEYS, src.int(0, 3))
    return {"c": [[k, item()] for k in sorted(keys)]}


def mutate_struct(src, v):
    """a copy of the structured value with one thing changed: a leaf of another kind / null, a key dropped, renamed or added, items swapped"""
    import copy
    w = copy.deepcopy(v)
    if "l" in w:
        items = w["l"]
        how = src.choice(["leaf", "swap", "drop", "add", "deep"])
        if how == "swap" and len(items) > 1:
            items[0], items[-1] = items[-1], items[0]
        elif how == "drop" and items:
            items.pop(src.int(0, len(items) - 1))
        elif how == "add":
            items.insert(src.int(0, len(items)), src.choice(LEAVES))
        elif how == "deep" and any(isinstance(x, dict) and ("l" in x or "c" in x) for x in items):
            i = [j for j, x in enumerate(items) if isinstance(x, dict) and ("l" in x or "c" in x)][0]
            items[i] = mutate_struct(src, items[i])
        elif items:
            items[src.int(0, len(items) - 1)] = src.choice(LEAVES)
        return w
    entries = w["c"]
    how = src.choice(["leaf", "rename", "drop", "add", "deep", "rename+leaf"])
    free = [k for k in STRUCT_KEYS if k not in [e[0] for e in entries]]
    if how in ("rename", "rename+leaf") and entries and free:
        entries[src.int(0, len(entries) - 1)][0] = src.choice(free)
        if how == "rename+leaf":
            entries[src.int(0, len(entries) - 1)][1] = src.choice(LEAVES)
    elif how == "drop" and entries:
        entries.pop(src.int(0, len(entries) - 1))
    elif how == "add" and free:
        entries.append([src.choice(free), src.choice(LEAVES)])
    elif how == "deep" and any(isinstance(e[1], dict) and ("l" in e[1] or "c" in e[1]) for e in entries):
        e = [e for e in entries if isinstance(e[1], dict) and ("l" in e[1] or "c" in e[1])][0]
        e[1] = mutate_struct(src, e[1])
    elif entries:
        entries[src.int(0, len(entries) - 1)][1] = src.choice(LEAVES)
    w["c"] = sorted(entries, key=lambda e: e[0])
    return w


def gen_struct_pair(src):
    what = src.choice(["list", "context", "context"])
    x = gen_struct(src, 2, what)
    if src.bool(0.7):
        y = mutate_struct(src, x)
        if src.bool(0.3):
            y = mutate_struct(src, y)
    else:
        y = gen_struct(src, 2, what if src.bool(0.8) else None)
    kx = "list" if "l" in x else "context"
    ky = "list" if "l" in y else "context"
    if src.bool(0.5):
        x, y, kx, ky = y, x, ky, kx
    return {"k": [kx, ky], "v": [x, y]}


def gen_rand_triple(src):
    kind = src.choice(ORDERED)
    p = pool(src, kind, 3)
    if src.bool(0.35):
        # generator-side ordering only to steer x between the bounds (the judge never uses it)
        a, x, b = sorted(p, key=SORT_KEY[kind])
        return {"k": [kind] * 3, "v": [x, a, b]}
    # x is one of the bounds in a good share of the cases
    x = src.weighted([(6, p[0]), (2, p[1]), (2, p[2])])
    a, b = p[1], p[2]
    if src.bool(0.25):
        a, b = b, a
    return {"k": [kind] * 3, "v": [x, a, b]}



# ------------------------------------------------------------------------------------------------
# random values of the other ordered kinds (times, date-times, durations): instants and lengths written in several ways
# ------------------------------------------------------------------------------------------------

import datetime as _dtm

OFFSETS = [0, 3600, -3600, 14 * 3600, -12 * 3600, -14 * 3600, 12 * 3600, 5 * 3600 + 1800, -(9 * 3600 + 1800), 14 * 3600 + 59 * 60 + 59, -(14 * 3600 + 59 * 60 + 59), 1, -1, 59, 45 * 60]
FIXED_ZONES = [("Etc/GMT+12", -12 * 3600), ("Pacific/Kiritimati", 14 * 3600), ("Asia/Tokyo", 9 * 3600), ("Asia/Kolkata", 5 * 3600 + 1800), ("UTC", 0), ("Etc/GMT-14", 14 * 3600)]
FRACTIONS = [0, 0, 0, 1, 999999999, 500000000, 1000, 123456789]


def _off_text(off):
    if off == 0:
        return "Z"
    a = abs(off)
    t = "%s%02d:%02d" % ("+" if off > 0 else "-", a // 3600, a % 3600 // 60)
    return t + (":%02d" % (a % 60) if a % 60 else "")


def _frac(ns):
    return ("." + ("%09d" % ns).rstrip("0")) if ns else ""


def _dt_render(src, secs, ns):
    """the instant `secs` seconds (+ ns) after 2000-01-01T00:00:00Z written with a numeric offset, Z, or a zone without clock changes."""
    how = src.weighted([(5, "offset"), (2, "zone"), (1, "z")])
    if how == "zone":
        zone, off = src.choice(FIXED_ZONES)
        tail = "@" + zone
    elif how == "z":
        off, tail = 0, "Z"
    else:
        off = src.choice(OFFSETS)
        tail = _off_text(off)
    local = _dtm.datetime(2000, 1, 1) + _dtm.timedelta(seconds=secs + off)
    return {"dt": local.strftime("%Y-%m-%dT%H:%M:%S") + _frac(ns) + tail}, secs, ns


def gen_dt_pool(src, n):
    """n date-times: new instants, and earlier instants again (written another way, or moved by a nanosecond / second / day)."""
    inst = []
    out = []
    while len(out) < n:
        if inst and src.bool(0.65):
            secs, ns = src.choice(inst)
            how = src.weighted([(5, "same"), (1, "ns"), (1, "sec"), (1, "day"), (1, "2days")])
            if how == "ns":
                ns = ns + 1 if ns < 999999999 else ns - 1
            elif how == "sec":
                secs += src.choice([1, -1])
            elif how == "day":
                secs += 86400 * src.choice([1, -1])
            elif how == "2days":
                secs += 2 * 86400 * src.choice([1, -1])
        else:
            # close to midnight UTC in a good share of the cases: then the written dates of one instant differ by up to two days
            day = src.int(-3000, 12000)
            sod = src.weighted([(2, None), (1, 0), (1, 86399), (1, 43200), (1, 36000), (1, 79200)])
            sod = src.int(0, 86399) if sod is None else sod
            secs, ns = day * 86400 + sod, src.choice(FRACTIONS)
        b, secs, ns = _dt_render(src, secs, ns)
        inst.append((secs, ns))
        out.append(b)
    return out


def gen_time_pool(src, n):
    inst = []
    out = []
    while len(out) < n:
        if inst and src.bool(0.6):
            sod, ns = src.choice(inst)
            if src.bool(0.3):
                sod = (sod + src.choice([1, -1])) % 86400
        else:
            sod, ns = src.weighted([(3, None), (1, 0), (1, 86399)]), src.choice(FRACTIONS)
            sod = src.int(0, 86399) if sod is None else sod
        inst.append((sod, ns))
        off = src.choice(OFFSETS)
        loc = (sod + off) % 86400
        out.append({"time": "%02d:%02d:%02d" % (loc // 3600, loc % 3600 // 60, loc % 60) + _frac(ns) + _off_text(off)})
    return out


def _dtd_text(src, total_ns):
    """a days-and-time duration of total_ns nanoseconds, its fields split in one of several valid ways."""
    sign = "-" if total_ns < 0 else ""
    t = abs(total_ns)
    ns, secs = t % 10 ** 9, t // 10 ** 9
    how = src.weighted([(3, "norm"), (2, "hours"), (2, "seconds"), (1, "minutes"), (1, "days-seconds")])
    fr = _frac(ns)
    if how == "seconds":
        return "%sPT%d%sS" % (sign, secs, fr)
    if how == "hours":
        return "%sPT%dH%dM%d%sS" % (sign, secs // 3600, secs % 3600 // 60, secs % 60, fr)
    if how == "minutes":
        return "%sPT%dM%d%sS" % (sign, secs // 60, secs % 60, fr)
    if how == "days-seconds":
        return "%sP%dDT%d%sS" % (sign, secs // 86400, secs % 86400, fr)
    d, h, m, sec = secs // 86400, secs % 86400 // 3600, secs % 3600 // 60, secs % 60
    txt = "P" + ("%dD" % d if d else "")
    tt = ("%dH" % h if h else "") + ("%dM" % m if m else "") + ("%d%sS" % (sec, fr) if (sec or ns) else "")
    if tt:
        txt += "T" + tt
    if txt == "P":
        txt = "PT0S"
    return sign + txt


def gen_dtd_pool(src, n):
    vals = []
    out = []
    while len(out) < n:
        if vals and src.bool(0.6):
            v = src.choice(vals)
            how = src.weighted([(4, "same"), (1, "ns"), (1, "neg"), (1, "sec")])
            v = v + src.choice([1, -1]) if how == "ns" else -v if how == "neg" else v + 10 ** 9 * src.choice([1, -1]) if how == "sec" else v
        else:
            unit = src.choice([1, 10 ** 9, 60 * 10 ** 9, 3600 * 10 ** 9, 86400 * 10 ** 9])
            v = src.int(-400, 400) * unit + src.choice([0, 0, 1, -1, 500000000])
        vals.append(v)
        out.append({"dtd": _dtd_text(src, v)})
    return out


def gen_ymd_pool(src, n):
    vals = []
    out = []
    while len(out) < n:
        if vals and src.bool(0.6):
            v = src.choice(vals)
            v = src.weighted([(4, v), (1, v + 1), (1, v - 1), (1, -v), (1, v + 12)])
        else:
            v = src.weighted([(3, None), (1, 0), (1, 12), (1, 11)])
            v = src.int(-3000, 3000) if v is None else v
        vals.append(v)
        sign, a = ("-" if v < 0 else ""), abs(v)
        how = src.weighted([(3, "norm"), (2, "months"), (1, "both")])
        if how == "months":
            t = "P%dM" % a
        elif how == "both":
            t = "P%dY%dM" % (a // 12, a % 12)
        else:
            t = "P" + ("%dY" % (a // 12) if a // 12 else "") + ("%dM" % (a % 12) if a % 12 or not a // 12 else "")
        out.append({"ymd": sign + t})
    return out


EXT_POOL = {"dt": gen_dt_pool, "time": gen_time_pool, "dtd": gen_dtd_pool, "ymd": gen_ymd_pool}


def gen_ext_pair(src):
    kind = src.choice(EXT_ORDERED)
    p = EXT_POOL[kind](src, 2)
    return {"k": [kind, kind], "v": [p[0], p[1]]}


def gen_ext_triple(src):
    kind = src.choice(EXT_ORDERED)
    p = EXT_POOL[kind](src, 3)
    x = src.weighted([(6, p[0]), (2, p[1]), (2, p[2])])
    return {"k": [kind] * 3, "v": [x, p[1], p[2]]}

# ------------------------------------------------------------------------------------------------
# enumerations
# ------------------------------------------------------------------------------------------------

def all_pairs():
    for lx, kx, bx in ALPHABET:
        for ly, ky, by in ALPHABET:
            yield {"k": [kx, ky], "v": [bx, by]}


def kind_triples(kind):
    sub = [(k, b) for _, k, b in ALPHABET if k == kind]
    for kx, bx in sub:
        for ka, ba in sub:
            for kb, bb in sub:
                yield {"k": [kx, ka, kb], "v": [bx, ba, bb]}


MIXED = ["null", "true", "0", "1", "1.0", '"a"', "2020-01-01", "10:00:00Z", "2020-01-01T10:00:00Z", "P1D", "P1Y", "[1]", "{a:1}", "[1..2]", "function(x) x"]


def mixed_triples():
    sub = [(k, b) for l, k, b in ALPHABET if l in MIXED]
    assert len(sub) == len(MIXED)
    for kx, bx in sub:
        for ka, ba in sub:
            for kb, bb in sub:
                if kx == ka == kb and kx in ORDERED:
                    continue            # covered (and asserted) by kind_triples
                yield {"k": [kx, ka, kb], "v": [bx, ba, bb]}


def setup(ctx):
    ctx.rule = ("cases: ordered pairs (x, y) and triples (x, a, b) of values bound by name; one request evaluates every operator in both directions "
                "(pairs: and, or, =, !=, <, <=, >, >=; triples: between, the four interval forms, the four conjunctions and their parts) and the laws of "
                "the statement are checked between those observed results. Exhaustive: all ordered pairs of a %d-value alphabet (null, booleans, numbers "
                "incl. equal values of different scale, strings, dates incl. years outside chrono's range, times, date-times, both durations, lists, "
                "contexts, ranges, functions), all ordered triples of each ordered kind's sub-alphabet and of every other kind's sub-alphabet, a %d-value "
                "mixed alphabet's triples (not of one ordered kind: evaluated, not compared). Random: pools of related numbers (same value/other scale, "
                "neighbours), strings, dates. non-trivial: pair of different kinds, or containing null, or equal-value/different-scale, or identical "
                "operands; triple with x on a bound, or not of one ordered kind; distinct by (law family, operands)" % (len(ALPHABET), len(MIXED)))
    ctx.assumptions = ["trichotomy, <= == (< or =) and the between/in/conjunction agreement are asserted unconditionally for numbers, strings and dates, "
                       "as the statement names them; for times, date-times and durations (ordered kinds of FEEL whose values can be incomparable: local "
                       "against zoned) the same laws are asserted between the comparison results that are booleans (parts ext-pairs, ext-triples: one "
                       "instant / length written with several offsets, zones without clock changes, field splits)",
                       "local times (no offset) are compared by the SUT with the machine's offset; both sides of a law see the same offset"]
    ctx.p_pair = ctx.register(Part("pairs", None, reqs_pair, judge_pair))
    ctx.p_triple = ctx.register(Part("triples", None, reqs_triple, judge_triple))
    ctx.p_rpair = ctx.register(Part("random-pairs", gen_rand_pair, reqs_pair, judge_pair))
    ctx.p_rtriple = ctx.register(Part("random-triples", gen_rand_triple, reqs_triple, judge_triple))
    ctx.p_struct = ctx.register(Part("struct-pairs", gen_struct_pair, reqs_pair, judge_pair))
    ctx.p_dst = ctx.register(Part("dst-pairs", gen_dst_pair, reqs_pair, judge_pair))
    ctx.p_xpair = ctx.register(Part("ext-pairs", gen_ext_pair, reqs_pair, judge_pair))
    ctx.p_xtriple = ctx.register(Part("ext-triples", gen_ext_triple, reqs_triple, judge_triple))


def run(ctx):
    ctx.enumerate(ctx.p_pair, all_pairs(), name="all ordered pairs of the %d-value alphabet x 8 operators x both directions" % len(ALPHABET), exhaustive=True)
    for kind in ("number", "string", "date", "time", "dt", "dtd", "ymd", "boolean", "list", "context", "range"):
        ctx.enumerate(ctx.p_triple, kind_triples(kind), name="all ordered triples of the %s sub-alphabet" % kind, exhaustive=True)
    ctx.enumerate(ctx.p_triple, mixed_triples(), name="all ordered triples of the %d-value mixed alphabet (not of one ordered kind)" % len(MIXED), exhaustive=True)
    ctx.forall(ctx.p_rpair, ctx.scale(50000, 6000000), batch=400)
    ctx.forall(ctx.p_rtriple, ctx.scale(50000, 6000000), batch=400)
    ctx.forall(ctx.p_struct, ctx.scale(40000, 4000000), batch=400)
    ctx.forall(ctx.p_dst, ctx.scale(12000, 1200000), batch=400)
    ctx.forall(ctx.p_xpair, ctx.scale(40000, 4000000), batch=400)
    ctx.forall(ctx.p_xtriple, ctx.scale(20000, 2000000), batch=400)


if __name__ == "__main__":
    sys.exit(main(sys.modules[__name__]))
