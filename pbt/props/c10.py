"""C10 — names with spaces and symbols resolve to their bound value (longest match)."""
import sys
from decimal import Decimal

from ..engine import Part, Fail, main, h
from .. import val
from ..oracles import feel as F

PROP = "C10"
QUICK_WORKERS = 4

WORDS = ["a", "b", "c", "d", "e", "ab", "ba", "x1", "foo", "bar", "baz", "qux", "été", "über", "αβ", "γ",
         "中", "文字", "naïve", "_u", "w2w", "Zed", "k9", "да",
         # words that are also names of built-in functions or types (none is a keyword or a literal): bound, they are ordinary names
         "date", "time", "duration", "number", "string", "count", "sum", "min", "abs", "years", "before"]
# parts of a name after the first may begin with a digit (`tier 2 rate`, `route 66`, `covid-19 cases`)
DIGIT_WORDS = ["2", "66", "9x", "19", "007"]
SYMS = [".", "/", "-", "'", "+", "*"]
PRIMES = [2, 3, 5, 7, 11, 13, 17, 19, 23, 29, 31, 37, 41, 43, 47, 53, 59, 61, 67, 71, 73, 79, 83, 89, 97, 101, 103, 107, 109, 113]


def nf(tokens):
    """normal form of a name given as alternating words and symbols"""
    out = ""
    prev_sym = True
    for t in tokens:
        if t in SYMS:
            out += t
            prev_sym = True
        else:
            if not prev_sym:
                out += " "
            out += t
            prev_sym = False
    return out


def spell(src, tokens):
    """a spelling of the name: 1..3 blanks between words, optional blanks around symbols"""
    out = ""
    for i, t in enumerate(tokens):
        if i > 0:
            if t in SYMS or tokens[i - 1] in SYMS:
                out += " " * src.weighted([(3, 0), (2, 1), (1, 2)])
            else:
                out += " " * src.weighted([(4, 1), (1, 2), (1, 3)])
        out += t
    return out


# FEEL grammar rules 28 / 29: the ranges of name start characters (beyond ASCII) and of the additional name part characters.
# U+1680, U+180E and U+FEFF lie inside these ranges and are white space as well (DESIGN 9.7): left out.
START_RANGES = [(0xC0, 0xD6), (0xD8, 0xF6), (0xF8, 0x2FF), (0x370, 0x37D), (0x37F, 0x1FFF), (0x200C, 0x200D), (0x2070, 0x218F),
                (0x2C00, 0x2FEF), (0x3001, 0xD7FF), (0xF900, 0xFDCF), (0xFDF0, 0xFFFD), (0x10000, 0xEFFFF)]
PART_RANGES = [(0x30, 0x39), (0xB7, 0xB7), (0x300, 0x36F), (0x203F, 0x2040)]
BOTH_WS_AND_NAME = {0x1680, 0x180E, 0xFEFF}


def range_char(src, ranges):
    """a code point of one of the ranges: an end of the range, next to an end, a power-of-256 boundary inside it, or anywhere"""
    lo, hi = src.choice(ranges)
    how = src.weighted([(2, "lo"), (2, "hi"), (1, "lo+1"), (1, "hi-1"), (2, "page"), (3, "any")])
    if how == "lo":
        c = lo
    elif how == "hi":
        c = hi
    elif how == "lo+1":
        c = min(lo + 1, hi)
    elif how == "hi-1":
        c = max(hi - 1, lo)
    elif how == "page":
        c = src.int(lo, hi)
        c = max(lo, min(hi, (c & ~0xFF) - src.int(0, 1)))      # ..FF / ..00 inside the range
    else:
        c = src.int(lo, hi)
    while c in BOTH_WS_AND_NAME:
        c += 1
    return c


def range_word(src):
    """a word of 1..3 characters drawn from the whole alphabet of name characters (first: a name start character)"""
    w = chr(range_char(src, START_RANGES))
    for _ in range(src.int(0, 2)):
        w += chr(range_char(src, START_RANGES if src.bool(0.6) else PART_RANGES))
    return w


def gen_names(src):
    """a set of bound names containing prefix families and operator-joined combinations"""
    words = src.sample(WORDS, 6)
    if src.bool(0.3):
        for _ in range(src.int(1, 2)):
            w = range_word(src)
            if w not in words:
                words[src.int(0, 5)] = w
    w = words
    fam = []
    fam.append([w[0]])
    fam.append([w[1]])
    fam.append([w[0], w[1]])                       # prefix family a, a b, a b c
    if src.bool(0.6):
        fam.append([w[0], w[1], w[2]])
    sym = src.choice(["-", "+", "*", "/", "'"])
    fam.append([w[0], sym, w[1]])                   # a-b next to a and b
    if src.bool(0.5):
        sym2 = src.choice(SYMS)
        fam.append([w[2], sym2, w[3]])               # combination whose parts may or may not be bound
        if src.bool(0.5):
            fam.append([w[2]])
        if src.bool(0.5):
            fam.append([w[3]])
    if src.bool(0.5):
        fam.append([w[3], w[4], src.choice(SYMS), w[5]])
    if src.bool(0.5):
        fam.append([w[4], w[5]])
    fam.append([w[5]] if src.bool(0.5) else [w[4]])
    if src.bool(0.5):
        dw = src.choice(DIGIT_WORDS)
        fam.append([w[0], dw])
        if src.bool(0.5):
            fam.append([w[0], dw, w[1]])
        if src.bool(0.4):
            fam.append([w[2], src.choice(["-", "/", "'"]), src.choice(DIGIT_WORDS)])
    # unique by normal form
    seen, names = set(), []
    for t in fam:
        if nf(t) not in seen:
            seen.add(nf(t))
            names.append(t)
    return words, names


def glue(tokens_a, op, tokens_b, bound):
    """longest bound name starting at A in the run `A op B` (op in SYMS): 'A' | 'ALL' | ('partial', n)"""
    run = list(tokens_a) + [op] + list(tokens_b)
    for n in range(len(run), 0, -1):
        if run[n - 1] in SYMS and n != len(run):
            # a name may end with a symbol only if bound so; normal form keeps it
            pass
        if nf(run[:n]) in bound and not (n < len(run) and False):
            if n == len(tokens_a):
                return "A"
            if n == len(run):
                return "ALL"
            return ("partial", n)
    return "A"


def longest_prefix(run, bound):
    """number of tokens of the longest prefix of the run whose normal form is bound (0 = none)"""
    for n in range(len(run), 0, -1):
        if run[n - 1] not in SYMS and nf(run[:n]) in bound:
            return n
    return 0


D = Decimal
BYSTANDER_VALUES = [("{}", {}), ("[]", []), ("[{}]", [{}]), ("null", None), ('"net"', "net"), ("true", True), ("[1, 2]", [D(1), D(2)]),
                    ("{qq1: 1}", {"qq1": D(1)}), ("{qq1: {}, qq2: 2}", {"qq1": {}, "qq2": D(2)}),
                    ("[{qq1: 1}, {qq2: {}}]", [{"qq1": D(1)}, {"qq2": {}}]), ("{qq1: {qq2: {}}}", {"qq1": {"qq2": {}}}),
                    ("{qq1: []}", {"qq1": []}), ("[[]]", [[]]), ("false", False)]
BYSTANDERS = [t for t, _ in BYSTANDER_VALUES]


class T:
    """template builder: produces text, reference AST and labels"""

    def __init__(self, src, words, names, values):
        self.src, self.words, self.names, self.values = src, words, names, values
        self.bound = {nf(t) for t in names}
        self.labels = []
        self.partial = False
        self.uses_family = False

    def pick(self, numeric=True):
        c = [t for t in self.names if isinstance(self.values[nf(t)], int)] if numeric else self.names
        t = self.src.choice(c)
        if len(t) > 1 or any(nf(o).startswith(nf(t) + " ") or nf(o).startswith(nf(t)) and nf(o) != nf(t) for o in self.names):
            self.uses_family = True
        return t

    def name(self, t):
        return spell(self.src, t), ["name", nf(t)]

    def has_bound_prefix(self, toks, extra=()):
        """some proper prefix (at token granularity) of the name is itself a bound name (or an earlier declared local one)"""
        return any(nf(toks[:n]) in self.bound or nf(toks[:n]) in extra for n in range(1, len(toks)) if toks[n - 1] not in SYMS)

    def local(self, extra=(), decl=False):
        """a new name for a context key / parameter / iteration variable / extra binding (1..3 words, maybe a symbol); never equal
        to a bound one. decl=True: the name is *declared* in the text (context key, parameter): when a prefix of it is bound the
        declaration itself is lexed against the scope, which the statement does not cover -> labelled, not asserted."""
        for _ in range(20):
            n = self.src.weighted([(3, 1), (4, 2), (2, 3)])
            toks = []
            for i in range(n):
                if i > 0 and self.src.bool(0.2):
                    toks.append(self.src.choice(["-", "+", "*", "/", "'"]))
                # (declared names avoid date / time / duration: unbound, these three words are tokens of their own for the lexer -- temporal
                # function names -- so a parameter or an entry followed by a path with such a name is a syntax matter, not name resolution)
                toks.append(self.src.choice(DIGIT_WORDS) if i > 0 and self.src.bool(0.12) else
                            self.src.choice([w for w in self.words if w not in ("date", "time", "duration")] + ["zz", "yy", "vv"]))
            if nf(toks) not in self.bound and nf(toks) not in extra:
                if decl and self.has_bound_prefix(toks, extra):
                    self.labels.append("declaration-with-bound-prefix")
                    self.partial = True
                return toks
        return ["zz", "yy", "vv"]

    def binop(self, env=frozenset(), ops=("+", "-", "*", "/", "<", "<=", ">", ">=", "=", "!=")):
        s = self.src
        a, b = self.pick(), self.pick()
        op = s.choice(list(ops))
        ta, na = self.name(a)
        tb, nb = self.name(b)
        sp1, sp2 = " " * s.weighted([(3, 1), (3, 0), (1, 2)]), " " * s.weighted([(3, 1), (3, 0), (1, 2)])
        text = ta + sp1 + op + sp2 + tb
        self.labels.append("binop:" + op)
        node = ["arith", op, na, nb] if op in "+-*/" else ["cmp", op, na, nb]
        if op in SYMS:
            g = glue(a, op, b, self.bound | set(env))
            if g == "ALL":
                self.labels.append("glued")
                self.uses_family = True
                node = ["name", nf(a + [op] + b)]
            elif g != "A":
                self.labels.append("partial-glue")
                self.partial = True
        return text, node

    def paren_binop(self):
        a, b = self.pick(), self.pick()
        op = self.src.choice(["+", "-", "*", "/"])
        ta, na = self.name(a)
        tb, nb = self.name(b)
        self.labels.append("paren-binop")
        return "(%s)%s(%s)" % (ta, op, tb), ["arith", op, na, nb]

    def operand(self):
        """a numeric operand: name alone (glue-safe: the caller parenthesises it)"""
        t, n = self.name(self.pick())
        return "(" + t + ")", n


def gen_case(src):
    words, names = gen_names(src)
    values = {}
    primes = list(PRIMES)
    bindings = []
    ctx_name = None
    for i, t in enumerate(names):
        values[nf(t)] = primes[i]
    # optionally: first single-word name is bound to a context that has an entry named like another word (a.b vs name `a.b`)
    kind = src.weighted([(3, "alone"), (5, "binop"), (2, "paren"), (2, "if"), (3, "for"), (2, "quant"), (3, "ctx"), (2, "fn"), (2, "args"),
                         (2, "between"), (2, "in"), (2, "filter-index"), (2, "filter-ctx"), (3, "path-head"), (1, "path-chain"), (2, "call"), (5, "glue-probe"), (3, "bound-ctx"), (4, "after-scope"), (3, "nested-entry"), (3, "endpoint-shadow")])
    tb = T(src, words, names, values)
    extra_bind = []
    # bystanders: further bound names the expression never mentions, holding values of other shapes (empty / nested contexts, lists of
    # contexts, null, text). They are bound names like any other (the glue oracle sees them); their inner keys are unique words.
    if src.bool(0.35):
        for _ in range(src.weighted([(3, 1), (2, 2), (1, 3)])):
            bn = tb.local()
            tb.bound.add(nf(bn))
            extra_bind.append([nf(bn), {"feel": src.choice(BYSTANDERS)}])
            tb.labels.append("bystander")
    if kind == "alone":
        t = src.choice(names)
        text, node = tb.name(t)
        if len(t) > 1:
            tb.uses_family = True
    elif kind == "binop":
        text, node = tb.binop()
    elif kind == "glue-probe":
        # x sym y written with and without blanks: one name when `x sym y` is bound, an operation on x and y otherwise
        combos = [t for t in names if len(t) == 3 and t[1] in SYMS]
        t = src.choice(combos) if combos and src.bool(0.7) else None
        if t is None:
            singles = [t for t in names if len(t) == 1]
            a, b = src.choice(singles), src.choice(singles)
            t = a + [src.choice(["-", "+", "*", "/"])] + b
        text = spell(src, t)
        tb.uses_family = True
        if nf(t) in tb.bound:
            node = ["name", nf(t)]
            tb.labels.append("glue-probe:bound-combination")
        else:
            g = glue([t[0]], t[1], [t[2]], tb.bound)
            if g == "A" and nf([t[2]]) in tb.bound and nf([t[0]]) in tb.bound and t[1] in "+-*/":
                node = ["arith", t[1], ["name", t[0]], ["name", t[2]]]
                tb.labels.append("glue-probe:operation")
            else:
                node = ["null"]
                tb.partial = True
                tb.labels.append("glue-probe:other")
        if src.bool(0.5):
            (t3, n3) = tb.name(tb.pick())
            text = "(%s) + (%s)" % (text, t3)
            node = ["arith", "+", node, n3]
    elif kind == "paren":
        text, node = tb.paren_binop()
    elif kind == "if":
        c, cn = tb.binop(ops=("<", "<=", ">", ">=", "=", "!="))     # (no retry loop: a shrunk choice sequence must terminate)
        (t1, n1), (t2, n2) = tb.name(tb.pick()), tb.name(tb.pick())
        text, node = "if %s then %s else %s" % (c, t1, t2), ["if", cn, n1, n2]
        tb.labels.append("if")
    elif kind in ("for", "quant"):
        v = tb.local()
        (t1, n1), (t2, n2), (t3, n3) = tb.name(tb.pick()), tb.name(tb.pick()), tb.name(tb.pick())
        vt = spell(src, v)
        follow = src.choice(["+", "*", ">", "="]) if kind == "for" else src.choice([">", "<", "=", "!="])
        body_a = spell(src, v)
        body_text = "%s %s (%s)" % (body_a, follow, t3)
        body_node = ["arith", follow, ["name", nf(v)], n3] if follow in "+*" else ["cmp", follow, ["name", nf(v)], n3]
        inner = src.weighted([(6, None), (2, "ctx"), (1, "for"), (1, "fn"), (1, "quant")])
        if inner is not None:
            # the variable is used inside ANOTHER construct that opens a scope of its own, nested in the one that introduces it
            tb.labels.append("local-name-inside-nested-" + inner)
            if inner == "ctx":
                body_text, body_node = "{w9: %s}.w9" % body_text, ["path", ["ctx", [["w9", body_node]]], "w9"]
            elif inner == "for":
                body_text, body_node = "(for u9 in [1] return %s)[1]" % body_text, ["filter", ["for", [["u9", ["dl", ["list", [["num", "1"]]]]]], body_node], ["idx", ["num", "1"]]]
            elif inner == "fn":
                body_text, body_node = "(function(q9) %s)(0)" % body_text, ["call", ["fn", [["q9", None]], body_node], [["num", "0"]]]
            elif kind == "quant" or follow not in "+*":
                body_text, body_node = "some u9 in [1] satisfies %s" % body_text, ["some", [["u9", ["list", [["num", "1"]]]]], body_node]
            else:
                tb.labels.pop()
        if kind == "for":
            text = "for %s in [%s, %s] return %s" % (vt, t1, t2, body_text)
            node = ["for", [[nf(v), ["dl", ["list", [n1, n2]]]]], body_node]
        else:
            q = src.choice(["some", "every"])
            text = "%s %s in [%s, %s] satisfies %s" % (q, vt, t1, t2, body_text)
            node = [q, [[nf(v), ["list", [n1, n2]]]], body_node]
        tb.labels.append(kind + ":multiword-var" if len(v) > 1 else kind)
        if len(v) > 1:
            tb.uses_family = True
    elif kind == "after-scope":
        # a name introduced by for / some / every / a function parameter / a context entry is known only INSIDE that construct: the same
        # spelling used after it means what it meant before (the outer binding, or an operation on two bound names)
        singles = [t for t in names if len(t) == 1]
        (t1, n1), (t2, n2), (t3, n3) = tb.name(tb.pick()), tb.name(tb.pick()), tb.name(tb.pick())
        if src.bool(0.5) or len(singles) < 2:
            v = src.choice([t for t in names if isinstance(values[nf(t)], int)])
            after_node = ["name", nf(v)]
            tb.labels.append("after-scope:shadowed-binding")
        else:
            a, b = src.choice(singles), src.choice(singles)
            op = src.choice(["-", "+", "*", "/"])
            v = a + [op] + b
            if nf(v) in tb.bound or glue(a, op, b, tb.bound) != "A":
                v = src.choice([t for t in names if isinstance(values[nf(t)], int)])
                after_node = ["name", nf(v)]
                tb.labels.append("after-scope:shadowed-binding")
            else:
                after_node = ["arith", op, ["name", nf(a)], ["name", nf(b)]]
                tb.labels.append("after-scope:operation-again")
        tight = nf(v)               # the normal form: one blank between words, none around symbols
        vt = tight if src.bool(0.6) else spell(src, v)
        # an operator-joined spelling can only be declared where the grammar expects a new name (iteration variables)
        form = src.choice(["every", "some", "for", "fn", "ctx"] if after_node[0] == "name" else ["every", "some", "for"])
        if form in ("every", "some"):
            inner = "%s %s in [%s, %s] satisfies (%s) > 0" % (form, vt, t1, t2, t3)
            inner_node = [form, [[nf(v), ["list", [n1, n2]]]], ["cmp", ">", n3, ["num", "0"]]]
        elif form == "for":
            inner = "for %s in [%s, %s] return (%s)" % (vt, t1, t2, t3)
            inner_node = ["for", [[nf(v), ["dl", ["list", [n1, n2]]]]], n3]
        elif form == "fn":
            inner = "(function(%s) (%s))(%s)" % (vt, t3, t1)
            inner_node = ["call", ["fn", [[nf(v), None]], n3], [n1]]
        else:
            inner = "{%s: %s}" % (vt, t1)
            inner_node = ["ctx", [[nf(v), n1]]]
        tb.labels.append("after-scope:" + form)
        after_text = tight if src.bool(0.6) else spell(src, v)
        text = "[%s, %s]" % (inner, after_text)
        node = ["list", [inner_node, after_node]]
        tb.uses_family = True
    elif kind == "ctx":
        k1 = tb.local(decl=True)
        k2 = tb.local(extra={nf(k1)}, decl=True)
        (t1, n1), (t2, n2) = tb.name(tb.pick()), tb.name(tb.pick())
        op = src.choice(["+", "-", "*"])
        # an entry key may also be written as a string literal: it introduces the same name
        key1 = spell(src, k1)
        if not any(x in SYMS for x in k1) and src.bool(0.3):
            key1 = '"%s"' % " ".join(k1)
            tb.labels.append("ctx-entry-key-as-string")
        text = "{%s: %s, %s: %s %s (%s)}.%s" % (key1, t1, spell(src, k2), spell(src, k1), op, t2, spell(src, k2))
        node = ["path", ["ctx", [[nf(k1), n1], [nf(k2), ["arith", op, ["name", nf(k1)], n2]]]], nf(k2)]
        tb.labels.append("ctx-entry-key-reused")
        if len(k1) > 1 or len(k2) > 1:
            tb.uses_family = True
    elif kind == "fn":
        p1 = tb.local(decl=True)
        p2 = tb.local(extra={nf(p1)}, decl=True)
        (t1, n1), (t2, n2) = tb.name(tb.pick()), tb.name(tb.pick())
        op = src.choice(["-", "+", "*", "<"])
        body = ["arith", op, ["name", nf(p1)], ["name", nf(p2)]] if op != "<" else ["cmp", op, ["name", nf(p1)], ["name", nf(p2)]]
        text = "(function(%s, %s) (%s) %s (%s))(%s, %s)" % (spell(src, p1), spell(src, p2), spell(src, p1), op, spell(src, p2), t1, t2)
        node = ["call", ["fn", [[nf(p1), None], [nf(p2), None]], body], [n1, n2]]
        tb.labels.append("function-parameter")
        if len(p1) > 1 or len(p2) > 1:
            tb.uses_family = True
    elif kind == "args":
        (t1, n1), (t2, n2), (t3, n3) = tb.name(tb.pick()), tb.name(tb.pick()), tb.name(tb.pick())
        fn = src.choice(["count", "sum"])
        text, node = "%s([%s, %s,%s])" % (fn, t1, t2, t3), ["call", ["name", fn], [["list", [n1, n2, n3]]]]
        tb.labels.append("argument")
    elif kind == "between":
        (t1, n1), (t2, n2), (t3, n3) = tb.name(tb.pick()), tb.name(tb.pick()), tb.name(tb.pick())
        text, node = "%s between %s and %s" % (t1, t2, t3), ["between", n1, n2, n3]
        tb.labels.append("followed-by-between")
    elif kind == "in":
        (t1, n1), (t2, n2), (t3, n3) = tb.name(tb.pick()), tb.name(tb.pick()), tb.name(tb.pick())
        lc, hc = src.bool(), src.bool()
        if src.bool(0.5):
            text = "%s in %s%s..%s%s" % (t1, "[" if lc else "(", t2, t3, "]" if hc else ")")
            node = ["in", n1, [["t_rng", lc, n2, n3, hc]]]
            tb.labels.append("followed-by-in:range")
        else:
            text, node = "%s in (%s, %s)" % (t1, t2, t3), ["in", n1, [["t_e", n2], ["t_e", n3]]]
            tb.labels.append("followed-by-in:list")
    elif kind == "endpoint-shadow":
        # a bound single-word name stands at an end point of a range / in a unary comparison, INSIDE a construct that binds the same
        # name again to another value (iteration variable, parameter, context entry, entry of a filtered item): the innermost binding
        # counts there like everywhere else. The inner value is 1 (every outer value is a prime): `1 in [v..1]` is true for the inner one.
        singles = [t for t in names if len(t) == 1]
        v = src.choice(singles)
        vt = v[0]
        form = src.choice(["range-lo", "range-hi", "unary-le", "unary-ge"])
        if form == "range-lo":
            test_text, test_node = "1 in [%s..1]" % vt, ["in", ["num", "1"], [["t_rng", True, ["name", vt], ["num", "1"], True]]]
        elif form == "range-hi":
            test_text, test_node = "1 in [1..%s]" % vt, ["in", ["num", "1"], [["t_rng", True, ["num", "1"], ["name", vt], True]]]
        elif form == "unary-le":
            test_text, test_node = "1 in (<= %s)" % vt, ["in", ["num", "1"], [["t_cmp", "<=", ["name", vt]]]]
        else:
            test_text, test_node = "1 in (>= %s)" % vt, ["in", ["num", "1"], [["t_cmp", ">=", ["name", vt]]]]
        binder = src.choice(["for", "some", "every", "fn", "ctx", "filter", "none"])
        one = ["num", "1"]
        if src.bool(0.35) and binder != "none":
            # the inner binding holds NULL: a name bound to null is bound all the same, it does not let the outer binding show through
            one = ["null"]
            form = "null-shadow"
            test_text, test_node = "%s = null" % vt, ["cmp", "=", ["name", vt], ["null"]]
        if binder == "for":
            text, node = "for %s in [%s] return %s" % (vt, F.r(one), test_text), ["for", [[vt, ["dl", ["list", [one]]]]], test_node]
        elif binder in ("some", "every"):
            text, node = "%s %s in [%s] satisfies %s" % (binder, vt, F.r(one), test_text), [binder, [[vt, ["list", [one]]]], test_node]
        elif binder == "fn":
            text, node = "(function(%s) %s)(%s)" % (vt, test_text, F.r(one)), ["call", ["fn", [[vt, None]], test_node], [one]]
        elif binder == "ctx":
            text, node = "{%s: %s, r9: %s}.r9" % (vt, F.r(one), test_text), ["path", ["ctx", [[vt, one], ["r9", test_node]]], "r9"]
        elif binder == "filter":
            # (two items: a filter that selects exactly one item returns the item itself - the open finding C01/filter-singleton-unwrapped)
            text = "count([{%s: %s}, {%s: %s}][%s])" % (vt, F.r(one), vt, F.r(one), test_text)
            node = ["call", ["name", "count"], [["filter", ["list", [["ctx", [[vt, one]]], ["ctx", [[vt, one]]]]], test_node]]]
        else:
            text, node = test_text, test_node       # control: the outer binding at the end point
        tb.labels.append("endpoint:%s:%s" % (form, binder))
    elif kind == "filter-index":
        lname = tb.local()
        tb.bound.add(nf(lname))
        (t1, n1), (t2, n2), (t3, n3) = tb.name(tb.pick()), tb.name(tb.pick()), tb.name(tb.pick())
        i = src.int(1, 3)
        extra_bind.append([nf(lname), {"l": [{"n": str(values[n1[1]])}, {"n": str(values[n2[1]])}, {"n": str(values[n3[1]])}]}])
        text = "%s[%d]" % (spell(src, lname), i)
        node = ["filter", ["list", [n1, n2, n3]], ["idx", ["num", str(i)]]]
        tb.labels.append("followed-by-[")
        if len(lname) > 1:
            tb.uses_family = True
    elif kind == "filter-ctx":
        key = tb.local()
        lname = tb.local(extra={nf(key)})
        tb.bound.add(nf(lname))
        tb.bound.add(nf(key))     # entry names of bound lists of contexts are known to the parsing scope
        (t1, n1) = tb.name(tb.pick())
        vals = [src.int(1, 120) for _ in range(4)]
        wire_items = [{"c": [[nf(key), {"n": str(v)}], ["idx9", {"n": str(i)}]]} for i, v in enumerate(vals)]
        items = ["list", [["ctx", [[nf(key), ["num", str(v)]], ["idx9", ["num", str(i)]]]] for i, v in enumerate(vals)]]
        if src.bool(0.4):
            # the items need not have the same entries: the first one lacks the entry the predicate names (it is never selected)
            wire_items.insert(0, {"c": [["idx9", {"n": "-1"}]]})
            items[1].insert(0, ["ctx", [["idx9", ["num", "-1"]]]])
            tb.labels.append("first-item-lacks-the-entry")
        extra_bind.append([nf(lname), {"l": wire_items}])
        op = src.choice([">", "<", ">=", "<="])
        # the entry name is followed by a comparison, or first by an operator a name could go on with (then by a number, never a name part)
        ar = src.weighted([(5, None), (2, "-"), (2, "*"), (1, "+")])
        sp = src.choice(["", " "])
        left_text = spell(src, key) if ar is None else "%s%s%s%s2" % (spell(src, key), sp, ar, sp)
        left_node = ["name", nf(key)] if ar is None else ["arith", ar, ["name", nf(key)], ["num", "2"]]
        text = "%s[%s %s %s].idx9" % (spell(src, lname), left_text, op, t1)
        node = ["path", ["filter", items, ["cmp", op, left_node, n1]], "idx9"]
        tb.labels.append("filter-predicate-entry-name")
        if ar is not None:
            tb.labels.append("entry-name-before-operator")
            if glue(key, ar, ["2"], tb.bound) != "A":
                # the entry name, the operator and the digit together spell a longer bound name (`c-2`): that name is the longest match
                tb.labels.append("partial-glue")
                tb.partial = True
        thr = values[n1[1]]
        fv = {None: lambda v: v, "-": lambda v: v - 2, "*": lambda v: v * 2, "+": lambda v: v + 2}[ar]
        hits = sum(1 for v in vals if {">": fv(v) > thr, "<": fv(v) < thr, ">=": fv(v) >= thr, "<=": fv(v) <= thr}[op])
        if hits == 1:
            tb.labels.append("single-hit(eager unwrap, C01 finding)")
            tb.partial = True
        tb.uses_family = True
    elif kind in ("path-head", "path-chain"):
        cname = tb.local()
        key = tb.local(extra={nf(cname)})
        tb.bound.add(nf(cname))
        p1 = PRIMES[len(names) + 1]
        (t1, n1) = tb.name(tb.pick())
        # entry names of bound contexts are known to the parsing scope like bound names
        tb.bound.add(nf(key))
        g = glue(cname, ".", key, tb.bound)
        if g != "A" and g != "ALL":
            tb.labels.append("partial-glue")
            tb.partial = True
        if longest_prefix(key, tb.bound) != len(key):
            tb.labels.append("partial-glue")
            tb.partial = True
        if kind == "path-chain":
            key2 = tb.local(extra={nf(cname), nf(key)})
            tb.bound.add(nf(key2))
            # after each dot the longest bound name is chosen again: `key.key2` (or a prefix of it) may itself be a bound name
            if g != "A" or longest_prefix(key + ["."] + key2, tb.bound) != len(key) or longest_prefix(key2, tb.bound) != len(key2):
                tb.labels.append("partial-glue")
                tb.partial = True
            extra_bind.append([nf(cname), {"c": [[nf(key), {"c": [[nf(key2), {"n": str(p1)}]]}]]}])
            text = "%s.%s.%s" % (spell(src, cname), spell(src, key), spell(src, key2))
            node = ["path", ["path", ["ctx", [[nf(key), ["ctx", [[nf(key2), ["num", str(p1)]]]]]]], nf(key)], nf(key2)]
            tb.labels.append("path-chain")
        else:
            extra_bind.append([nf(cname), {"c": [[nf(key), {"n": str(p1)}]]}])
            dot = " " * src.weighted([(3, 0), (1, 1)]) + "." + " " * src.weighted([(3, 0), (1, 1)])
            text = "%s%s%s + (%s)" % (spell(src, cname), dot, spell(src, key), t1)
            node = ["arith", "+", ["path", ["ctx", [[nf(key), ["num", str(p1)]]]], nf(key)], n1]
            tb.labels.append("path-head")
            # a bound name that spells exactly `cname.key` wins over the path
            if nf(cname + ["."] + key) in tb.bound:
                node = ["arith", "+", ["name", nf(cname + ["."] + key)], n1]
                tb.labels.append("glued")
        tb.uses_family = True
    elif kind == "bound-ctx":
        # a bound name holds a context whose entry names are multi-word / symbol names (some of them also bound at the top, to another
        # value): `order.net pay` is the entry, whatever else is bound
        cname = tb.local()
        tb.bound.add(nf(cname))
        keys = []
        for _ in range(src.int(1, 3)):
            k = src.choice(names) if src.bool(0.5) else tb.local()
            if "." not in k and nf(k) not in [nf(x) for x in keys] and nf(k) != nf(cname):
                keys.append(k)
        if not keys:
            keys = [["zz", "yy"]]
        vals = [PRIMES[len(names) + 2 + i] for i in range(len(keys))]
        extra_bind.append([nf(cname), {"c": [[nf(k), {"n": str(v)}] for k, v in zip(keys, vals)]}])
        key = src.choice(keys)
        text = spell(src, cname) + src.choice([".", " . ", ". "]) + spell(src, key)
        node = ["path", ["name", nf(cname)], nf(key)]
        run = cname + ["."] + key
        lp = longest_prefix(run, tb.bound)
        if lp == len(run):
            node = ["name", nf(run)]            # the dotted spelling is itself a bound name: the longest match is that name
            tb.labels.append("glued")
        elif lp != len(cname):
            tb.labels.append("partial-glue")    # a bound dotted name ends inside the entry name
            tb.partial = True
        tb.labels.append("bound-context-entry" + (":also-bound-at-top" if nf(key) in [nf(t) for t in names] else ""))
        tb.uses_family = tb.uses_family or len(key) > 1
        if src.bool(0.6):
            t1, n1 = tb.operand()
            op = src.choice(["+", "*", "-"])
            text = "%s %s %s" % (text, op, t1)
            node = ["arith", op, node, n1]
    elif kind == "nested-entry":
        # an entry two levels down: inside a context nested in a bound context, or nested in the items of a bound list of contexts (its
        # name occurs nowhere else); reached by a path and followed by an operator a name could go on with
        cname, k1 = tb.local(), None
        k1 = tb.local(extra={nf(cname)})
        k2 = tb.local(extra={nf(cname), nf(k1)})
        tb.bound.update({nf(cname), nf(k1), nf(k2)})
        p1, p2 = PRIMES[len(names) + 2], PRIMES[len(names) + 3]
        in_list = src.bool(0.6)
        inner = lambda v: {"c": [[nf(k1), {"c": [[nf(k2), {"n": str(v)}]]}], ["idx9", {"n": "9"}]]}
        inner_node = lambda v: ["ctx", [[nf(k1), ["ctx", [[nf(k2), ["num", str(v)]]]]], ["idx9", ["num", "9"]]]]
        if in_list:
            extra_bind.append([nf(cname), {"l": [inner(p1), inner(p2)]}])
            head_text = "%s[%d]" % (spell(src, cname), 2)
            head_node = ["filter", ["list", [inner_node(p1), inner_node(p2)]], ["idx", ["num", "2"]]]
        else:
            extra_bind.append([nf(cname), inner(p1)])
            head_text, head_node = spell(src, cname), ["name", nf(cname)]
        dot = src.choice([".", " . "])
        text = head_text + dot + spell(src, k1) + dot + spell(src, k2)
        node = ["path", ["path", head_node, nf(k1)], nf(k2)]
        # after every `.` the longest bound name is chosen again: the case is asserted only when, at the head and behind each dot, that
        # is exactly the name meant (no bound dotted spelling such as `b.c` reaches over a dot) and the names hold no symbol themselves
        clean = not any(x in SYMS for x in k1 + k2 + cname)
        clean = clean and longest_prefix(k1 + ["."] + k2, tb.bound) == len(k1) and longest_prefix(k2, tb.bound) == len(k2)
        if not in_list:
            clean = clean and longest_prefix(cname + ["."] + k1 + ["."] + k2, tb.bound) == len(cname)
        if not clean:
            tb.labels.append("partial-glue")
            tb.partial = True
        op = src.choice(["+", "*", "-", "/"])
        sp = src.choice(["", " "])
        if glue(k2, op, ["2"], tb.bound) != "A":
            tb.labels.append("partial-glue")
            tb.partial = True
        text = "%s%s%s%s2" % (text, sp, op, sp)
        node = ["arith", op, node, ["num", "2"]]
        tb.labels.append("nested-entry:" + ("list-item" if in_list else "context"))
        tb.uses_family = True
    else:  # call
        fname = tb.local()
        tb.bound.add(nf(fname))
        (t1, n1), (t2, n2) = tb.name(tb.pick()), tb.name(tb.pick())
        extra_bind.append([nf(fname), {"feel": "function(p, q) p * 1000 + q"}])
        text = "%s(%s, %s)" % (spell(src, fname), t1, t2)
        node = ["arith", "+", ["arith", "*", n1, ["num", "1000"]], n2]
        tb.labels.append("followed-by-(")
        if len(fname) > 1:
            tb.uses_family = True
    for t in names:
        bindings.append([nf(t), {"n": str(values[nf(t)])}])
    bindings.extend(extra_bind)
    # layout: optional leading/trailing blanks
    text = " " * src.weighted([(4, 0), (1, 1)]) + text + " " * src.weighted([(4, 0), (1, 1)])
    return {"text": text, "bindings": bindings, "ast": node, "labels": tb.labels, "partial": tb.partial, "family": tb.uses_family}


def reqs(case):
    return [{"op": "eval", "text": case["text"], "scope": [case["bindings"]]}]


def _ref_ctx(w):
    if isinstance(w, dict) and "c" in w:
        return {k: _ref_ctx(x) for k, x in w["c"]}
    if isinstance(w, dict) and "n" in w:
        return Decimal(w["n"])
    return None


def ref_bindings(case):
    out = {}
    for n, w in case["bindings"]:
        if isinstance(w, dict) and "n" in w:
            out[n] = Decimal(w["n"])
        elif isinstance(w, dict) and "c" in w:
            out[n] = _ref_ctx(w)
        elif isinstance(w, dict) and w.get("feel") in BYSTANDERS:
            out[n] = dict(BYSTANDER_VALUES)[w["feel"]]
    return out


def judge(ctx, case, resp):
    r = resp[0]
    labels = list(case["labels"])
    if "panic" in r or "died" in r or "timeout" in r:
        ctx.note(key=case["text"], labels=["crash(C05)"])
        return Fail("C10/crash@%s" % r.get("location", "?"), "%r -> %r" % (case["text"], r))
    if case["partial"]:
        # the longest bound name ends inside an intended operand: what follows is no longer the intended expression
        ctx.note(key=case["text"] + h(case["bindings"]), labels=labels + ["not-asserted"])
        return None
    try:
        want = F.evaluate(case["ast"], ref_bindings(case))
    except F.Unspecified:
        ctx.note(key=case["text"] + h(case["bindings"]), labels=labels + ["unspecified"])
        return None
    ctx.note(key=case["text"] + h(case["bindings"]), nontrivial=case["family"], labels=labels,
             sample={"text": case["text"], "bound": [b[0] for b in case["bindings"]], "expected": val.show(want)})
    if "values" not in r:
        return Fail(diagnose(case, None), "%r with bound names %r is rejected: %s" % (case["text"], [b[0] for b in case["bindings"]],
                                                                                  r.get("parse_err", r)))
    got = val.from_wire(r["values"][0])
    if val.same(got, want):
        return None
    return Fail(diagnose(case, got), "%r with bound names %r\n  expected %s\n  actual   %s" % (
        case["text"], [b[0] for b in case["bindings"]], val.show(want), val.show(got)))


def diagnose(case, got):
    return "C10/wrong-resolution"


# ---------------------------------------------------------------------------------------------------------------
# the alphabet of name characters: every code point of the grammar's ranges as a bound one-character name and inside a bound name
# ---------------------------------------------------------------------------------------------------------------

ALPHA_K = 64


def alphabet_cases(step):
    """batches of ALPHA_K code points; step 1 = every code point of the ranges, else every step-th plus both ends of every range and
    of every 256-block"""
    def pick(ranges):
        for lo, hi in ranges:
            for c in range(lo, hi + 1):
                if c in BOTH_WS_AND_NAME:
                    continue
                if step == 1 or c in (lo, hi, lo + 1, hi - 1) or (c & 0xFF) in (0, 0xFF) or c % step == 0:
                    yield c
    for kind, ranges in (("start", START_RANGES), ("part", PART_RANGES + START_RANGES)):
        batch = []
        for c in pick(ranges):
            batch.append(c)
            if len(batch) == ALPHA_K:
                yield {"kind": kind, "cps": batch}
                batch = []
        if batch:
            yield {"kind": kind, "cps": batch}


def alpha_names(case):
    return [(chr(c) if case["kind"] == "start" else "n" + chr(c) + "m") for c in case["cps"]]


def reqs_alpha(case):
    names = alpha_names(case)
    ops = ["+", "-", "*", "/"]
    bindings = [[n, {"n": str(3 + 2 * i)}] for i, n in enumerate(names)]
    items = []
    for i, n in enumerate(names):
        op = ops[i % 4]
        sp = " " if i % 8 < 4 else ""
        items.append("%s%s%s%s1" % (n, sp, op, sp))
    return [{"op": "eval", "text": "[" + ", ".join(items) + "]", "scope": [bindings]}]


def judge_alpha(ctx, case, resp):
    r = resp[0]
    names = alpha_names(case)
    key = "%s:%x-%x" % (case["kind"], case["cps"][0], case["cps"][-1])
    ctx.note(key=key, nontrivial=True, labels=["alphabet:" + case["kind"]],
             sample={"kind": case["kind"], "first": "U+%04X" % case["cps"][0], "last": "U+%04X" % case["cps"][-1], "n": len(names)})
    if "panic" in r or "died" in r or "timeout" in r:
        return Fail("C10/crash@%s" % r.get("location", "?"), "alphabet %s -> %r" % (key, r))
    want = []
    for i in range(len(names)):
        v = Decimal(3 + 2 * i)
        want.append([v + 1, v - 1, v, v][i % 4])
    if "values" not in r:
        return Fail("C10/wrong-resolution", "bound names made of name characters (%s, code points %s) are rejected: %s" % (
            case["kind"], " ".join("U+%04X" % c for c in case["cps"]), str(r.get("parse_err", r))[:300]))
    got = val.from_wire(r["values"][0])
    if isinstance(got, list) and len(got) == len(want):
        bad = [(c, g, w) for c, g, w in zip(case["cps"], got, want) if not val.same(g, w)]
        if not bad:
            return None
        c, g, w = bad[0]
        return Fail("C10/wrong-resolution", "the bound name %r (U+%04X as a name %s character) followed by an operator: expected %s, actual %s (%d of %d in this batch)" % (
            alpha_names({"kind": case["kind"], "cps": [c]})[0], c, case["kind"], val.show(w), val.show(g), len(bad), len(want)))
    return Fail("C10/wrong-resolution", "alphabet %s: expected a list of %d numbers, actual %s" % (key, len(want), val.show(got)[:300]))


def setup(ctx):
    ctx.rule = ("name sets with prefix families (a, a b, a b c), operator-joined combinations next to their parts (a, b, a-b) and disjoint "
                "names over ASCII/Latin-1/Greek/Cyrillic/CJK words, each bound to a distinct prime; templates put names in every position "
                "(alone, operands of + - * / and comparisons with and without blanks, if, for/some/every variables, filter predicates, "
                "context keys reused later, path heads, function parameters, arguments, before in/between/[/(); oracle: longest-bound-"
                "match rule + reference evaluator over primes. non-trivial: the expression uses a multi-word/symbol name or a name that "
                "is a prefix of another bound name; distinct by (text, bindings)")
    ctx.assumptions = ["names are bound through the public constructors (never through the lexer)"]
    ctx.p = ctx.register(Part("names", gen_case, reqs, judge))
    ctx.p_alpha = ctx.register(Part("alphabet", None, reqs_alpha, judge_alpha))


def run(ctx):
    step = 1 if ctx.thorough() else 23
    ctx.enumerate(ctx.p_alpha, alphabet_cases(step), batch=20,
                  name="code points of the name start / name part ranges (grammar rules 28, 29) as a bound one-character name and inside a bound "
                       "name, followed by + - * / with and without blanks: %s" % ("every code point" if step == 1 else "every 23rd + the ends of every range and 256-block"),
                  exhaustive=(step == 1))
    if ctx.stop():
        return
    ctx.forall(ctx.p, ctx.scale(160000, 15000000))


if __name__ == "__main__":
    sys.exit(main(sys.modules[__name__]))
