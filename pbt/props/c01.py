"""C01 — core FEEL expressions evaluate to the value the FEEL semantics assigns."""
import sys
from collections import Counter

from ..engine import Part, Fail, main, h
from .. import val
from ..oracles import feel as F
from ..oracles import feel_gen as GEN

PROP = "C01"
QUICK_WORKERS = 4

# deviation flags of the reference evaluator that model documented (open) defects: signature -> flags
# (only OPEN findings: the model of a repaired defect must not take part in explaining a value - in the thorough run of the eighth wave the pair
# eager_unwrap + null_left_eq "explained" a value that eager_unwrap alone leaves undetermined, and the pair is not a known finding because
# null-left-equality is repaired (ff6e9c4); a regression of a repaired defect shows as plain wrong-value)
BASE_DEVS = [("filter-singleton-unwrapped", "eager_unwrap"), ("closure-dynamic-scope", "dynamic_scope")]


def _devs():
    import itertools
    out = []
    for r in range(1, len(BASE_DEVS) + 1):
        for combo in itertools.combinations(BASE_DEVS, r):
            out.append(("C01/" + "+".join(n for n, _ in combo), {f for _, f in combo}))
    return out


DEVIATIONS = _devs()


def norm(v):
    """reference value -> comparable value"""
    if isinstance(v, (F.Closure, F.Builtin)):
        return val.Fn()
    if isinstance(v, list):
        return [norm(x) for x in v]
    if isinstance(v, dict):
        return {k: norm(x) for k, x in v.items()}
    return v


def bindings_ref(case):
    return {name: GEN.wire_to_ref(w) for name, w in case["bindings"]}


def scope_single(case):
    return [[[n, w] for n, w in case["bindings"]]]


def scope_split(case):
    """same visible meaning, different stack shape: bindings spread over three stacked contexts, shadowed junk below,
    irrelevant extra entries"""
    b = case["bindings"]
    third = max(1, len(b) // 3)
    bottom = [["zz unused", {"n": "42"}]] + [[n, {"s": "shadowed"}] for n, _ in b[third:2 * third]] + [[n, w] for n, w in b[:third]]
    middle = [[n, w] for n, w in b[third:2 * third]] + [["other junk", None]]
    top = [[n, w] for n, w in b[2 * third:]] + [["qq", {"l": []}]]
    return [bottom, middle, top]


def chain_text(case):
    """the same tree written with fewer parentheses (postfix chains and trailing bodies bare), or the plain text when that is not possible"""
    t = F.r_chain(case["ast"])
    return t if t is not None else F.r(case["ast"])


def reqs_core(case):
    text = F.r(case["ast"])
    return [{"op": "eval", "text": text, "scope": scope_single(case)},
            {"op": "eval", "text": chain_text(case), "scope": scope_split(case)}]


def judge_core(ctx, case, resp):
    ast = case["ast"]
    text = F.r(ast)
    cons = F.constructs(ast)
    r1, r2 = resp
    labels = sorted(cons)
    for r in (r1, r2):
        if "timeout" in r and "panic" not in r and "died" not in r:
            # slow, not wrong (see C13): a generated iteration over tens of thousands of combinations; termination is C05's subject
            ctx.note(key=text, nontrivial=False, labels=["timeout: not judged (slow generated expression)"])
            return None
        if "panic" in r or "died" in r:
            ctx.note(key=text, nontrivial=False, labels=["crash(C05)"])
            return Fail("C01/crash@%s" % r.get("location", "?"), "evaluating %s: %r\n  bindings %r" % (text, r, case["bindings"]))
    if "values" not in r1:
        ctx.note(key=text, nontrivial=False, labels=["rejected"])
        return Fail("C01/rejected", "well-formed core expression rejected: %s -> %r" % (text, r1))
    got = val.from_wire(r1["values"][0])
    try:
        want = norm(F.evaluate(ast, bindings_ref(case)))
    except F.Unspecified as e:
        ctx.note(key=text, nontrivial=False, labels=["unspecified"])
        ctx.classes["unspecified: " + str(e)] += 1
        want = None
        unspecified = True
    else:
        unspecified = False
    # metamorphic: the result depends only on the text and on the values bound to its free names
    text2 = chain_text(case)
    if text2 != text:
        labels.append("second-text:fewer-parentheses")
    if "values" not in r2:
        return Fail("C01/scope-shape-rejected", "%s parses in a flat scope but %s does not with the same bindings stacked: %r" % (text, text2, r2))
    got2 = val.from_wire(r2["values"][0])
    if not val.same(got, got2):
        return Fail("C01/depends-on-scope-shape", "%s\n  flat scope   -> %s\n  %s\n  stacked scope -> %s\n  bindings %r" % (
            text, val.show(got), text2, val.show(got2), case["bindings"]))
    if unspecified:
        return None
    nontrivial = len(cons - {"num", "str", "bool", "null", "name", "idx"}) >= 2 and (want is not None or "wrongkind" in labels or True)
    ctx.note(key=text + h(case["bindings"]), nontrivial=nontrivial, labels=labels + ["root:" + ast[0]],
             sample={"text": text, "bindings": case["bindings"], "expected": val.show(want), "actual": val.show(got)})
    pairs(ctx, ast)
    if val.same(got, want):
        return None
    sig = "C01/wrong-value"
    undetermined = set()
    for s, flags in DEVIATIONS:
        try:
            dv, fired = F.evaluate2(ast, bindings_ref(case), dev=flags)
        except F.Unspecified as e:
            if getattr(e, "fired", None) == flags:
                undetermined.add(s)   # every modelled defect of this combination was triggered, then the model ran out of spec
            continue
        if fired == flags and val.same(got, norm(dv)):
            sig = s
            break
    else:
        if undetermined:
            # behind a documented defect the DMN text no longer decides the value: nothing is asserted for this case
            ctx.classes["undetermined-behind-known-finding"] += 1
            return None
    return Fail(sig, "%s\n  bindings %r\n  expected %s\n  actual   %s" % (text, case["bindings"], val.show(want), val.show(got)))


def diagnose(ast, got, want):
    return "C01/wrong-value"


def pairs(ctx, n, parent=None):
    """coverage table parent construct x child construct"""
    if isinstance(n, list):
        if n and isinstance(n[0], str) and hasattr(F.Ref, "e_" + n[0]):
            if parent:
                ctx.classes["%s>%s" % (parent, n[0])] += 1
            parent = n[0]
            for x in n[1:]:
                pairs(ctx, x, parent)
        else:
            for x in n:
                pairs(ctx, x, parent)


EXCLUDED = {"nested-between-or-and-inside-between-operand": 0}


def gen_core(depth):
    def g(src):
        gg = GEN.G(src)
        c = gg.case(depth)
        EXCLUDED["nested-between-or-and-inside-between-operand"] += gg.excluded_nested_between
        return c
    return g


def setup(ctx):
    ctx.rule = ("typed grammar-directed generation of core-fragment expressions (literals, arithmetic, comparison, and/or, if, between, in, "
                "lists, contexts, paths, filters, for/some/every, function definition/invocation) over generated bindings; oracle: reference "
                "evaluator written from DMN 1.3 10.3.2 + metamorphic scope-shape invariance; non-trivial: >=2 different non-leaf constructs "
                "in the tree; distinct by (text, bindings)")
    ctx.assumptions = ["reference evaluator pbt/oracles/feel.py implements DMN 1.3 FEEL semantics for the generated fragment; cases the "
                       "DMN text does not decide are labelled 'unspecified' and only totality/scope invariance is asserted"]
    ctx.p2 = ctx.register(Part("core-d2", gen_core(2), reqs_core, judge_core))
    ctx.p3 = ctx.register(Part("core-d3", gen_core(3), reqs_core, judge_core))
    ctx.p4 = ctx.register(Part("core-d4", gen_core(4), reqs_core, judge_core))
    ctx.p5 = ctx.register(Part("core-d5", gen_core(5), reqs_core, judge_core))


def run(ctx):
    ctx.forall(ctx.p2, ctx.scale(16000, 200000))
    ctx.forall(ctx.p3, ctx.scale(24000, 400000))
    ctx.forall(ctx.p4, ctx.scale(12000, 300000))
    if ctx.thorough():
        ctx.forall(ctx.p5, 100000)
    ctx.extra["generator_exclusions"] = dict(EXCLUDED)


if __name__ == "__main__":
    sys.exit(main(sys.modules[__name__]))
