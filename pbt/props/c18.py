"""C18 — the HTTP service always answers well-formed JSON reflecting the workspace.

The check starts the REAL service (`vsrv` = dmntk_server::start_server of the working tree) on a loopback port, one server
per worker process, and talks http.client to it.  Parts:

  echo-corners / echo   results of echo invocables over generated strings (quotes, backslashes, control, non-ASCII, astral),
                        numbers, booleans, nulls, nested lists and contexts: every body must pass a STRICT JSON reader and
                        `data` must decode to the evaluated value (the value the same evaluation yields in process, driver `probe`)
  tck                   typed values sent to the echo through /tck/evaluate come back with the same kind, text and structure
  faults                every malformed request of the table, between valid requests: answered by a JSON `errors` document,
                        state untouched, the following valid requests answered correctly
  history               generated request sequences over the model alphabet A B C A2 D E (definitions add/replace/remove/clear/
                        deploy, /evaluate, /tck/evaluate, /system/info, malformed requests) interpreted against the reference
                        workspace of C17 (replace = substitute the stored model of the same namespace and name), followed by an
                        observation suffix (deploy, evaluate every name, try to add every model)
"""
import atexit
import base64
import ctypes
import http.client
import json
import os
import select
import signal
import subprocess
import sys
import time
import urllib.parse


from ..engine import Part, Fail, Inconclusive, main, canon, TARGET, h as _h
from ..oracles import c18_json as J
from ..oracles import c18_models as CM
from ..oracles import workspace_ref as WR

PROP = "C18"
WORKERS = 8

# ------------------------------------------------------------------------------------------------
# the service under test
# ------------------------------------------------------------------------------------------------

_SERVERS = []


def _pdeathsig():
    try:
        ctypes.CDLL("libc.so.6", use_errno=True).prctl(1, signal.SIGKILL)  # PR_SET_PDEATHSIG
    except Exception:
        pass


def _kill_all():
    for s in list(_SERVERS):
        s.stop()


atexit.register(_kill_all)


class Http:
    """One keep-alive connection; never retries a request by itself (a request is sent at most once)."""

    def __init__(self, port, timeout=30.0):
        self.port = port
        self.timeout = timeout
        self.conn = None
        self.last = 0.0
        self.requests = 0

    def close(self):
        if self.conn is not None:
            try:
                self.conn.close()
            except Exception:
                pass
            self.conn = None

    def _fresh(self):
        if self.conn is not None:
            sock = self.conn.sock
            stale = sock is None or (time.monotonic() - self.last) > 2.0   # server keep-alive is 5 s
            if not stale:
                r, _, _ = select.select([sock], [], [], 0)
                stale = bool(r)                                             # readable while idle = closed by the peer
            if stale:
                self.close()
        if self.conn is None:
            self.conn = http.client.HTTPConnection("127.0.0.1", self.port, timeout=self.timeout)
            self.conn.connect()

    def request(self, method, path, body=None, headers=None, timeout=None):
        """-> {"status", "ctype", "body"} | {"noanswer": reason}"""
        self.requests += 1
        send_err = None
        try:
            self._fresh()
            if timeout is not None:
                self.conn.sock.settimeout(timeout)
            self.conn.request(method, path, body=body, headers=headers or {})
        except (OSError, http.client.HTTPException) as e:
            send_err = e
            if self.conn is None or self.conn.sock is None:
                self.close()
                return {"noanswer": "send: %r" % (e,)}
        try:
            resp = self.conn.getresponse()
            data = resp.read()
        except (OSError, http.client.HTTPException) as e:
            self.close()
            return {"noanswer": "%s%r" % ("send: %r; " % (send_err,) if send_err else "", e)}
        rec = {"status": resp.status, "ctype": resp.getheader("content-type"), "body": data}
        if send_err is not None or resp.will_close or resp.status >= 400:
            # after an early error answer the server may not have read the whole request body and resets the connection:
            # a transport matter, the next request uses a new connection
            self.close()
        elif timeout is not None and self.conn is not None and self.conn.sock is not None:
            self.conn.sock.settimeout(self.timeout)
        self.last = time.monotonic()
        return rec


class Server:
    def __init__(self, ctx):
        self.ctx = ctx
        self.proc = None
        self.port = None
        self.http = None
        self.state = None       # "echo" when the workspace holds exactly the deployed echo model, else None
        self.starts = 0

    def start(self):
        path = os.path.join(TARGET, "release", "vsrv")
        if not os.path.exists(path):
            raise Inconclusive("service binary missing: %s (run ./tools/build.sh)" % path)
        base = (os.getpid() * 31 + self.ctx.seed * 7 + self.ctx.w * 977 + self.starts * 53) % 20000
        for attempt in range(40):
            port = 20000 + (base + attempt * 131) % 20000
            proc = subprocess.Popen([path, str(port)], stdout=subprocess.DEVNULL, stderr=subprocess.DEVNULL, stdin=subprocess.DEVNULL,
                                    preexec_fn=_pdeathsig)
            if self._wait_ready(proc, port):
                self.proc, self.port = proc, port
                self.http = Http(port)
                self.state = None
                self.starts += 1
                if self not in _SERVERS:
                    _SERVERS.append(self)
                return
            try:
                proc.kill()
                proc.wait(timeout=5)
            except Exception:
                pass
        raise Inconclusive("could not start the service on any of 40 loopback ports")

    @staticmethod
    def _wait_ready(proc, port):
        deadline = time.monotonic() + 30.0
        while time.monotonic() < deadline:
            if proc.poll() is not None:
                return False        # could not bind (port taken) or died
            c = Http(port, timeout=5.0)
            r = c.request("GET", "/system/info")
            c.close()
            if "status" in r and r["status"] == 200:
                time.sleep(0.05)
                return proc.poll() is None   # it is OUR process that listens
            time.sleep(0.05)
        return False

    def alive(self):
        return self.proc is not None and self.proc.poll() is None

    def stop(self):
        if self.http is not None:
            self.http.close()
        if self.proc is not None:
            if os.environ.get("VERIF_GRACEFUL") and self.proc.poll() is None:
                # coverage runs (tools/coverage.sh): SIGTERM lets the service shut down and write its profile
                try:
                    self.proc.terminate()
                    self.proc.wait(timeout=10)
                except Exception:
                    pass
            try:
                self.proc.kill()
                self.proc.wait(timeout=5)
            except Exception:
                pass
            self.proc = None
        if self in _SERVERS:
            _SERVERS.remove(self)

    def restart(self):
        self.stop()
        self.start()


def server(ctx):
    s = getattr(ctx, "_c18_server", None)
    if s is None:
        s = Server(ctx)
        ctx._c18_server = s
    if not s.alive():
        s.stop()
        s.start()
    return s


JSON_CT = {"Content-Type": "application/json"}


def b64(data):
    if isinstance(data, str):
        data = data.encode("utf-8")
    return base64.b64encode(data).decode("ascii")


def jbody(obj):
    return json.dumps(obj, ensure_ascii=True).encode("ascii")


def seg(s):
    return urllib.parse.quote(s, safe="")


# ------------------------------------------------------------------------------------------------
# observing one response
# ------------------------------------------------------------------------------------------------

def observe(rec):
    """HTTP record -> observation: {"kind": "data"|"errors"|"notjson"|"noanswer", ...}"""
    if "noanswer" in rec:
        return {"kind": "noanswer", "why": rec["noanswer"]}
    out = {"status": rec["status"], "ctype": rec["ctype"], "text": rec["body"][:600].decode("utf-8", "replace"), "raw": rec["body"]}
    try:
        doc = J.strict_loads(rec["body"])
        k, payload = J.envelope(doc)
        out["kind"] = k
        out["payload"] = payload
    except J.NotJson as e:
        out["kind"] = "notjson"
        out["why"] = str(e)
    return out


def obs_brief(o):
    if o["kind"] == "noanswer":
        return "no answer (%s)" % o["why"]
    return "%s %s %r" % (o["status"], o["ctype"], o["text"][:300])


def confirm_no_answer(ctx, srv, what, why, replay):
    """The service did not answer `what` (connection dropped, or no byte within the timeout). The service is restarted
    and `replay(srv)` re-executes the same requests from an empty workspace; it returns the reason when the same request
    is again left unanswered, else None.  Reproduced => violation; not reproduced => infrastructure, inconclusive."""
    died = not srv.alive()
    code = srv.proc.poll() if (died and srv.proc is not None) else None
    srv.restart()
    again = replay(srv)
    died2 = not srv.alive()
    if again is not None:
        srv.restart()
        if died or died2:
            return Fail("C18/service-died", "the service process died (exit %s) on: %s (reproduced on a freshly started service)" % (code, what))
        return Fail("C18/no-answer", "the service did not answer: %s\n  first run: %s\n  again on a freshly started service: %s" % (what, why, again))
    raise Inconclusive("C18: a request got no answer once (%s: %s) and was answered when everything was replayed on a fresh service: "
                       "unstable infrastructure" % (what, why))


# ------------------------------------------------------------------------------------------------
# part: echo through /evaluate  (jsonify)
# ------------------------------------------------------------------------------------------------

PLAIN = "abcdefghijklmnopqrstuvwxyzABCDEFGHIJKLMNOPQRSTUVWXYZ0123456789 _-.,:;!?()[]{}<>=+*/'#%&|~^@$"
CONTROLS = [chr(c) for c in range(0x20)] + ["\x7f"]
NONASCII = ["\u00e9", "\u0142", "\u00df", "\u65e5", "\u672c", "\u03a9", "\u0436", "\u2028", "\u2029", "\u00a0", "\ufeff", "\uffff", "\u202e", "\u00ff", "\u0080"]
ASTRAL = ["\U0001f600", "\U0001f640", "\U00010400", "\U0001d11e", "\U0010ffff"]
FRAGMENTS = ['", "x": "', '"}', '{"data":', "\\u0041", "\\n", "\\\\", '\\"', "</script>", "null", "//", "/*", "*/", "${x}", "%s", "\\", '"']


def gen_string(src, special=0.5):
    if not src.bool(0.9):
        return ""
    n = src.int(1, 10)
    out = []
    for _ in range(n):
        k = src.weighted([(10, "plain"), (3, "quote"), (3, "backslash"), (3, "control"), (3, "nonascii"), (2, "astral"), (2, "fragment")]) \
            if src.bool(special) else "plain"
        if k == "plain":
            out.append(src.choice(PLAIN))
        elif k == "quote":
            out.append('"')
        elif k == "backslash":
            out.append("\\")
        elif k == "control":
            out.append(src.choice(CONTROLS))
        elif k == "nonascii":
            out.append(src.choice(NONASCII))
        elif k == "astral":
            out.append(src.choice(ASTRAL))
        else:
            out.append(src.choice(FRAGMENTS))
    return "".join(out)


def gen_number_text(src):
    k = src.weighted([(4, "int"), (4, "dec"), (2, "small"), (2, "big"), (1, "zeros")])
    neg = src.bool(0.3)
    if k == "int":
        t = str(src.int(0, 100000))
    elif k == "dec":
        t = "%d.%s" % (src.int(0, 9999), src.digits(src.int(1, 8)))
    elif k == "small":
        t = "0." + "0" * src.int(5, 30) + str(src.int(1, 9)) + src.digits(src.int(0, 5))
    elif k == "big":
        t = str(src.int(1, 9)) + src.digits(src.int(15, 33))
        if src.bool(0.4):
            cut = src.int(1, len(t) - 1)
            t = t[:cut] + "." + t[cut:]
    else:
        t = "%d.%s" % (src.int(0, 99), "0" * src.int(1, 6))
    return ("-" if neg else "") + t


WORDS = ["a", "b", "x1", "name", "Full Name", "a b c", "k_1", "id"]
ODD_KEYS = ['c"d', "a\\b", "é", "", "a  b", "tab\there", "key: 1", "{", "}", "日本", "😀", "new\nline", "nul\x00", '"', "a,b", "'q'"]


def gen_value(src, depth=0):
    """abstract value: None | True/False | ["num", text] | ["str", s] | ["list", [...]] | ["ctx", [[key, v]...]]"""
    kinds = [(5, "str"), (3, "num"), (1, "bool"), (1, "null"), (1, "range")]
    if depth < 3:
        kinds += [(2, "list"), (2, "ctx")]
    k = src.weighted(kinds)
    if k == "range":
        # a value without JSON counterpart (rendered as the JSON string of its text) whose text contains the end points' own quotation marks
        if src.bool(0.7):
            a, b = sorted([gen_string(src, 0.3), gen_string(src, 0.3)])
            a, b = feel_string(a, "raw"), feel_string(b, "raw")
        else:
            a, b = sorted([src.int(-50, 50), src.int(-50, 50)])
            a, b = ("(%d)" % a if a < 0 else str(a)), ("(%d)" % b if b < 0 else str(b))
        return ["feel", "%s%s..%s%s" % (src.choice("[("), a, b, src.choice("])"))]
    if k == "str":
        return ["str", gen_string(src)]
    if k == "num":
        return ["num", gen_number_text(src)]
    if k == "bool":
        return src.bool(0.5)
    if k == "null":
        return None
    if k == "list":
        return ["list", [gen_value(src, depth + 1) for _ in range(src.int(0, 4))]]
    entries, seen = [], set()
    for _ in range(src.int(0, 4)):
        key = src.choice(WORDS) if src.bool(0.6) else src.choice(ODD_KEYS)
        if key in seen:
            continue
        seen.add(key)
        entries.append([key, gen_value(src, depth + 1)])
    return ["ctx", entries]


def feel_string(s, style):
    if style == "json":
        return json.dumps(s, ensure_ascii=False)
    out = ['"']
    for ch in s:
        o = ord(ch)
        if ch == '"':
            out.append('\\"')
        elif ch == "\\":
            out.append("\\\\")
        elif ch == "\n":
            out.append("\\n")
        elif style == "escaped" and (o < 0x20 or o > 0x7e):
            if ch == "\t":
                out.append("\\t")
            elif ch == "\r":
                out.append("\\r")
            elif o > 0xffff:
                out.append("\\U%06X" % o)
            else:
                out.append("\\u%04X" % o)
        else:
            out.append(ch)
    out.append('"')
    return "".join(out)


def feel_literal(v, style):
    if v is None:
        return "null"
    if v is True:
        return "true"
    if v is False:
        return "false"
    t = v[0]
    if t == "num":
        return v[1]
    if t == "str":
        return feel_string(v[1], style)
    if t == "list":
        return "[" + ", ".join(feel_literal(x, style) for x in v[1]) + "]"
    if t == "ctx":
        parts = []
        for key, x in v[1]:
            bare = style != "json" and key in WORDS
            parts.append("%s: %s" % (key if bare else feel_string(key, style), feel_literal(x, style)))
        return "{" + ", ".join(parts) + "}"
    if t == "feel":
        return v[1]
    raise ValueError(v)


def has_escapable(v):
    if isinstance(v, list):
        if v[0] == "str":
            return J.needs_escape(v[1])
        if v[0] == "list":
            return any(has_escapable(x) for x in v[1])
        if v[0] == "ctx":
            return any(J.needs_escape(k) or has_escapable(x) for k, x in v[1])
    return False


def make_echo_case(v, style, invocable, ctype="application/json"):
    lit = feel_literal(v, style)
    param = "s" if invocable == "Greeting" else "v"
    key = feel_string(param, "raw") if style == "json" else param
    return {"value": v, "literal": lit, "invocable": invocable, "body": "{%s: %s}" % (key, lit), "style": style, "ctype": ctype}


def gen_echo(src):
    v = gen_value(src)
    style = src.weighted([(5, "raw"), (2, "escaped"), (2, "json")])
    if isinstance(v, list) and v[0] == "str":
        inv = src.weighted([(6, "Echo"), (2, "Wrap"), (2, "Greeting")])
    else:
        inv = src.weighted([(7, "Echo"), (3, "Wrap")])
    ctype = src.weighted([(6, "application/json"), (2, "text/plain"), (1, None)])
    return make_echo_case(v, style, inv, ctype)


TEMPORALS = ['date("2021-01-02")', 'time("10:11:12")', 'date and time("2021-01-02T10:11:12Z")', 'duration("P1DT2H")', 'duration("P1Y2M")',
             '[1..5]', '[date("2021-01-02"), 1]', '{when: time("23:59:59+02:00")}',
             # values without a JSON counterpart whose own text contains quotation marks or backslashes
             '["a".."k"]', '("A".."C")', '[["a".."z"]]', '{grades: ["A".."F"], points: [0..100]}', '["a\\"b".."c\\\\d"]',
             '[date("2021-01-02")..date("2021-12-31")]', '(duration("P1D")..duration("P2D")]', '["é".."\\U01F600"]']


def echo_corners():
    """deterministic corner values, simplest first"""
    for s in ["", "a", "Hello John Doe", '"', "\\", 'a"b', "a\\b", '\\"', "\\u0041", "\\n", "/", "</script>"]:
        yield make_echo_case(["str", s], "raw", "Echo")
    for c in CONTROLS:
        yield make_echo_case(["str", "a" + c + "b"], "raw", "Echo")
    for c in NONASCII + ASTRAL:
        yield make_echo_case(["str", c], "raw", "Echo")
        yield make_echo_case(["str", c], "escaped", "Echo")
    for s in ['"', "a\tb", "é", 'x", "y": "z']:
        yield make_echo_case(["str", s], "raw", "Greeting")
        yield make_echo_case(["str", s], "raw", "Wrap")
    for k in WORDS + ODD_KEYS:
        yield make_echo_case(["ctx", [[k, ["num", "1"]]]], "raw", "Echo")
    for n in ["0", "-0", "1", "-1", "1.50", "0.1", "-0.00000015", "0.000000000000000000001", "1000000000000000000000000000000000",
              "9999999999999999999999999999999999", "123456789.123456789", "00012", ".5", "100.00"]:
        yield make_echo_case(["num", n], "raw", "Echo")
    for v in [None, True, False, ["list", []], ["ctx", []], ["list", [["list", []], ["ctx", []]]], ["list", [None, True, ["num", "1"], ["str", "x"]]],
              ["ctx", [["a", ["ctx", [["b", ["ctx", [["c", ["list", [["str", '"']]]]]]]]]]]]]:
        yield make_echo_case(v, "raw", "Echo")
        yield make_echo_case(v, "json", "Wrap")
    for t in TEMPORALS:
        yield make_echo_case(["feel", t], "raw", "Echo")


def reqs_echo(case):
    inputs = [[["v", {"feel": case["literal"]}], ["s", {"feel": case["literal"]}]]]
    return [{"op": "probe", "xml": CM.ECHO_XML, "inputs": inputs, "names": []}]


def ensure_echo(ctx, srv):
    if srv.state == "echo":
        return
    steps = [("/definitions/clear", None), ("/definitions/add", jbody({"content": b64(CM.ECHO_XML)})), ("/definitions/deploy", None)]
    for path, body in steps:
        o = observe(srv.http.request("POST", path, body=body, headers=JSON_CT))
        if o["kind"] != "data":
            raise Inconclusive("C18: could not prepare the echo model (%s): %s" % (path, obs_brief(o)))
    srv.state = "echo"


def value_labels(expected):
    kinds = sorted({J.kind(x) for x in J.walk(expected)})
    return ["has-" + k for k in kinds]


def diagnose_rendering(expected, body):
    """signature of a wrong / unreadable rendering of an evaluated value, narrow: the body is exactly what the known
    unescaped formatting produces for this value."""
    dev = J.deviation_render(expected)
    if dev is not None and body == ('{"data":' + dev + '}').encode("utf-8"):
        if J.has_unlisted_kind(expected):
            return "C18/jsonify-not-implemented"
        if J.has_string_needing_escape(expected):
            return "C18/string-not-escaped"
    return None


def judge_echo(ctx, case, resp, part="echo"):
    srv = server(ctx)
    ensure_echo(ctx, srv)
    r = resp[0] if resp else {}
    rejected = False
    expected = None
    if "results" in r and case["invocable"] in r.get("invocables", []):
        expected = r["results"][r["invocables"].index(case["invocable"]) * 2 + 1]
    elif "error" in r or "panic" in r:
        rejected = True     # the FEEL reader does not take this literal (its business, C06): no evaluated value to compare with
    else:
        raise Inconclusive("C18: driver probe of the echo model failed: %r" % (r,))
    path = "/evaluate/%s/%s" % (seg(CM.ECHO_NAME), seg(case["invocable"]))
    headers = {"Content-Type": case["ctype"]} if case.get("ctype") else {}
    body = case["body"].encode("utf-8")
    what = "POST %s %r" % (path, case["body"][:200])
    rec = srv.http.request("POST", path, body=body, headers=headers)
    if "noanswer" in rec:
        def replay(s2):
            ensure_echo(ctx, s2)
            return s2.http.request("POST", path, body=body, headers=headers, timeout=60).get("noanswer")
        return confirm_no_answer(ctx, srv, what, rec["noanswer"], replay)
    o = observe(rec)
    escapable = expected is not None and J.has_string_needing_escape(expected)
    labels = [part, "style=" + case["style"], "invocable=" + case["invocable"]]
    if rejected:
        labels.append("literal-rejected-by-feel-reader")
    else:
        labels += value_labels(expected)
        if escapable:
            labels.append("string-needs-escaping")
        if J.has_unlisted_kind(expected):
            labels.append("unspecified:unlisted-kind")
    labels.append("answer=" + o["kind"])
    ctx.note(key=[case["invocable"], case["body"]], nontrivial=escapable, labels=labels,
             sample={"request": what[:160], "answer": o.get("text", o.get("why", ""))[:160], "evaluated": canon(expected)[:160]})
    if o["kind"] == "notjson":
        sig = (diagnose_rendering(expected, rec["body"]) if expected is not None else None) or "C18/not-json"
        return Fail(sig, "%s\n  evaluated value (in process): %s\n  answer: %s\n  which is not a well-formed JSON result document: %s" % (
            what, canon(expected)[:400], obs_brief(o), o["why"]))
    if rejected:
        return None
    if o["kind"] == "errors":
        return Fail("C18/error-instead-of-value", "%s\n  evaluates in process to %s\n  but the service answers %s" % (what, canon(expected)[:400], obs_brief(o)))
    m = J.mismatch(o["payload"], expected)
    if m:
        sig = diagnose_rendering(expected, rec["body"]) or "C18/wrong-value"
        return Fail(sig, "%s\n  evaluated value (in process): %s\n  answer: %s\n  decodes to a different value: %s" % (
            what, canon(expected)[:400], obs_brief(o), m))
    return None


def judge_echo_corner(ctx, case, resp):
    return judge_echo(ctx, case, resp, part="echo-corners")


# ------------------------------------------------------------------------------------------------
# part: TCK typed values round trip
# ------------------------------------------------------------------------------------------------

def gen_date(src):
    return "%04d-%02d-%02d" % (src.int(1900, 2100), src.int(1, 12), src.int(1, 28))


def gen_clock(src):
    return "%02d:%02d:%02d" % (src.int(0, 23), src.int(0, 59), src.int(0, 59))


def gen_offset(src):
    return src.weighted([(4, ""), (2, "Z"), (1, "+01:00"), (1, "-05:00"), (1, "+05:30"), (1, "+14:00"), (1, "-11:00")])


def gen_simple(src):
    t = src.weighted([(6, "xsd:string"), (3, "xsd:decimal"), (1, "xsd:integer"), (1, "xsd:double"), (2, "xsd:boolean"), (1, "xsd:date"),
                      (1, "xsd:time"), (1, "xsd:dateTime"), (1, "xsd:duration")])
    if t == "xsd:string":
        return ["simple", t, gen_string(src)]
    if t == "xsd:decimal":
        return ["simple", t, gen_number_text(src)]
    if t == "xsd:integer":
        return ["simple", t, ("-" if src.bool(0.3) else "") + str(src.int(0, 10 ** 12))]
    if t == "xsd:double":
        return ["simple", t, "%s%d.%sE%s%d" % ("-" if src.bool(0.3) else "", src.int(1, 9), src.digits(src.int(1, 6)), src.choice(["", "+", "-"]), src.int(0, 20))]
    if t == "xsd:boolean":
        return ["simple", t, src.weighted([(3, "true"), (3, "false"), (1, "1"), (1, "0")])]
    if t == "xsd:date":
        return ["simple", t, gen_date(src)]
    if t == "xsd:time":
        return ["simple", t, gen_clock(src) + gen_offset(src)]
    if t == "xsd:dateTime":
        return ["simple", t, gen_date(src) + "T" + gen_clock(src) + gen_offset(src)]
    if src.bool(0.4):
        # years and months: both fields, years only, months only (normalised: months below 12)
        y, m = src.weighted([(2, None), (1, 0)]), src.weighted([(2, None), (1, 0)])
        y = src.int(1, 50) if y is None else y
        m = src.int(1, 11) if m is None else m
        if y == 0 and m == 0:
            y = 1
        return ["simple", t, ("-" if src.bool(0.2) else "") + "P" + ("%dY" % y if y else "") + ("%dM" % m if m else "")]
    # days and time: every non-empty subset of the four fields (a whole number of days has no time part at all), normalised
    present = [src.bool(0.5) for _ in range(4)]
    if not any(present):
        present[src.int(0, 3)] = True
    d = src.int(1, 400) if present[0] else 0
    hh = src.int(1, 23) if present[1] else 0
    mm = src.int(1, 59) if present[2] else 0
    ss = src.int(1, 59) if present[3] else 0
    frac = ""
    if src.bool(0.15):
        frac = "." + src.choice(["5", "25", "001", "123456789", "000000001"])
    tpart = ("%dH" % hh if hh else "") + ("%dM" % mm if mm else "") + ("%d%sS" % (ss, frac) if (ss or frac) else "")
    return ["simple", t, ("-" if src.bool(0.2) else "") + "P" + ("%dD" % d if d else "") + ("T" + tpart if tpart else "")]


COMPONENT_NAMES = ["a", "b", "name", "Full Name", "x1", "Monthly Salary", "id", "k_1"]


def gen_typed(src, depth=0):
    kinds = [(7, "simple"), (1, "nil"), (1, "nil-other")]
    if depth < 3:
        kinds += [(2, "list"), (2, "ctx")]
    k = src.weighted(kinds)
    if k == "simple":
        return gen_simple(src)
    if k == "nil":
        return ["nil"]
    if k == "nil-other":
        # the other spellings of null the format has: a nil list (<list xsi:nil="true"/>), a nil simple value that still names its type
        return [src.choice(["nill", "nilt"])]
    if k == "list":
        return ["list", [gen_typed(src, depth + 1) for _ in range(src.int(0, 4))]]
    names = src.sample(COMPONENT_NAMES, src.int(0, 4))
    return ["ctx", [[n, (["nilc"] if src.bool(0.1) else gen_typed(src, depth + 1))] for n in names]]


def gen_tck(src):
    return {"value": gen_typed(src), "invocable": src.weighted([(8, "Echo"), (2, "Wrap")])}


def typed_has_escapable(v):
    if v[0] == "simple":
        return v[1] == "xsd:string" and J.needs_escape(v[2])
    if v[0] == "list":
        return any(typed_has_escapable(x) for x in v[1])
    if v[0] == "ctx":
        return any(typed_has_escapable(x) for _, x in v[1])
    return False


def typed_kinds(v, out):
    out.add(v[1] if v[0] == "simple" else v[0])
    if v[0] == "list":
        for x in v[1]:
            typed_kinds(x, out)
    if v[0] == "ctx":
        for _, x in v[1]:
            typed_kinds(x, out)
    return out


def judge_tck(ctx, case, _resp):
    srv = server(ctx)
    ensure_echo(ctx, srv)
    v = case["value"]
    body = jbody({"model": CM.ECHO_NAME, "invocable": case["invocable"], "input": [{"name": "v", "value": J.to_dto(v)}]})
    what = "POST /tck/evaluate %s" % body.decode("ascii")[:400]
    rec = srv.http.request("POST", "/tck/evaluate", body=body, headers=JSON_CT)
    if "noanswer" in rec:
        def replay(s2):
            ensure_echo(ctx, s2)
            return s2.http.request("POST", "/tck/evaluate", body=body, headers=JSON_CT, timeout=60).get("noanswer")
        return confirm_no_answer(ctx, srv, what, rec["noanswer"], replay)
    o = observe(rec)
    sent = J.norm_sent(v)
    if case["invocable"] == "Wrap":
        sent = ("context", {"value": sent, "twice": ("list", [sent, sent])})
    ctx.note(key=["tck", canon(case)], nontrivial=typed_has_escapable(v), labels=["tck", "invocable=" + case["invocable"], "answer=" + o["kind"]]
             + sorted(typed_kinds(v, set())), sample={"request": what[:200], "answer": o.get("text", "")[:200]})
    if o["kind"] == "notjson":
        return Fail("C18/tck-not-json", "%s\n  answer: %s\n  is not a well-formed JSON result document: %s" % (what, obs_brief(o), o["why"]))
    if o["kind"] == "errors":
        return Fail("C18/tck-error-instead-of-value", "%s\n  a valid typed value is answered by %s" % (what, obs_brief(o)))
    payload = o["payload"]
    if not isinstance(payload, dict) or "value" not in payload:
        return Fail("C18/tck-shape", "%s\n  data has no value member: %s" % (what, obs_brief(o)))
    try:
        got = J.norm_received(payload["value"])
    except J.BadDto as e:
        return Fail("C18/tck-shape", "%s\n  answer %s\n  is not a TCK value: %s" % (what, obs_brief(o), e))
    if not J.same_typed(sent, got):
        return Fail("C18/tck-round-trip", "%s\n  sent value denotes %r\n  received      %r\n  answer: %s" % (what, sent, got, obs_brief(o)))
    # the other direction of "sent and received round-trip unchanged": what the service answered, sent back as it is, is answered alike
    body2 = jbody({"model": CM.ECHO_NAME, "invocable": "Echo", "input": [{"name": "v", "value": payload["value"]}]})
    rec2 = srv.http.request("POST", "/tck/evaluate", body=body2, headers=JSON_CT)
    if "noanswer" in rec2:
        return None          # decided by the first request's protocol when it happens there; a lost second answer is not judged
    o2 = observe(rec2)
    what2 = "POST /tck/evaluate %s  (the value member of the answer to %s)" % (body2.decode("ascii")[:300], what[:200])
    if o2["kind"] != "data" or not isinstance(o2["payload"], dict) or "value" not in o2["payload"]:
        return Fail("C18/tck-answer-not-accepted-back", "%s\n  is answered by %s" % (what2, obs_brief(o2)))
    try:
        got2 = J.norm_received(o2["payload"]["value"])
    except J.BadDto as e:
        return Fail("C18/tck-shape", "%s\n  answer %s\n  is not a TCK value: %s" % (what2, obs_brief(o2), e))
    if not J.same_typed(got, got2):
        return Fail("C18/tck-round-trip", "%s\n  sent value denotes %r\n  received      %r" % (what2, got, got2))
    return None


# ------------------------------------------------------------------------------------------------
# malformed requests
# ------------------------------------------------------------------------------------------------

XML_D = CM.XML["D"]
VALID_ADD_D = jbody({"content": b64(XML_D)})
VALID_REMOVE = jbody({"namespace": "ns3", "name": "c"})
VALID_TCK = jbody({"model": "a", "invocable": "Who", "input": [{"name": "v", "value": {"simple": {"type": "xsd:string", "text": "x", "isNil": False}}}]})


def tck_body(value_dto, name="v", model="a", invocable="Who"):
    return jbody({"model": model, "invocable": invocable, "input": [{"name": name, "value": value_dto}]})


def simple_dto(typ, text):
    return {"simple": {"type": typ, "text": text, "isNil": False}}


def _faults():
    """name -> (method, path, headers, body, expectation). Expectations: "errors" (a JSON errors document), "errors-or-null"
    (unknown invocable of a deployed model: null data or errors), "any" (any well-formed result document), "errors-or-silence" (the oversized upload: the server may
    close the connection while we are still sending, the answer can be lost in transport)."""
    F = {}
    add, rep, rem, tck = "/definitions/add", "/definitions/replace", "/definitions/remove", "/tck/evaluate"

    def f(name, method, path, headers, body, expect="errors"):
        F[name] = (method, path, headers, body, expect)

    # truncated / empty / wrong top-level JSON
    f("truncated-json-add-half", "POST", add, JSON_CT, VALID_ADD_D[:len(VALID_ADD_D) // 2])
    f("truncated-json-add-brace", "POST", add, JSON_CT, b"{")
    f("truncated-json-add-last", "POST", add, JSON_CT, VALID_ADD_D[:-1])
    f("truncated-json-replace", "POST", rep, JSON_CT, VALID_ADD_D[:-2])
    f("truncated-json-remove", "POST", rem, JSON_CT, b'{"namespace": "ns3", "name": ')
    f("truncated-json-tck", "POST", tck, JSON_CT, VALID_TCK[:len(VALID_TCK) - 7])
    f("empty-body-add", "POST", add, JSON_CT, b"")
    f("empty-body-replace", "POST", rep, JSON_CT, b"")
    f("empty-body-remove", "POST", rem, JSON_CT, b"")
    f("empty-body-tck", "POST", tck, JSON_CT, b"")
    f("json-null-add", "POST", add, JSON_CT, b"null")
    f("json-array-add", "POST", add, JSON_CT, b"[]")
    f("json-string-remove", "POST", rem, JSON_CT, b'"x"')
    f("json-trailing-garbage-add", "POST", add, JSON_CT, VALID_ADD_D + b"}")
    f("json-duplicate-key-add", "POST", add, JSON_CT, b'{"content": "QQ==", "content": "QQ=="}')
    # wrong field types, missing fields
    f("wrong-type-content-int", "POST", add, JSON_CT, b'{"content": 5}')
    f("wrong-type-content-list", "POST", add, JSON_CT, b'{"content": ["x"]}')
    f("wrong-type-content-object-replace", "POST", rep, JSON_CT, b'{"content": {}}')
    f("wrong-type-remove", "POST", rem, JSON_CT, b'{"namespace": 1, "name": true}')
    f("wrong-type-tck-input", "POST", tck, JSON_CT, b'{"model": "a", "invocable": "Who", "input": "x"}')
    f("wrong-type-tck-input-item", "POST", tck, JSON_CT, b'{"model": "a", "invocable": "Who", "input": [1]}')
    f("wrong-type-tck-isnil", "POST", tck, JSON_CT, tck_body({"simple": {"type": "xsd:string", "text": "x", "isNil": "no"}}))
    f("missing-content-add", "POST", add, JSON_CT, b"{}")
    f("null-content-add", "POST", add, JSON_CT, b'{"content": null}')
    f("missing-content-replace", "POST", rep, JSON_CT, b"{}")
    f("missing-namespace-remove", "POST", rem, JSON_CT, b'{"name": "c"}')
    f("missing-name-remove", "POST", rem, JSON_CT, b'{"namespace": "ns3"}')
    f("missing-isnil-tck", "POST", tck, JSON_CT, tck_body({"simple": {"type": "xsd:string", "text": "x"}}))
    f("missing-model-tck", "POST", tck, JSON_CT, b'{"invocable": "Who", "input": []}')
    f("missing-invocable-tck", "POST", tck, JSON_CT, b'{"model": "a", "input": []}')
    f("missing-input-tck", "POST", tck, JSON_CT, b'{"model": "a", "invocable": "Who"}')
    f("missing-value-tck", "POST", tck, JSON_CT, b'{"model": "a", "invocable": "Who", "input": [{"name": "v"}]}')
    # base64 / UTF-8 / XML
    f("bad-base64-chars", "POST", add, JSON_CT, b'{"content": "!!!"}')
    f("bad-base64-length", "POST", add, JSON_CT, b'{"content": "A"}')
    f("bad-base64-padding", "POST", add, JSON_CT, b'{"content": "QUJD="}')
    f("bad-base64-replace", "POST", rep, JSON_CT, b'{"content": "***"}')
    f("base64-of-invalid-utf8", "POST", add, JSON_CT, jbody({"content": b64(b"\xff\xfe<definitions/>")}))
    f("base64-of-truncated-utf8", "POST", add, JSON_CT, jbody({"content": b64(XML_D.replace("ns3", "nsé").encode("utf-8")[:70])}))
    f("base64-of-invalid-utf8-replace", "POST", rep, JSON_CT, jbody({"content": b64(b"\xc3\x28")}))
    f("not-xml", "POST", add, JSON_CT, jbody({"content": b64("hello")}))
    f("not-xml-replace", "POST", rep, JSON_CT, jbody({"content": b64("{}")}))
    f("xml-empty", "POST", add, JSON_CT, jbody({"content": ""}))
    f("xml-not-dmn", "POST", add, JSON_CT, jbody({"content": b64("<a><b/></a>")}))
    f("xml-truncated", "POST", add, JSON_CT, jbody({"content": b64(XML_D[:len(XML_D) // 2])}))
    f("xml-undefined-entity", "POST", add, JSON_CT, jbody({"content": b64(XML_D.replace('"D"', "&nope;"))}))
    f("dmn-without-namespace", "POST", add, JSON_CT, jbody({"content": b64(XML_D.replace(' namespace="ns3"', ""))}))
    f("dmn-without-name", "POST", add, JSON_CT, jbody({"content": b64(XML_D.replace(' name="c" id="_model"', ' id="_model"'))}))
    f("oversized-add", "POST", add, JSON_CT, b'{"content": "' + b"A" * (4 * 1024 * 1024 + 16) + b'"}', "errors-or-silence")
    # content type, body encoding
    f("content-type-text-plain", "POST", add, {"Content-Type": "text/plain"}, VALID_ADD_D)
    f("content-type-missing", "POST", add, {}, VALID_ADD_D)
    f("content-type-xml", "POST", add, {"Content-Type": "application/xml"}, XML_D.encode("utf-8"))
    f("content-type-form-remove", "POST", rem, {"Content-Type": "application/x-www-form-urlencoded"}, b"namespace=ns3&name=c")
    f("content-type-text-plain-tck", "POST", tck, {"Content-Type": "text/plain"}, VALID_TCK)
    f("invalid-utf8-body-add", "POST", add, JSON_CT, b'{"content": "\xff\xfe"}')
    f("invalid-utf8-body-remove", "POST", rem, JSON_CT, b'{"namespace": "\xc3\x28", "name": "c"}')
    f("invalid-utf8-body-tck", "POST", tck, JSON_CT, VALID_TCK.replace(b'"x"', b'"\xed\xa0\x80"'))
    f("invalid-utf8-body-evaluate", "POST", "/evaluate/a/Who", JSON_CT, b'{v: "\xff\xfe"}')
    f("evaluate-body-300k", "POST", "/evaluate/a/Who", JSON_CT, b'{v: "' + b"a" * 300000 + b'"}', "any")   # a valid, large request
    f("oversized-evaluate", "POST", "/evaluate/a/Who", JSON_CT, b'{v: "' + b"a" * (4 * 1024 * 1024 + 16) + b'"}', "errors-or-silence")
    # unknown model / invocable / path / method
    f("unknown-model-evaluate", "POST", "/evaluate/nomodel/Who", JSON_CT, b"{}")
    f("unknown-model-tck", "POST", tck, JSON_CT, tck_body(simple_dto("xsd:string", "x"), model="nomodel"))
    f("unknown-invocable-evaluate", "POST", "/evaluate/a/Nope", JSON_CT, b"{}", "errors-or-null")
    f("unknown-invocable-tck", "POST", tck, JSON_CT, tck_body(simple_dto("xsd:string", "x"), invocable="Nope"), "errors-or-null")
    # long and non-ASCII names of things that do not exist (they are quoted in messages that are cut to a maximum length): 2-, 3- and
    # 4-byte characters at every alignment
    for j, (ch, cnt) in enumerate((("\u017c", 600), ("\u20ac", 400), ("\U0001f600", 300), ("z", 1200))):
        for pad in range(4):
            nm = "a" * pad + ch * cnt
            f("unknown-long-invocable-evaluate-%d-%d" % (j, pad), "POST", "/evaluate/a/" + seg(nm), JSON_CT, b"{}", "errors-or-null")
            if pad == 0:
                f("unknown-long-invocable-tck-%d" % j, "POST", tck, JSON_CT, tck_body(simple_dto("xsd:string", "x"), invocable=nm), "errors-or-null")
                f("unknown-long-model-evaluate-%d" % j, "POST", "/evaluate/" + seg(nm) + "/Who", JSON_CT, b"{}")
    f("unknown-path-get", "GET", "/nope", {}, None)
    f("unknown-path-post", "POST", "/definitions/nope", JSON_CT, b"{}")
    f("get-on-post-endpoint", "GET", add, {}, None)
    f("post-on-get-endpoint", "POST", "/system/info", JSON_CT, b"{}")
    f("delete-clear", "DELETE", "/definitions/clear", {}, None)
    f("put-add", "PUT", add, JSON_CT, VALID_ADD_D)
    f("evaluate-one-segment", "POST", "/evaluate/a", JSON_CT, b"{}")
    f("evaluate-three-segments", "POST", "/evaluate/a/Who/x", JSON_CT, b"{}")
    f("evaluate-percent-invalid-utf8", "POST", "/evaluate/%ff%fe/Who", JSON_CT, b"{}")
    f("evaluate-percent-slash", "POST", "/evaluate/a%2Fb/Who", JSON_CT, b"{}")
    f("evaluate-percent-nul", "POST", "/evaluate/a%00/Who", JSON_CT, b"{}")
    f("root-path", "GET", "/", {}, None)
    # malformed FEEL input of /evaluate
    f("bad-feel-open-context", "POST", "/evaluate/a/Who", JSON_CT, b"{v: ")
    f("bad-feel-empty", "POST", "/evaluate/a/Who", JSON_CT, b"")
    f("bad-feel-expression", "POST", "/evaluate/a/Who", JSON_CT, b"1 +")
    f("bad-feel-not-a-context", "POST", "/evaluate/a/Who", JSON_CT, b"[1, 2]")
    f("bad-feel-json-hole", "POST", "/evaluate/a/Who", JSON_CT, b'{"v": }')
    f("bad-feel-quote", "POST", "/evaluate/a/Who", JSON_CT, b'{v: "abc}')
    f("bad-feel-binary", "POST", "/evaluate/a/Who", JSON_CT, bytes(range(1, 32)))
    # malformed typed values
    f("tck-unrecognized-type", "POST", tck, JSON_CT, tck_body(simple_dto("xsd:foo", "x")))
    f("tck-bad-decimal", "POST", tck, JSON_CT, tck_body(simple_dto("xsd:decimal", "abc")))
    f("tck-bad-date", "POST", tck, JSON_CT, tck_body(simple_dto("xsd:date", "2021-13-45")))
    f("tck-bad-boolean", "POST", tck, JSON_CT, tck_body(simple_dto("xsd:boolean", "maybe")))
    f("tck-bad-duration", "POST", tck, JSON_CT, tck_body(simple_dto("xsd:duration", "P")))
    f("tck-bad-time", "POST", tck, JSON_CT, tck_body(simple_dto("xsd:time", "25:61:61")))
    f("tck-bad-datetime", "POST", tck, JSON_CT, tck_body(simple_dto("xsd:dateTime", "yesterday")))
    f("tck-empty-name", "POST", tck, JSON_CT, tck_body(simple_dto("xsd:string", "x"), name=""))
    f("tck-odd-name", "POST", tck, JSON_CT, tck_body(simple_dto("xsd:string", "x"), name="a +"), "any")  # the longest-name reader takes `a`
    f("tck-empty-value", "POST", tck, JSON_CT, tck_body({}))
    f("tck-simple-without-type", "POST", tck, JSON_CT, tck_body({"simple": {"text": "x", "isNil": False}}))
    f("tck-component-without-name", "POST", tck, JSON_CT, tck_body({"components": [{"value": simple_dto("xsd:string", "x"), "isNil": False}]}))
    f("tck-component-without-value", "POST", tck, JSON_CT, tck_body({"components": [{"name": "a", "isNil": False}]}))
    f("tck-list-without-items", "POST", tck, JSON_CT, tck_body({"list": {"isNil": False}}))
    return F


FAULTS = _faults()
FAULT_NAMES = list(FAULTS)

KNOWN_PLAIN_TEXT = {
    # fault name -> (signature, status, body) of the plain-text answers actix gives for the String body extractor
    "invalid-utf8-body-evaluate": ("C18/evaluate-non-utf8-body-plain-text-answer", 400, b"Can not decode body"),
    "evaluate-body-300k": ("C18/evaluate-large-body-plain-text-answer", 413, b"A payload reached size limit."),
    "oversized-evaluate": ("C18/evaluate-large-body-plain-text-answer", 413, b"A payload reached size limit."),
}


# ------------------------------------------------------------------------------------------------
# histories
# ------------------------------------------------------------------------------------------------

class RefModel(WR.Model):
    """C17's reference workspace plus one more *deviation* used only for diagnosis: /definitions/replace behaving as add."""

    def replace(self, tag):
        if "replace-is-add" in self.dev:
            return self.add(tag)
        return WR.Model.replace(self, tag)

    def add(self, tag):
        if self.dev and "remove-or" not in self.dev:
            # deviation without index drift: the indexes are the list's
            self.idx_ns = set(m[0] for m in self.list)
            self.idx_name = set(m[1] for m in self.list)
        return WR.Model.add(self, tag)


CANDIDATES = [
    # (label, dev, reading, signature when this candidate is the one that explains the history)
    ("reference (remove designates the model with both keys)", frozenset(), "exact", None),
    ("reference (remove designates every model with either key)", frozenset(), "either", None),
    ("deviation: replace behaves as add", frozenset(["replace-is-add"]), "exact", "C18/replace-calls-add"),
    ("deviation: replace behaves as add", frozenset(["replace-is-add"]), "either", "C18/replace-calls-add"),
    ("deviation: C17's remove drift", frozenset(["remove-or"]), "exact", "C18/workspace-remove-drift"),
    ("deviation: replace behaves as add + C17's remove drift", frozenset(["replace-is-add", "remove-or"]), "exact", "both"),
]

SUFFIX = ([["deploy"]] + [["eval", n, CM.INVOCABLE] for n in CM.EVAL_NAMES] + [["tck", n, CM.INVOCABLE] for n in CM.EVAL_NAMES] +
          [["add", t] for t in CM.TAGS])


def gen_ops(src):
    n = src.int(2, 24)
    ops = []
    for _ in range(n):
        k = src.weighted([(6, "add"), (5, "replace"), (4, "remove"), (1, "clear"), (4, "deploy"), (4, "eval"), (3, "tck"), (4, "fault"), (1, "info")])
        if k in ("add", "replace"):
            ops.append([k, src.choice(CM.TAGS)])
        elif k == "remove":
            key = src.choice(CM.REMOVE_KEYS[:5]) if src.bool(0.6) else src.choice(CM.REMOVE_KEYS)
            ops.append(["remove", key[0], key[1]])
        elif k in ("eval", "tck"):
            ops.append([k, src.choice(CM.EVAL_NAMES), CM.INVOCABLE if not src.bool(0.1) else "Nope"])
        elif k == "fault":
            ops.append(["fault", src.choice(FAULT_NAMES)])
        else:
            ops.append([k])
    return {"ops": ops}


def fault_histories():
    for name in FAULT_NAMES:
        yield {"ops": [["add", "A"], ["deploy"], ["eval", "a", CM.INVOCABLE], ["fault", name], ["info"], ["eval", "a", CM.INVOCABLE],
                       ["add", "B"], ["fault", name], ["tck", "a", CM.INVOCABLE]]}


def finding_histories():
    """minimal histories of the workspace findings (open or fixed), judged on every run"""
    yield {"ops": [["add", "A"], ["replace", "A2"], ["deploy"], ["eval", "a", CM.INVOCABLE]]}          # replace-calls-add
    yield {"ops": [["add", "B"], ["replace", "A"]]}
    yield {"ops": [["add", "A"], ["remove", "ns1", "b"], ["add", "C"]]}                                # remove drift (C17), fixed 5c19eae
    yield {"ops": [["add", "A"], ["remove", "ns2", "a"], ["add", "B"]]}
    yield {"ops": [["add", "B"], ["add", "C"], ["remove", "ns1", "a"], ["deploy"], ["eval", "b", CM.INVOCABLE], ["eval", "a", CM.INVOCABLE]]}


def send_op(srv, op, timeout=None):
    k = op[0]
    H = srv.http
    if k in ("add", "replace"):
        return H.request("POST", "/definitions/" + k, body=jbody({"content": b64(CM.XML[op[1]])}), headers=JSON_CT, timeout=timeout)
    if k == "remove":
        return H.request("POST", "/definitions/remove", body=jbody({"namespace": op[1], "name": op[2]}), headers=JSON_CT, timeout=timeout)
    if k in ("clear", "deploy"):
        return H.request("POST", "/definitions/" + k, body=None, headers=JSON_CT, timeout=timeout)
    if k == "eval":
        return H.request("POST", "/evaluate/%s/%s" % (seg(op[1]), seg(op[2])), body=b"{}", headers=JSON_CT, timeout=timeout)
    if k == "tck":
        return H.request("POST", "/tck/evaluate", body=jbody({"model": op[1], "invocable": op[2], "input": []}), headers=JSON_CT, timeout=timeout)
    if k == "info":
        return H.request("GET", "/system/info", timeout=timeout)
    if k == "fault":
        method, path, headers, body, expect = FAULTS[op[1]]
        if expect == "errors-or-silence":
            H.close()
            return send_oversized(srv.port, method, path, headers, body, timeout or H.timeout)
        rec = H.request(method, path, body=body, headers=headers, timeout=timeout)
        H.close()   # the server may answer a malformed request without reading its body and then reset the connection
        return rec
    raise ValueError(op)


def send_oversized(port, method, path, headers, body, timeout):
    """An upload above the limit on its own connection. The declared Content-Length alone lets the server answer, and it
    then stops reading (a client that insists on sending everything blocks until the server's 5 s shutdown timer): send
    the head and the first 64 KiB, take the answer if it comes within a second, otherwise send the rest and wait."""
    import socket
    try:
        sock = socket.create_connection(("127.0.0.1", port), timeout=timeout)
    except OSError as e:
        return {"noanswer": "connect: %r" % (e,)}
    try:
        head = ["%s %s HTTP/1.1" % (method, path), "Host: 127.0.0.1:%d" % port, "Content-Length: %d" % len(body), "Connection: close"]
        head += ["%s: %s" % kv for kv in (headers or {}).items()]
        sock.sendall(("\r\n".join(head) + "\r\n\r\n").encode("ascii") + body[:65536])
        r, _, _ = select.select([sock], [], [], 1.0)
        if not r:
            sock.sendall(body[65536:])
        resp = http.client.HTTPResponse(sock, method=method)
        resp.begin()
        data = resp.read()
        return {"status": resp.status, "ctype": resp.getheader("content-type"), "body": data}
    except (OSError, http.client.HTTPException) as e:
        return {"noanswer": repr(e)}
    finally:
        try:
            sock.close()
        except OSError:
            pass


def predict(model, op):
    """expected answer class of a valid op under `model` (and the model's state transition)"""
    k = op[0]
    if k in ("add", "replace", "remove", "clear", "deploy"):
        r = model.apply(op if k != "remove" else ["remove", op[1], op[2]])
        if r[0] == "ok":
            return ("ok",) if k != "add" else ("added", CM.MODELS[op[1]][0], CM.MODELS[op[1]][1])
        return ("rejected", r[1])
    if k in ("eval", "tck"):
        r = model.evaluate(op[1])
        if r[0] == "value":
            return ("value", r[1]) if op[2] == CM.INVOCABLE else ("null-or-errors",)
        return ("errors",)
    if k == "info":
        return ("info",)
    if k == "fault":
        return ("fault", FAULTS[op[1]][4])
    raise ValueError(op)


def reason_of(details):
    d = " ".join(details)
    if "with namespace" in d and "already exist" in d:
        return "namespace"
    if "with name" in d and "already exist" in d:
        return "name"
    return "other"


def agrees(exp, op, o):
    """does the observation fit the expectation? (well-formedness has been checked before)"""
    kind = o["kind"]
    e = exp[0]
    if e == "ok":
        return kind == "data" and isinstance(o["payload"], dict) and isinstance(o["payload"].get("status"), str)
    if e == "added":
        return kind == "data" and o["payload"] == {"namespace": exp[1], "name": exp[2]}
    if e == "rejected":
        return kind == "errors" and reason_of(o["payload"]) in exp[1]
    if e == "errors":
        return kind == "errors"
    if e == "null-or-errors":
        if kind == "errors":
            return True
        return kind == "data" and (o["payload"] is None if op[0] == "eval" else tck_is(o["payload"], ("null",)))
    if e == "value":
        if kind != "data":
            return False
        if op[0] == "eval":
            return o["payload"] == exp[1]
        return tck_is(o["payload"], ("string", exp[1]))
    if e == "info":
        p = o.get("payload")
        return kind == "data" and isinstance(p, dict) and all(isinstance(p.get(x), str) and p.get(x) for x in ("name", "version", "copyright"))
    if e == "fault":
        if exp[1] == "any":
            return kind in ("data", "errors")
        if exp[1] == "errors-or-silence" and kind == "noanswer":
            return True
        if exp[1] == "errors-or-null" and kind == "data":
            return o["payload"] is None or tck_is(o["payload"], ("null",))
        return kind == "errors"
    return False


def tck_is(payload, normal):
    try:
        return isinstance(payload, dict) and "value" in payload and J.norm_received(payload["value"]) == normal
    except J.BadDto:
        return False


def describe(exp):
    return {"ok": "a data document with a status", "added": "data {namespace, name} of the added model", "rejected": "an errors document (already exists)",
            "errors": "an errors document", "null-or-errors": "null data or an errors document", "value": "data = the deployed model's value",
            "info": "data {name, version, copyright}", "fault": "an errors document"}[exp[0]] + ("" if len(exp) == 1 else " %r" % (exp[1:],))


def run_history(ctx, srv, ops, confirming=False):
    """sends clear + ops (+ suffix); returns the list of (op, observation) or a Fail for an unanswered request"""
    seq = [["clear"]] + ops + SUFFIX
    out = []
    srv.state = None
    for i, op in enumerate(seq):
        rec = send_op(srv, op, timeout=60 if confirming else None)
        if "noanswer" in rec and not (op[0] == "fault" and FAULTS[op[1]][4] == "errors-or-silence"):
            if confirming:
                return None, (i, rec["noanswer"])

            def replay(s2, at=i):
                _, r = run_history(ctx, s2, ops, confirming=True)
                return r[1] if (r is not None and r[0] == at) else None
            f = confirm_no_answer(ctx, srv, "step %d %r of the history %r" % (i, op, seq[:i + 1]), rec["noanswer"], replay)
            return None, f
        o = observe(rec)
        if op[0] == "fault" and FAULTS[op[1]][4] == "errors-or-silence":
            srv.http.close()
        out.append((op, o))
    return out, None


def wellformed_failure(op, o, i):
    """signature + message when answer i is not a well-formed JSON result document"""
    if o["kind"] != "notjson":
        return None
    if op[0] == "fault" and op[1] in KNOWN_PLAIN_TEXT:
        sig, status, body = KNOWN_PLAIN_TEXT[op[1]]
        if o["status"] == status and o["raw"] == body and (o["ctype"] or "").startswith("text/plain"):
            return Fail(sig, "step %d, malformed request %s (%s %s): answered by %s, not by a JSON errors document" % (
                i, op[1], FAULTS[op[1]][0], FAULTS[op[1]][1], obs_brief(o)))
    name = op[1] if op[0] == "fault" else op[0]
    return Fail("C18/not-json/" + name, "step %d %r: answer %s is not a well-formed JSON result document: %s" % (i, op, obs_brief(o), o["why"]))


def has_fault_between_valid(ops):
    idx = [i for i, op in enumerate(ops) if op[0] == "fault"]
    return any(0 < i < len(ops) - 1 for i in idx)


def replaces_existing(ops):
    m = RefModel()
    for op in ops:
        if op[0] == "replace":
            ns, name = CM.MODELS[op[1]][0], CM.MODELS[op[1]][1]
            if any(x[0] == ns and x[1] == name for x in m.list):
                return True
        if op[0] in ("add", "replace", "remove", "clear", "deploy"):
            m.apply(op)
    return False


def judge_history(ctx, case, _resp, part="history"):
    srv = server(ctx)
    ops = case["ops"]
    obs, f = run_history(ctx, srv, ops)
    if f is not None:
        return f
    full = [o[0] for o in obs]
    nfaults = sum(1 for op in ops if op[0] == "fault")
    labels = [part, "len=%s" % ("1-5" if len(ops) <= 5 else "6-12" if len(ops) <= 12 else "13+")]
    labels += sorted({"op=" + op[0] for op in ops}) + sorted({"fault=" + op[1] for op in ops if op[0] == "fault"})
    nt = has_fault_between_valid(ops) or replaces_existing(ops)
    if replaces_existing(ops):
        labels.append("replace-of-existing")
    if nfaults:
        labels.append("has-fault")
    ctx.note(key=canon(ops), nontrivial=nt, labels=labels,
             sample={"ops": ops[:12], "answers": [o.get("text", o.get("why", ""))[:80] for _, o in obs[1:1 + min(len(ops), 6)]]})
    ctx.extra["requests_judged"] = ctx.extra.get("requests_judged", 0) + len(obs)
    # (1) every answer is a well-formed JSON result document (known plain-text answers are counted and the search goes on)
    first_unknown = None
    for i, (op, o) in enumerate(obs):
        wf = wellformed_failure(op, o, i)
        if wf is not None:
            if wf.sig in ctx.open_sigs:
                ctx.report(part, case, wf)
            elif first_unknown is None:
                first_unknown = wf
    if first_unknown is not None:
        return first_unknown
    # (3)+(4) the answers are those of the reference workspace under the same operations; malformed requests change nothing
    results = []
    for label, dev, reading, sig in CANDIDATES:
        m = RefModel(dev=dev, reading=reading)
        bad = None
        trig_replace = trig_remove = None
        for i, (op, o) in enumerate(obs):
            if op[0] == "replace" and trig_replace is None:
                trig_replace = i   # every /definitions/replace request is in the trigger set of "replace calls add"
            if op[0] in ("remove", "replace") and trig_remove is None and m.triggers(op if op[0] == "remove" else ["replace", op[1]]):
                trig_remove = i
            exp = predict(m, op)
            if o["kind"] == "notjson":
                continue   # a known plain-text answer, already counted; it changes no state in any model
            if not agrees(exp, op, o):
                bad = (i, exp)
                break
        results.append((label, dev, sig, bad, trig_replace, trig_remove))
    if any(r[3] is None and r[2] is None for r in results):
        return None
    ref_bad = max((r for r in results if r[2] is None), key=lambda r: r[3][0])
    i, exp = ref_bad[3]
    op, o = obs[i]
    msg = ("history %r\n  step %d %r: the reference workspace expects %s\n  the service answers %s" % (full[:i + 1], i, op, describe(exp), obs_brief(o)))
    for label, dev, sig, bad, trig_replace, trig_remove in results:
        if sig is None or bad is not None:
            continue
        # a deviation model predicts every answer of this history: narrow signature, provided the trigger of one of its
        # deviations occurred at or before the first disagreement with the reference; named after the earliest trigger
        trig = []
        if "replace-is-add" in dev and trig_replace is not None:
            trig.append((trig_replace, "C18/replace-calls-add"))
        if "remove-or" in dev and trig_remove is not None:
            trig.append((trig_remove, "C18/workspace-remove-drift"))
        trig.sort()
        if not trig or trig[0][0] > i:
            continue
        sig = trig[0][1]
        return Fail(sig, msg + "\n  every answer of the history is what this model predicts: %s" % label)
    return Fail("C18/workspace-mismatch", msg + "\n  (no known deviation model explains the whole history)")


def judge_faults(ctx, case, _resp):
    return judge_history(ctx, case, _resp, part="faults")


# ------------------------------------------------------------------------------------------------

# ---------------------------------------------------------------------------------------------------------------------
# concurrent clients: evaluations overlapping definitions requests that do not change what is deployed
# ---------------------------------------------------------------------------------------------------------------------

def gen_concurrent(src):
    return {"readers": src.int(2, 6), "evals": src.int(30, 120), "deploys": src.int(5, 40), "tck": src.bool(0.5),
            "writer": src.choice(["deploy", "refused-add", "mixed", "big-refused-add"])}


def judge_concurrent(ctx, case, _resp):
    """models A and D stay stored and deployed the whole time; one client keeps posting /definitions/deploy (which rebuilds the
    same evaluators under the write lock) while several clients evaluate: whatever the interleaving, every evaluation is
    answered with the value some sequential order of the requests gives - and every such order gives "A" / "D" """
    import threading
    srv = server(ctx)
    srv.state = None
    for op in (["clear"], ["add", "A"], ["add", "D"], ["deploy"]):
        o = send_op(srv, op)
        if "status" not in o or o["status"] != 200:
            raise Inconclusive("C18 concurrent: preparing the workspace failed at %r: %r" % (op, o))
    expect = {"a": "A", "c": "D"}
    wrong, lock = [], threading.Lock()

    def reader(k):
        h = Http(srv.port)
        try:
            for i in range(case["evals"]):
                name = "a" if (i + k) % 2 == 0 else "c"
                if case["tck"] and i % 3 == 0:
                    rec = h.request("POST", "/tck/evaluate", body=jbody({"model": name, "invocable": CM.INVOCABLE, "input": []}), headers=JSON_CT)
                    want = None
                else:
                    rec = h.request("POST", "/evaluate/%s/%s" % (name, CM.INVOCABLE), body=b"{}", headers=JSON_CT)
                    want = expect[name]
                body = rec.get("body", b"").decode("utf-8", "replace") if "body" in rec else repr(rec)
                ok = "status" in rec and rec["status"] == 200 and '"errors"' not in body and (want is None or ('"data":"%s"' % want) in body.replace(" ", ""))
                if not ok:
                    with lock:
                        wrong.append((name, body[:300]))
                    return
        finally:
            h.close()

    threads = [threading.Thread(target=reader, args=(k,)) for k in range(case["readers"])]
    for t in threads:
        t.start()
    w = Http(srv.port)
    deploy_bad = None
    writer = case.get("writer", "deploy")
    # requests of the writing client that leave the workspace as it is: deploy (rebuilds the same evaluators), and the add of a model
    # whose namespace is stored already - refused, "a rejected add changes nothing" (also with a long comment appended to the
    # definitions, so that reading the request takes a while)
    add_a = jbody({"content": b64(CM.XML["A"])})
    add_big = jbody({"content": b64(CM.XML["A"] + "<!-- " + "padding " * 40000 + "-->")})
    for i in range(case["deploys"]):
        if writer == "deploy" or (writer == "mixed" and i % 2 == 0):
            rec = w.request("POST", "/definitions/deploy", body=None, headers=JSON_CT)
            if "status" not in rec or rec["status"] != 200:
                deploy_bad = rec
                break
        else:
            rec = w.request("POST", "/definitions/add", body=add_big if writer == "big-refused-add" else add_a, headers=JSON_CT)
            body = rec.get("body", b"").decode("utf-8", "replace") if "body" in rec else repr(rec)
            if '"errors"' not in body:
                deploy_bad = {"add of a stored namespace was not refused": body[:300]}
                break
    w.close()
    for t in threads:
        t.join(timeout=120)
    ctx.note(key=_h(case), nontrivial=True, labels=["concurrent", "readers:%d" % case["readers"], "writer:" + writer],
             sample={"readers": case["readers"], "evaluations per reader": case["evals"], "deploys": case["deploys"]})
    if any(t.is_alive() for t in threads):
        raise Inconclusive("C18 concurrent: a reader did not finish within 120 s")
    if deploy_bad is not None:
        return Fail("C18/concurrent-deploy-failed", "a /definitions/deploy issued while evaluations were running was answered %r" % (deploy_bad,))
    if wrong:
        return Fail("C18/concurrent-evaluation-wrong-answer", "while another client kept sending requests that leave the workspace as it is (%s), evaluating %s/%s "
                    "was answered %s (no sequential order of the requests gives that answer)" % (writer, wrong[0][0], CM.INVOCABLE, wrong[0][1]))
    return None


def setup(ctx):
    ctx.rule = ("cases: (a) echo invocables of a deployed model called through /evaluate with generated strings (quotes, backslashes, control, "
                "non-ASCII, astral characters, JSON fragments), numbers, booleans, nulls, nested lists and contexts (keys with spaces, quotes); "
                "(b) typed TCK values through /tck/evaluate; (c) request histories over the model alphabet A,B,C,A2,D,E mixing definitions "
                "add/replace/remove/clear/deploy, evaluations, /system/info and %d kinds of malformed requests, each followed by an observation "
                "suffix; oracle: strict JSON reader (duplicate keys, NaN/Infinity, trailing data, raw control characters rejected), data xor "
                "errors, data decodes to the value evaluated in process (strings by code point, numbers as Decimal of the exact text), typed "
                "values round-trip, answers equal the reference workspace's (replace = substitute same namespace+name), malformed requests "
                "change nothing and are answered by an errors document. non-trivial: the evaluated value carries a string needing escaping, "
                "or a malformed request sits between two valid ones, or an existing model is replaced; distinct by request sequence" % len(FAULTS))
    ctx.assumptions = ["the evaluated value is the one the same evaluation yields in process (driver probe of the same model and input text)",
                       "kinds the statement does not list for results (temporal, range, function) only need to come back as well-formed JSON",
                       "FEEL has one number type: xsd:integer/xsd:double inputs may come back typed xsd:decimal with an equal value",
                       "an upload over the 4 MiB limit may lose its answer in transport (connection closed while sending); the service must stay up",
                       "a literal the FEEL reader rejects (C06's business) only needs a well-formed errors document"]
    ctx.p_corners = ctx.register(Part("echo-corners", None, reqs_echo, judge_echo_corner))
    ctx.p_echo = ctx.register(Part("echo", gen_echo, reqs_echo, judge_echo))
    ctx.p_tck = ctx.register(Part("tck", gen_tck, lambda case: [], judge_tck))
    ctx.p_faults = ctx.register(Part("faults", None, lambda case: [], judge_faults))
    ctx.p_history = ctx.register(Part("history", gen_ops, lambda case: [], judge_history))
    ctx.p_conc = ctx.register(Part("concurrent", gen_concurrent, lambda case: [], judge_concurrent))


def run(ctx):
    try:
        ctx.enumerate(ctx.p_corners, echo_corners(), batch=100, name="echo corner values (every control character, special keys, number shapes)",
                      exhaustive=True)
        ctx.enumerate(ctx.p_faults, fault_histories(), batch=1, name="every malformed request of the table between valid requests", exhaustive=True)
        ctx.enumerate(ctx.p_history, finding_histories(), batch=1, name="minimal histories of the workspace findings", exhaustive=True)
        ctx.forall(ctx.p_echo, ctx.scale(8000, 900000), batch=200)
        ctx.forall(ctx.p_tck, ctx.scale(5000, 450000), batch=1)
        ctx.forall(ctx.p_history, ctx.scale(4000, 300000), batch=1)
        ctx.forall(ctx.p_conc, ctx.scale(40, 2000), batch=1)
        s = getattr(ctx, "_c18_server", None)
        if s is not None and s.http is not None:
            ctx.extra["http_requests"] = s.http.requests
            ctx.extra["server_starts"] = s.starts
    finally:
        _kill_all()


if __name__ == "__main__":
    sys.exit(main(sys.modules[__name__]))
