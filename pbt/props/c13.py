"""C13 — evaluation is pure: the caller's context is untouched and results are repeatable."""
import sys

from ..engine import Part, Fail, main, h
from .. import val
from ..oracles import feel as F
from ..oracles import feel_gen as GEN

PROP = "C13"
QUICK_WORKERS = 4
PUSHING = {"ctx", "filter", "for", "some", "every", "call", "calln", "fn"}


# ---------------------------------------------------------------------------------------------------------
# part 1: histories of prepared FEEL evaluators over several scopes
# ---------------------------------------------------------------------------------------------------------

def shape(bindings, style):
    """same visible bindings, different stack shapes"""
    b = [[n, w] for n, w in bindings]
    if style == 0 or len(b) < 2:
        return [b]
    if style == 1:
        return [b[: len(b) // 2], b[len(b) // 2:]]
    if style == 2:
        third = max(1, len(b) // 3)
        return [[["junk below", {"n": "1"}]] + b[:third], b[third:2 * third] + [["more junk", None]], b[2 * third:]]
    return [[[n, {"s": "shadowed"}] for n, _ in b], b]


def gen_history(src):
    g = GEN.G(src, wrong=0.08, dup_keys=0.12)
    # one set of names/kinds, several value assignments (so every expression parses the same way in every scope)
    env, names = {}, []
    for name in src.sample(["a", "b", "c", "d", "e", "n", "s", "t", "xs", "ys", "cx", "cy"], src.int(3, 7)):
        env[name] = g.kind(2)
        names.append(name)
    for key in GEN.KEYS:
        env[key] = src.choice([GEN.STR, GEN.BOOL, GEN.NULL])
        names.append(key)
    nscopes = src.int(2, 4)
    scopes = []
    for j in range(nscopes):
        bindings = [[n, g.value(env[n])] for n in names]
        scopes.append(shape(bindings, src.int(0, 3)))
    nexpr = src.int(2, 5)
    exprs = []
    for _ in range(nexpr):
        k = src.weighted([(3, ("list", GEN.NUM)), (2, GEN.NUM), (2, GEN.BOOL), (2, ("ctx", (("k", GEN.NUM), ("m", GEN.STR)))), (1, GEN.STR)])
        ast = g.expr(k, src.int(2, 4), dict(env))
        exprs.append({"text": F.r(ast), "scope": src.int(0, nscopes - 1), "pushes": sorted(F.constructs(ast) & PUSHING)})
    if src.bool(0.2):
        # a function definition whose body is external (it is built and evaluated to a function value, never invoked here): its formal
        # parameters get a temporary parsing context like those of every function definition
        ps = src.sample(["p", "q", names[0], names[-1]], src.int(0, 2))
        ext = 'function(%s) external {java: {class: "java.lang.Math", method signature: "max(double,double)"}}' % ", ".join(ps)
        text = src.choice(["[%s, %s]", "{f: %s, g: %s}.g", "if %s = null then 1 else %s"]) % (ext, names[0])
        exprs.append({"text": text, "scope": src.int(0, nscopes - 1), "pushes": ["fn"]})
        nexpr += 1
    ops = []
    for _ in range(src.int(5, 40)):
        if src.bool(0.8):
            ops.append(["eval", src.int(0, nexpr - 1), src.int(0, nscopes - 1)])
        else:
            t = src.choice(exprs)["text"]
            kind = src.weighted([(4, "ok"), (2, "trunc"), (1, "junk")])
            if kind == "trunc" and len(t) > 3:
                t = t[: src.int(1, len(t) - 1)]
            elif kind == "junk":
                t = t + src.choice([" )", " ]", " }", " then", " in", " ,"])
            ops.append(["parse", t, src.choice(["expression", "textual", "textuals", "unary", "boxed", "context"]), src.int(0, nscopes - 1)])
    return {"scopes": scopes, "exprs": exprs, "ops": ops}


def reqs_history(case):
    return [{"op": "history", "scopes": case["scopes"], "exprs": [{"text": e["text"], "scope": e["scope"]} for e in case["exprs"]],
             "ops": case["ops"]}]


def judge_history(ctx, case, resp):
    r = resp[0]
    if "timeout" in r and "panic" not in r and "died" not in r:
        # no answer within the request budget: a generated `for` whose domains multiply to tens of thousands of iterations is slow (every
        # iteration copies the list of the results so far for `partial`), not impure; whether evaluation terminates is C05's subject, which
        # confirms a time-out with isolated re-runs and a CPU-time budget. Nothing is judged here.
        ctx.note(key=h(case), labels=["timeout: not judged (slow generated expression)"])
        return None
    if "panic" in r or "died" in r:
        ctx.note(key=h(case), labels=["crash(C05)"])
        return Fail("C13/crash@%s" % r.get("location", "?"), "history crashed: %r" % (r,))
    if "initial" not in r:
        return Fail("C13/driver-error", "history request failed: %r" % (r,))
    initial = r["initial"]
    # preparing (parse + prepare) every expression: a successful parse leaves the parsing scope as it found it
    dirty_after_failed = set()
    for j, (a, b) in enumerate(zip(initial, r["after_prepare"])):
        if a != b:
            failed = [i for i, e in enumerate(case["exprs"]) if e["scope"] == j and "ok" not in r["prepared"][i]]
            if failed:
                dirty_after_failed.add(j)
            else:
                return Fail("C13/parse-changes-scope", "parsing %r changed scope %d\n  before %s\n  after  %s" % (
                    [e["text"] for e in case["exprs"] if e["scope"] == j], j, a, b))
    if dirty_after_failed:
        ctx.note(key=h(case), labels=["failed-parse-left-scope-dirty(outside statement)"])
        return None
    seen = {}
    last_eval = None
    repeated_with_gap = False
    dirty = False
    current = list(initial)
    for k, (op, st) in enumerate(zip(case["ops"], r["steps"])):
        if op[0] == "eval":
            i, j = op[1], op[2]
            if st.get("skipped"):
                continue
            v = val.from_wire(st["value"])
            key = (i, j)
            if key in seen:
                if not val.same(seen[key][0], v):
                    return Fail("C13/not-repeatable", "step %d: expression %r over scope %d gave %s at step %d and %s now\n  ops so far %r" % (
                        k, case["exprs"][i]["text"], j, val.show(seen[key][0]), seen[key][1], val.show(v), case["ops"][:k + 1]))
                if last_eval is not None and last_eval != key and case["exprs"][i]["pushes"]:
                    repeated_with_gap = True
            else:
                seen[key] = (v, k)
            last_eval = key
            for jj, (a, b) in enumerate(zip(current, st["scopes"])):
                if a != b:
                    return Fail("C13/eval-changes-scope", "step %d: evaluating %r over scope %d changed scope %d\n  before %s\n  after  %s" % (
                        k, case["exprs"][i]["text"], j, jj, a, b))
        else:
            ok = "ok" in st or "name" in st
            for jj, (a, b) in enumerate(zip(current, st["scopes"])):
                if a != b:
                    if ok:
                        return Fail("C13/parse-changes-scope", "step %d: successful parse of %r (%s) over scope %d changed scope %d\n  before %s\n  after  %s" % (
                            k, op[1], op[2], op[3], jj, a, b))
                    # a FAILED parse may leave entries behind (outside the statement): the scope is re-baselined and
                    # the values remembered for it are forgotten; all later steps are judged against the new baseline
                    dirty = True
                    current[jj] = b
                    for key in [key for key in seen if key[1] == jj]:
                        del seen[key]
    labels = ["history", "len:%d" % (len(case["ops"]) // 10 * 10), "scopes:%d" % len(case["scopes"])]
    if repeated_with_gap:
        labels.append("repeat-with-gap")
    if dirty:
        labels.append("rebaselined-after-failed-parse")
    ctx.note(key=h(case), nontrivial=repeated_with_gap, labels=labels,
             sample={"exprs": [e["text"] for e in case["exprs"]][:3], "ops": case["ops"][:8], "scopes": len(case["scopes"])})
    return None


# ---------------------------------------------------------------------------------------------------------
# part 2: histories of invocations over several built models (boxed contexts, services, knowledge models)
# ---------------------------------------------------------------------------------------------------------

def gen_mhistory(src):
    from ..oracles import drg_gen
    nm = src.int(1, 3)
    models, calls = [], []
    for m in range(nm):
        c = drg_gen.gen_case(src, n_inputs=2, fd_ok=False, shape=src.choice([None] + list(drg_gen.SHAPES)) if src.bool(0.5) else None)
        models.append(c["xml"])
        for t in c["targets"]:
            for inp in t["inputs"]:
                calls.append([m, t["name"], inp])
    if not calls:
        calls.append([0, "none", []])
    ops = [calls[src.int(0, len(calls) - 1)] for _ in range(src.int(5, 30))]
    return {"models": models, "ops": ops}


def reqs_mhistory(case):
    return [{"op": "mhistory", "models": case["models"], "ops": case["ops"]}]


def judge_mhistory(ctx, case, resp):
    r = resp[0]
    if "timeout" in r and "panic" not in r and "died" not in r:
        # see C04: a generated model can be legitimately slow; not this property's subject
        ctx.note(key=h(case), labels=["timeout: not judged (slow generated model)"])
        return None
    if "panic" in r or "died" in r:
        ctx.note(key=h(case), labels=["crash(C12)"])
        return Fail("C13/crash@%s" % r.get("location", "?"), "model history crashed: %r" % (r,))
    if "steps" not in r:
        return Fail("C13/driver-error", "mhistory request failed: %r" % (r,))
    seen = {}
    last = None
    gap = False
    for k, (op, st) in enumerate(zip(case["ops"], r["steps"])):
        if st.get("skipped"):
            continue
        if st["input_before"] != st["input_after"]:
            return Fail("C13/invoke-changes-input", "step %d: invoking %r of model %d changed the supplied input context\n  before %s\n  after  %s" % (
                k, op[1], op[0], st["input_before"], st["input_after"]))
        key = h([op[0], op[1], op[2]])
        v = val.from_wire(st["value"])
        if key in seen:
            if not val.same(seen[key][0], v):
                return Fail("C13/model-not-repeatable", "step %d: %r of model %d with input %r gave %s at step %d and %s now" % (
                    k, op[1], op[0], op[2], val.show(seen[key][0]), seen[key][1], val.show(v)))
            if last is not None and last != key:
                gap = True
        else:
            seen[key] = (v, k)
        last = key
    ctx.note(key=h(case), nontrivial=gap, labels=["model-history", "models:%d" % len(case["models"])] + (["repeat-with-gap"] if gap else []),
             sample={"models": len(case["models"]), "ops": [[o[0], o[1]] for o in case["ops"][:8]]})
    return None


# ---------------------------------------------------------------------------------------------------------
# part 3: FEEL over a caller's scope that holds the functions a built model makes of its knowledge models and decision services
# ---------------------------------------------------------------------------------------------------------

MF_FORMS = ["{C}", "[gg, {C}, gg, hh]", "{r: {C}, s: gg}.s", "[{C}, {C}]", "for i in [1, 2] return [i, {C}, hh]", "if {C} = null then gg else gg",
            "[gg, hh][{C} = null or true]", "some x in [1] satisfies [{C}, gg][2] = gg"]


def gen_mfeel(src):
    from ..oracles import drg_gen
    shape = src.choice(["direct+service", "multi-out-service", "service-layers", "bkm-chain", "bkm-by-invocation", None])
    c = drg_gen.gen_case(src, n_inputs=1, fd_ok=False, shape=shape)
    m = c["model"]
    idm = drg_gen.ids(m)
    funcs = [["bkm", idm[b["name"]], b["name"]] for b in m["bkms"]] + [["ds", idm[x["name"]], x["name"]] for x in m["services"]]
    bindings = [["gg", {"s": "hello"}], ["hh", {"n": "7"}]]
    texts, k = [], 0
    for kind, fid, name in (src.sample(funcs, min(len(funcs), 3)) if funcs else []):
        names = []
        for _, w in drg_gen.gen_input(src, m, name):
            bindings.append(["a%d" % k, w])
            names.append("a%d" % k)
            k += 1
        if names and src.bool(0.1):
            names = names[:-1]              # too few arguments: the invocation is null, the scope as before
        call = "%s(%s)" % (name, ", ".join(names))
        for form in src.sample(MF_FORMS, src.int(1, 3)):
            texts.append([form, form.replace("{C}", call), kind])
    cut = src.int(0, len(bindings))
    return {"xml": c["xml"], "funcs": [[f[0], f[1]] for f in funcs], "scope": [bindings[:cut], bindings[cut:]] if src.bool(0.5) else [bindings], "texts": texts}


def reqs_mfeel(case):
    return [{"op": "mfeel", "xml": case["xml"], "funcs": case["funcs"], "scope": case["scope"], "texts": [t[1] for t in case["texts"]], "repeat": 2}]


def judge_mfeel(ctx, case, resp):
    r = resp[0]
    if "timeout" in r and "panic" not in r and "died" not in r:
        ctx.note(key=h(case), labels=["timeout: not judged (slow generated model)"])
        return None
    if "panic" in r or "died" in r:
        ctx.note(key=h(case), labels=["crash(C12)"])
        return Fail("C13/crash@%s" % r.get("location", "?"), "evaluation over model functions crashed: %r" % (r,))
    if "results" not in r:
        ctx.note(key=h(case), labels=["model-functions", "model-not-built(C04)"])
        return None
    labels = ["model-functions", "functions:%d" % len(r.get("bound", []))]
    hello, seven = {"s": "hello"}, None
    nontrivial = False
    for (form, text, kind), res in zip(case["texts"], r["results"]):
        if "values" not in res:
            labels.append("model-functions:not-parsed")
            continue
        labels.append("model-functions:" + kind)
        nontrivial = True
        before = res["scope_before"]
        if res["scope_after_parse"] != before:
            return Fail("C13/parse-changes-scope", "parsing %r changed the scope\n  before %s\n  after  %s" % (text, before, res["scope_after_parse"]))
        for n, after in enumerate(res["scope_after"]):
            if after != before:
                return Fail("C13/eval-changes-scope", "evaluation %d of %r changed the caller's scope\n  before %s\n  after  %s" % (n + 1, text, before, after))
        a, b = res["values"][0], res["values"][1]
        if not val.same(val.from_wire(a), val.from_wire(b)):
            return Fail("C13/not-repeatable", "%r gave %s and then %s over the same scope" % (text, val.show(val.from_wire(a)), val.show(val.from_wire(b))))
        # what the caller's own names denote next to the invocation, in the same evaluation
        v = a
        items = v.get("l") if isinstance(v, dict) else None
        bad = None
        if form == "[gg, {C}, gg, hh]":
            bad = not (items and len(items) == 4 and items[0] == hello and items[2] == hello and isinstance(items[3], dict) and items[3].get("n") == "7")
        elif form in ("{r: {C}, s: gg}.s", "if {C} = null then gg else gg"):
            bad = v != hello
        elif form == "[{C}, {C}]":
            bad = not (items and len(items) == 2 and val.same(val.from_wire(items[0]), val.from_wire(items[1])))
        elif form == "for i in [1, 2] return [i, {C}, hh]":
            bad = not (items and len(items) == 2 and all(isinstance(x, dict) and len(x.get("l", [])) == 3 and x["l"][0].get("n") == str(i + 1)
                                                        and x["l"][2].get("n") == "7" for i, x in enumerate(items))
                       and val.same(val.from_wire(items[0]["l"][1]), val.from_wire(items[1]["l"][1])))
        elif form == "[gg, hh][{C} = null or true]":
            bad = not (items and len(items) == 2 and items[0] == hello)
        elif form == "some x in [1] satisfies [{C}, gg][2] = gg":
            bad = v is not True
        if bad:
            return Fail("C13/invocation-disturbs-the-callers-names", "%r evaluates to %s: the names of the caller next to the invocation do not denote their values "
                        "(gg = \"hello\", hh = 7), or two invocations with the same arguments differ" % (text, val.show(val.from_wire(v))))
    ctx.note(key=h(case), nontrivial=nontrivial, labels=labels, sample={"texts": [t[1] for t in case["texts"]][:3], "functions": r.get("bound")})
    return None


DEPTHS = [2, 20, 100, 200, 250, 254, 255, 256, 257, 258, 300, 400]


def deep_text(shape, n):
    """one construct that pushes a temporary context, nested n deep around x + y"""
    if shape == "context":
        t = "x + y"
        for i in range(n):
            t = "{c%d: %s}.c%d" % (i % 7, t, i % 7)
        return t
    if shape == "for":
        t = "x + y"
        for i in range(n):
            t = "(for i%d in [1] return %s)[1]" % (i % 7, t)
        return t
    if shape == "some":
        t = "x + y > 0"
        for i in range(n):
            t = "some i%d in [1] satisfies %s" % (i % 7, t)
        return t
    if shape == "function":
        t = "x + y"
        for i in range(n):
            t = "(function(p%d) %s)(%d)" % (i % 7, t, i)
        return t
    if shape == "mixed":
        t = "x + y"
        for i in range(n):
            t = ["{c: %s}.c", "(for i in [1] return %s)[1]", "(function(p) %s)(1)", "if every i in [1] satisfies i = 1 then %s else 0"][i % 4] % t
        return t
    raise ValueError(shape)


def enum_deep(ctx):
    """deep nesting of the constructs that push temporary contexts: every one of them is pushed and popped exactly once, however deep"""
    scopes = [[[["x", {"n": "10"}], ["y", {"n": "20"}]], [["z", {"n": "30"}]]], [[["x", {"n": "1"}], ["y", {"n": "2"}], ["z", {"n": "3"}]]]]
    for n in DEPTHS:
        for shape in ("context", "for", "some", "function", "mixed"):
            deep = deep_text(shape, n)
            exprs = [{"text": "x + y + z", "scope": 0, "pushes": []}, {"text": deep, "scope": 0, "pushes": ["deep:" + shape]},
                     {"text": deep, "scope": 1, "pushes": ["deep:" + shape]}]
            ops = [["eval", 0, 0], ["eval", 1, 0], ["eval", 0, 0], ["eval", 1, 0], ["eval", 2, 1], ["eval", 0, 1], ["eval", 1, 0],
                   ["parse", deep, "expression", 0], ["eval", 0, 0], ["eval", 2, 1], ["eval", 0, 1]]
            yield {"scopes": scopes, "exprs": exprs, "ops": ops, "deep": [shape, n]}


def setup(ctx):
    ctx.rule = ("histories: 2-5 prepared core-fragment expressions (biased to constructs that push temporary contexts) x 2-4 scopes of different "
                "stack shape x 5-40 interleaved evaluate/parse steps; invariants after every step: every scope renders exactly as initially, "
                "a recurring (expression, scope) pair yields the same value, a successful parse leaves the scope unchanged. non-trivial: "
                "the history repeats an (expression, scope) pair with a different evaluation in between and that expression pushes a "
                "context; distinct by history hash")
    ctx.assumptions = ["Scope::to_string() renders every context and entry of the stack (byte comparison)"]
    ctx.p_hist = ctx.register(Part("history", gen_history, reqs_history, judge_history))
    ctx.p_mhist = ctx.register(Part("model-history", gen_mhistory, reqs_mhistory, judge_mhistory))
    ctx.p_deep = ctx.register(Part("deep", None, reqs_history, judge_history))
    ctx.p_mfeel = ctx.register(Part("model-functions", gen_mfeel, reqs_mfeel, judge_mfeel))


def run(ctx):
    ctx.enumerate(ctx.p_deep, enum_deep(ctx), batch=5, name="constructs that push a context, nested %s deep, in a fixed history" % DEPTHS, exhaustive=True)
    ctx.forall(ctx.p_hist, ctx.scale(20000, 400000), batch=50)
    ctx.forall(ctx.p_mhist, ctx.scale(8000, 160000), batch=25)
    ctx.forall(ctx.p_mfeel, ctx.scale(6000, 120000), batch=25)
    if ctx.thorough() and ctx.w == 0:
        fuzz_phase(ctx)


def fuzz_phase(ctx):
    """libFuzzer campaign on feel_any, whose in-target oracles are this property's invariants (a successful parse and an evaluation
    leave the scope rendering unchanged; evaluating twice gives equal values). Only failures of those assertions count here; plain
    crashes are C05's subject."""
    import glob as _glob
    import os
    import shutil
    from .. import fuzzrun
    from . import c05
    if not fuzzrun.build(ctx.log):
        ctx.extra["fuzz"] = {"skipped": "fuzz targets could not be built (tooling), no verdict from this phase"}
        return
    pre = os.path.join(fuzzrun.TARGET, "fuzz-seeds-feel-c13")
    shutil.rmtree(pre, ignore_errors=True)
    os.makedirs(pre)
    rnd = ctx.rng("fuzz-seeds")
    for i, f in enumerate(sorted(_glob.glob(os.path.join(fuzzrun.FUZZ, "seeds", "feel", "*")))):
        with open(os.path.join(pre, "s%05d" % i), "wb") as o:
            o.write(bytes([rnd.randrange(6), rnd.randrange(4)]) + open(f, "rb").read())
    stats, crashes = fuzzrun.campaign(ctx, "feel_any", PROP, [os.path.join(pre, "*")], runs=ctx.scale(150000, 15000000),
                                      dict_file=os.path.join(fuzzrun.FUZZ, "feel.dict"), max_len=400, allow_props=["C05", "C13"],
                                      timeout_s=3 * 3600)
    shutil.rmtree(pre, ignore_errors=True)
    mine = 0
    for c in crashes:
        if "feel_any.rs" in c["location"]:
            mine += 1
            case = c05.fuzz_case(c["data"]) or {}
            ctx.violations.append({"part": "fuzz:feel_any", "signature": "C13/fuzz-in-target-oracle", "message": c["message"], "replay": c["path"]})
            print("VIOLATION property=%s replay=%s" % (PROP, c["path"]), flush=True)
            print("  in-target purity oracle fired for entry=%r text=%r\n  %s" % (case.get("es"), case.get("t"), c["message"][:1000]), flush=True)
        else:
            try:
                os.remove(c["path"])
            except OSError:
                pass
    stats["in_target_oracle_failures"] = mine
    stats["other_crashes_left_to_C05"] = len(crashes) - mine
    ctx.extra["fuzz"] = stats


if __name__ == "__main__":
    sys.exit(main(sys.modules[__name__]))
