"""C05 — FEEL parsing and evaluation are total: a tree or an error / a value, never a panic, abort, stack overflow or hang.

Oracle = validity predicate only: every request returns (tree | error) and (value); no panic record, no process death,
no confirmed hang.  Case sources: mutations of every FEEL text in the repository's own tests, arbitrary Unicode, argument
sweeps of every built-in (positional and named) over an extreme alphabet, operator x value-kind matrix, temporal values at
DST gaps/folds and extreme offsets/years/durations, nesting ramps, parser entry points x parsing scopes.
Every case runs on both driver builds (release: overflow checks off; checked: overflow checks + debug assertions)."""
import hashlib
import json
import os
import re
import sys
import threading
import time

from ..engine import Part, Fail, Inconclusive, Driver, DriverDied, DriverTimeout, main, canon
from ..oracles import c05_dict, c05_harvest

PROP = "C05"

ENTRIES = ["expression", "textual", "textuals", "boxed", "context", "unary", "name", "longest_name"]
DEPTHS = [10, 50, 100, 200]          # the property grants nesting depth <= 200
DOMAIN_LIMIT = 5000                  # "iteration domains whose size product stays below a few thousand"

# ------------------------------------------------------------------------------------------------------------------
# crash / abort / hang protocol
# ------------------------------------------------------------------------------------------------------------------

_CONFIRMED = {}   # (profile, canonical request) -> verdict, so that one hang/abort is confirmed once per process


def _budget(ctx, case=None):
    """Per-request budget in seconds (a case may carry its own, smaller one)."""
    if case is not None and case.get("budget"):
        return float(case["budget"])
    return 2.0 if ctx.tier == "quick" else 6.0


def location(loc):
    """Panic location relative to the tree under test (or to the cargo registry for dependencies)."""
    loc = loc or "?"
    m = re.search(r"/registry/src/[^/]+/(.*)$", loc)
    if m:
        return m.group(1)
    m = re.search(r"/rustc/[0-9a-f]+/(library/.*)$", loc)
    if m:
        return m.group(1)
    m = re.search(r"((?:feel|feel-[a-z]+|common|model|model-evaluator|evaluator|recognizer|workspace|server|examples|dmntk)/src/.*)$", loc)
    if m:
        return m.group(1)
    return loc


_LINES = {}


def source_line(loc):
    """The trimmed text of the source line a panic location names (None when the file cannot be read)."""
    m = re.match(r"^(.*):(\d+)$", loc or "")
    if not m:
        return None
    path, line = m.group(1), int(m.group(2))
    if path not in _LINES:
        try:
            with open(path, encoding="utf-8", errors="replace") as f:
                _LINES[path] = f.read().split("\n")
        except OSError:
            _LINES[path] = None
    lines = _LINES[path]
    if not lines or line < 1 or line > len(lines):
        return None
    return lines[line - 1].strip()


def panic_signature(ctx, loc):
    """`C05/panic@<file:line>`.  Line numbers move whenever somebody edits the file above the statement, so an open finding may
    carry an `anchor` (the exact text of the panicking statement): a panic in the same file at a statement with that text gets the
    finding's recorded signature even when the line number differs, and a finding with an anchor is NOT matched by its line number
    alone.  A panic at any other statement keeps its own file:line and is reported."""
    rel = location(loc)
    sig = "C05/panic@%s" % rel
    relfile = rel.rsplit(":", 1)[0]
    text = source_line(loc)
    anchored = [k for k in ctx.known if k.get("status") == "open" and k.get("anchor") and k["signature"].startswith("C05/panic@" + relfile + ":")]
    if text is not None:
        for k in anchored:
            if k["anchor"].strip() == text:
                return k["signature"]
        if any(k["signature"] == sig for k in anchored):
            return sig + "(moved)"     # the recorded statement is no longer on this line: this is a different statement
    return sig


def _cpu_seconds(pid):
    """CPU time (user + system, all threads) the process has used so far."""
    try:
        with open("/proc/%d/stat" % pid) as f:
            rest = f.read().rsplit(")", 1)[1].split()
        return (int(rest[11]) + int(rest[12])) / float(os.sysconf("SC_CLK_TCK"))
    except (OSError, IndexError, ValueError):
        return None


def _alone(ctx, prof, req, cpu_budget):
    """Runs one request alone in a fresh driver.  The budget is counted in CPU seconds of the driver process, so that a loaded
    machine cannot turn a slow answer into a 'hang': {'timeout': True} only when the process has burnt cpu_budget seconds without
    answering; {'starved': True} when the wall clock (8x the budget) ran out first."""
    d = Driver(prof, timeout=cpu_budget)
    t0 = time.monotonic()
    try:
        d.start()
        d.proc.stdin.write((json.dumps(req, ensure_ascii=True) + "\n").encode())
        d.proc.stdin.flush()
        while True:
            try:
                return json.loads(d._readline(0.2))
            except DriverTimeout:
                cpu = _cpu_seconds(d.proc.pid)
                if cpu is not None and cpu >= cpu_budget:
                    return {"timeout": True, "cpu_seconds": cpu}
                if time.monotonic() - t0 > 8 * cpu_budget + 5:
                    return {"starved": True, "cpu_seconds": cpu}
            except DriverDied:
                code = None
                try:
                    code = d.proc.wait(timeout=5)
                except Exception:
                    pass
                return {"died": code}
    except BrokenPipeError:
        return {"died": None}
    finally:
        d.stop()


def confirm_death(ctx, prof, req, budget):
    """Driver death: the request is re-run alone in a fresh driver; dies again => abort."""
    key = (prof, "died", repr(sorted(req.items(), key=lambda kv: kv[0])))
    if key not in _CONFIRMED:
        r = _alone(ctx, prof, req, 10 * budget)
        _CONFIRMED[key] = r
    return _CONFIRMED[key]


def confirm_hang(ctx, prof, req, budget):
    """Timeout: re-run alone 3 times (concurrently, one fresh driver each) with a 10x budget.
    -> ('hang', None) | ('ok', response) | ('mixed', None)"""
    key = (prof, "hang", repr(sorted(req.items(), key=lambda kv: kv[0])))
    if key in _CONFIRMED:
        return _CONFIRMED[key]
    out = [None, None, None]

    def work(i):
        try:
            out[i] = _alone(ctx, prof, req, 10 * budget)
        except Exception as e:  # infrastructure
            out[i] = {"infra": str(e)}

    th = [threading.Thread(target=work, args=(i,)) for i in range(3)]
    for t in th:
        t.start()
    for t in th:
        t.join()
    timeouts = sum(1 for r in out if r is not None and r.get("timeout"))
    unusable = sum(1 for r in out if r is None or r.get("starved") or r.get("infra"))
    if timeouts == 3:
        v = ("hang", None)
    elif timeouts == 0 and unusable == 0:
        v = ("ok", out[0])
    else:
        v = ("mixed", [{k: r[k] for k in r if k in ("timeout", "starved", "infra", "cpu_seconds", "died")} if isinstance(r, dict) else r for r in out])
    _CONFIRMED[key] = v
    return v


# iteration-domain analysis: the property excludes large iteration domains (legitimate long-running work)

_ITER = re.compile(r"\b(for|some|every)\b")
_RANGE = re.compile(r"(-?\s*\d+)\s*\.\.\s*(-?\s*\d+)")


def domain_product(text):
    """Upper bound of the iteration-domain product that is evident from the text; None when it cannot be bounded.
    Texts without for/some/every have domain 1."""
    if not _ITER.search(text):
        return 1
    segs = re.findall(r"\bin\b(.*?)(?:\breturn\b|\bsatisfies\b|$)", text, re.S)
    if not segs:
        return 1
    prod = 1
    for seg in segs:
        if "*" in seg or "(" in seg:      # computed bounds or function results: not evident
            return None
        for m in _RANGE.finditer(seg):
            try:
                a, b = int(m.group(1).replace(" ", "")), int(m.group(2).replace(" ", ""))
            except ValueError:
                return None
            prod *= abs(b - a) + 1
        rest = _RANGE.sub("", seg)
        if ".." in rest:                   # a range whose end points are not integer literals
            return None
        if re.search(r"[^\W\d]", re.sub(r'"[^"]*"', "", rest)):
            # a name: bound in the case's scope to a small value by construction (big lists are never iterated)
            prod *= 8
        prod *= max(1, rest.count(",") + 1)
    return prod


def verdict(ctx, case, req, resp, prof):
    """The validity predicate for one request. Returns (Fail | None, final response)."""
    cls = case.get("cls", "other")
    text = req.get("text", "")
    budget = _budget(ctx, case)
    if not isinstance(resp, dict):
        return Fail("C05/malformed-response", "driver answered %r" % (resp,)), resp
    if "died" in resp:
        r2 = confirm_death(ctx, prof, req, budget)
        if "died" in r2:
            return Fail("C05/abort/%s" % cls, "[%s] process died (exit %s, again %s alone in a fresh driver) on entry=%s text=%s" % (
                prof, resp.get("died"), r2.get("died"), req.get("entry"), show(text)), profile=prof, request=small(req)), r2
        if "timeout" in r2:
            resp = r2
        elif "starved" in r2:
            raise Inconclusive("driver died on %s; the confirmation run did not get enough CPU time" % show(text))
        else:
            # died in a batch but not alone: some earlier request of the batch poisoned the process -> cannot attribute
            raise Inconclusive("driver died (%s) on %s but not when the request is run alone" % (resp.get("died"), show(text)))
    if "timeout" in resp:
        dom = case.get("dom") or domain_product(text)
        if dom is None or dom > DOMAIN_LIMIT:
            ctx.classes["timeout:out-of-domain-iteration(legit long work)"] += 1
            return None, resp
        other = "checked" if prof == "release" else "release"
        okey = (other, "hang", repr(sorted(req.items(), key=lambda kv: kv[0])))
        if _CONFIRMED.get(okey, (None,))[0] == "hang":
            # confirmed as a hang on the other build in this run: the same signature is assigned without three more 10x runs
            kind, r2 = "hang", None
        else:
            kind, r2 = confirm_hang(ctx, prof, req, budget)
        if kind == "hang":
            return Fail("C05/hang/%s" % cls, "[%s] no answer within %.1f s, and 3 more times alone (fresh driver each) within %.0f s of CPU time: entry=%s text=%s" % (
                prof, budget, 10 * budget, req.get("entry"), show(text)), profile=prof, request=small(req)), resp
        if kind == "mixed":
            raise Inconclusive("timeout on %s could not be confirmed (of three runs alone, not all used up the 10x CPU budget without an answer: %r)" % (show(text), r2))
        ctx.classes["slow(>budget, <10x budget)"] += 1
        ctx.log("slow but answering [%s]: entry=%s text=%s" % (prof, req.get("entry"), show(text, 160)))
        resp = r2
        if "died" in resp:
            return Fail("C05/abort/%s" % cls, "[%s] process died (exit %s) on entry=%s text=%s" % (
                prof, resp.get("died"), req.get("entry"), show(text)), profile=prof, request=small(req)), resp
    if "panic" in resp:
        return Fail(panic_signature(ctx, resp.get("location")), "[%s] panic '%s' at %s on entry=%s text=%s scope=%s" % (
            prof, str(resp.get("panic"))[:200], resp.get("location"), req.get("entry"), show(text), show(small(req).get("scope"))),
            profile=prof, request=small(req)), resp
    if "error" in resp:
        # the driver could not even build the request (bad binding): a generator bug, never the SUT's fault
        raise Inconclusive("driver rejected the request: %s (%s)" % (resp["error"], show(text)))
    ok = ("values" in resp) or ("parse_err" in resp) or ("prepare_err" in resp) or ("name" in resp) or ("ok" in resp) or ("err" in resp)
    if not ok:
        return Fail("C05/no-result", "[%s] neither a tree/error nor a value: %r on %s" % (prof, resp, show(text))), resp
    if "values" in resp:
        for v in resp["values"]:
            if isinstance(v, dict) and "eval_err" in v and case.get("e", req.get("entry")) != "context":
                return Fail("C05/no-value", "[%s] evaluation returned an error instead of a value: %r" % (prof, v)), resp
    return None, resp


def show(x, n=300):
    s = x if isinstance(x, str) else repr(x)
    s = s.encode("unicode_escape").decode("ascii") if isinstance(x, str) else s
    return s if len(s) <= n else s[:n] + "...(%d chars)" % len(s)


def small(req):
    """Request with very long scopes abbreviated for messages (the replay file keeps the full case)."""
    r = dict(req)
    sc = repr(r.get("scope"))
    if len(sc) > 600:
        r["scope"] = sc[:600] + "..."
    return r


# ------------------------------------------------------------------------------------------------------------------
# generic part plumbing: a case is {"t": text, "es": [entries], "s": scope, "cls": class, "k": first mutated token | None}
# ------------------------------------------------------------------------------------------------------------------

def reqs_of(case):
    out = []
    for e in case.get("es") or ["textual"]:
        r = {"op": "eval", "text": case["t"], "entry": e}
        if case.get("s"):
            r["scope"] = case["s"]
        out.append(r)
    return out


def outcome(resp):
    if "values" in resp:
        v = resp["values"][0] if resp["values"] else None
        if v is None or (isinstance(v, dict) and "N" in v):
            return "evaluated:null"
        return "evaluated:value"
    if "name" in resp:
        return "name"
    if "parse_err" in resp:
        return "parse-error"
    if "prepare_err" in resp:
        return "prepare-error"
    return "other"


EXPLORE = bool(os.environ.get("C05_EXPLORE"))     # development aid: report every distinct signature once and go on
ONLY = [x for x in os.environ.get("C05_PARTS", "").split(",") if x]   # development aid: run only these parts
_EXPLORED = {}
DEEP_OK = [True]   # False while the type of a list nested 200 deep cannot be computed: such values are then left out of the sweeps
_HUNG = set()      # classes that hung / killed the process in this run: the same shape is not probed again at a larger depth


def judge_case(ctx, case, resps, prof):
    rs = reqs_of(case)
    first = None
    for req, resp in zip(rs, resps):
        f, resp = verdict(ctx, case, req, resp, prof)
        oc = "crash" if f else outcome(resp)
        # non-trivial: parsed and evaluated, or rejected after the 3rd token (the mutation point is a lower bound of the
        # failure position because the text before it is a prefix of a text the parser accepts)
        k = case.get("k")
        nontrivial = oc.startswith("evaluated") or oc == "name" or oc == "prepare-error" or (oc == "parse-error" and k is not None and k >= 3)
        labels = ["part:" + case.get("part", "?"), oc, "entry:" + req.get("entry", ""), "build:" + prof] + list(case.get("labels", []))
        if oc == "parse-error":
            labels.append("parse-error:after-3rd-token" if nontrivial else "parse-error:early-or-unknown")
        sample = None
        if prof == "release":
            sample = {"text": show(case["t"], 120), "entry": req.get("entry"), "outcome": oc, "class": case.get("cls")}
        ctx.note(key=[case["t"], req.get("entry"), case.get("sk", "")] if prof == "release" else None,
                 nontrivial=nontrivial and prof == "release", labels=labels, sample=sample)
        if f is not None and (f.sig.startswith("C05/hang/") or f.sig.startswith("C05/abort/")):
            _HUNG.add(case.get("cls"))
        if f is not None and EXPLORE:
            if f.sig in _EXPLORED:
                _EXPLORED[f.sig] += 1
                f = None
            else:
                _EXPLORED[f.sig] = 1
        if f is not None and first is None:
            first = f
    return first


# ------------------------------------------------------------------------------------------------------------------
# the process's local time zone: values written WITHOUT a zone are compared / subtracted at the local offset, so the
# environment (TZ) is an input of such evaluations. Driver processes with TZ set to zones with daylight-saving time evaluate
# zone-less values at and around the skipped and the repeated wall-clock hours of those zones.
# ------------------------------------------------------------------------------------------------------------------

LOCAL_ZONES = ["Europe/Warsaw", "America/New_York", "Australia/Lord_Howe", "America/St_Johns", "Pacific/Chatham"]
LOCAL_TEMPLATES = ['date and time("%(a)s") < date and time("%(b)s")', 'date and time("%(a)s") = date and time("%(a)s")',
                   'date and time("%(b)s") - date and time("%(a)s")', 'date and time("%(a)s") in [date and time("%(a)s")..date and time("%(b)s")]',
                   'date and time("%(a)s") - date and time("2000-01-01T00:00:00Z")', 'date and time("%(a)s") < date and time("%(b)sZ")',
                   'string(date and time("%(a)s")) + string(date and time("%(a)s").time offset)',
                   'time("%(ta)s") < time("%(tb)s")', 'time("%(tb)s") - time("%(ta)s")', 'date and time("%(a)s") + duration("PT1H") > date and time("%(b)s")',
                   'date("%(da)s") < date and time("%(b)s")', 'date and time("%(a)s") - duration("PT90M") = date and time("%(b)s")']
_LOCAL_DRIVERS = {}


def enum_local_zone(ctx):
    from ..oracles import temporal_zones as TZ
    import datetime as _dt
    for zone in LOCAL_ZONES:
        sw = TZ.switches(zone)
        picked = sw if ctx.thorough() else sw[(ctx.seed % 4)::4][:6]
        for t in picked:
            before, after = TZ.offset_at(zone, t - 1), TZ.offset_at(zone, t)
            for off in (before, after):
                for minutes in (-90, -60, -31, -30, -1, 0, 1, 29, 30, 59, 60, 90):
                    u = t + minutes * 60 + off
                    a = _dt.datetime.utcfromtimestamp(u)
                    b = _dt.datetime.utcfromtimestamp(u + 45 * 60)
                    d = {"a": a.strftime("%Y-%m-%dT%H:%M:%S"), "b": b.strftime("%Y-%m-%dT%H:%M:%S"), "ta": a.strftime("%H:%M:%S"),
                         "tb": b.strftime("%H:%M:%S"), "da": a.strftime("%Y-%m-%d")}
                    for k, tpl in enumerate(LOCAL_TEMPLATES):
                        if ctx.thorough() or (minutes + k) % 3 == 0:
                            yield {"tz": zone, "t": tpl % d, "cls": "local-zone", "part": "local-zone"}


def judge_local_zone(ctx, case, _resp, prof):
    key = (case["tz"], prof)
    d = _LOCAL_DRIVERS.get(key)
    if d is None:
        d = _LOCAL_DRIVERS[key] = Driver(prof, timeout=20.0, env={"TZ": case["tz"]})
        d.start()
    req = {"op": "eval", "text": case["t"]}
    resp = d.safe(req)
    ctx.note(key=[case["tz"], case["t"]] if prof == "release" else None, nontrivial=prof == "release" and "values" in resp,
             labels=["part:local-zone", "local-zone:" + case["tz"], "build:" + prof, "evaluated" if "values" in resp else "not-evaluated"],
             sample={"TZ": case["tz"], "text": case["t"], "answer": canon(resp)[:160]} if prof == "release" else None)
    where = "[%s, TZ=%s] %s" % (prof, case["tz"], case["t"])
    if "panic" in resp:
        return Fail(panic_signature(ctx, resp.get("location")), "%s\n  panic '%s' at %s" % (where, str(resp.get("panic"))[:200], resp.get("location")))
    if "died" in resp:
        return Fail("C05/abort/local-zone", "%s\n  the process died (%s)" % (where, resp.get("died")))
    if "timeout" in resp:
        raise Inconclusive("no answer within 20 s for %s" % where)
    return None


def mkpart(ctx, name, gen=None):
    def g(src):
        c = gen(src)
        c["part"] = name
        return c
    return ctx.register(Part(name, g if gen else None, reqs_of, judge_case, profile="both"))


# ------------------------------------------------------------------------------------------------------------------
# FEEL tokenizer (only for choosing mutation points; it does not have to agree with the SUT's lexer)
# ------------------------------------------------------------------------------------------------------------------

_TOK = re.compile(r'''\s+|"(?:\\.|[^"\\])*"?|//[^\n]*|/\*.*?\*/|\d+(?:\.\d+)?|\.\d+|\.\.|\*\*|!=|<=|>=|->|[^\W\d][\w?]*|.''', re.S)


def tokenize(text):
    """-> list of pieces that concatenate to text; white space pieces included."""
    return _TOK.findall(text)


def token_index(pieces, i):
    """Number of non-blank tokens strictly before piece i."""
    return sum(1 for p in pieces[:i] if not p.isspace())


# ------------------------------------------------------------------------------------------------------------------
# scopes
# ------------------------------------------------------------------------------------------------------------------

def N(x):
    return {"n": str(x)}


SINGLE = [["a", N(1)], ["b", N(2)], ["x", N(3)], ["y", {"s": "s"}], ["l", {"l": [N(1), N(2), N(3)]}], ["c", {"c": [["a", N(1)], ["b", {"c": [["c", N(2)]]}]]}],
          ["f", {"feel": "function(p, q) p + q"}], ["t", True], ["n", None], ["d", {"date": "2021-03-28"}]]
MULTI_NAMES = ["a b", "a-b", "a.b", "a+b", "a/b", "a*b", "a'b", "a b c", "a - b", "a  b", "x.y.z", "p-1", "a.b c", "a+b-c"]
KEYWORD_NAMES = ["in.x", "for all", "date x", "in", "if x", "then x", "else x", "not true", "some thing", "every thing", "and x", "or so", "null value",
                 "true story", "false friend", "item list", "item", "between us", "instance x", "of x", "return value", "satisfies x", "function f",
                 "list x", "context x", "range x", "external x", "in x", "x in", "x in y", "date", "time", "date and time", "duration", "time x",
                 "duration x", "date and time x", "in-x", "in+x", "in/x", "in*x", "in'x", "for", "if", "partial", "number", "string x", "Any"]
SCOPES = {
    "empty": [],
    "single": [SINGLE],
    "multi": [[[n, N(i + 1)] for i, n in enumerate(MULTI_NAMES)] + [["a", N(10)], ["b", N(20)], ["c", N(30)]]],
    "keyword": [[[n, N(i + 1)] for i, n in enumerate(KEYWORD_NAMES)] + [["x", N(10)], ["y", N(20)]]],
}
SCOPE_KEYS = ["empty", "single", "multi", "keyword"]

_RESOLVED = {}    # scope_text -> bindings (list of [name, value]) obtained by evaluating the test's own te_scope literal


def _binding(v):
    """Driver value JSON -> binding JSON; kinds that cannot be transported are bound to null (the name stays in scope)."""
    if v is None or isinstance(v, bool):
        return v
    if isinstance(v, dict):
        if "n" in v:
            return {"n": v["d"] if v.get("d") not in (None, "NaN", "Infinity", "-Infinity") else v["n"]}
        if "s" in v:
            return {"s": v["s"]}
        if "l" in v:
            return {"l": [_binding(x) for x in v["l"]]}
        if "c" in v:
            return {"c": [[k, _binding(x)] for k, x in v["c"]]}
        for k in ("date", "time", "dt", "dtd", "ymd"):
            if k in v:
                return {k: v[k]}
        if "r" in v:
            return {"r": [_binding(v["r"][0]), v["r"][1], _binding(v["r"][2]), v["r"][3]]}
    return None


def resolve_scopes(ctx):
    """Evaluates every te_scope(...) literal of the repository's tests once (release build) to obtain the bindings."""
    texts = []
    for it in c05_harvest.harvest():
        st = it["scope_text"]
        if st is not None and st not in _RESOLVED and st not in texts:
            texts.append(st)
    if not texts:
        return
    d = ctx.driver("release")
    resps = d.batch([{"op": "eval", "text": t, "entry": "context"} for t in texts])
    for t, r in zip(texts, resps):
        b = []
        if isinstance(r, dict) and r.get("values") and isinstance(r["values"][0], dict) and "c" in r["values"][0]:
            for k, v in r["values"][0]["c"]:
                b.append([k, _binding(v)])
        _RESOLVED[t] = b
    # a value the driver prints but does not read back (for example a date before the year 1000) is bound to null instead
    resps = d.batch([{"op": "eval", "text": "1", "scope": [_RESOLVED[t]]} for t in texts])
    for t, r in zip(texts, resps):
        if isinstance(r, dict) and "error" in r:
            fixed = []
            for k, v in _RESOLVED[t]:
                r1 = d.safe({"op": "eval", "text": "1", "scope": [[[k, v]]]})
                fixed.append([k, v if isinstance(r1, dict) and "error" not in r1 else None])
            _RESOLVED[t] = fixed


def item_scope(it):
    b = list(_RESOLVED.get(it["scope_text"], [])) if it["scope_text"] is not None else []
    for n in it["names"]:
        b.append([n, None])
    return [b] if b else []


# ------------------------------------------------------------------------------------------------------------------
# source 1: mutations of every harvested expression
# ------------------------------------------------------------------------------------------------------------------

_WORDS = None
SPECIAL_CHARS = ["\u0000", "\t", "\n", "\r", "\u000b", "\u000c", "\u0085", "\u00a0", "\u1680", "\u180e", "\u2000", "\u200b", "\u2028", "\u2029",
                 "\u202f", "\u205f", "\u3000", "\ufeff", "\u200c", "\u200d", "\u00b7", "\u0300", "\u036f", "\u203f", "\u2040", "\u00c0", "\u00d7",
                 "\u00f7", "\u02ff", "\u0370", "\u037e", "\u1fff", "\u2070", "\u218f", "\u2c00", "\u2fef", "\u3001", "\ud7ff", "\uf900", "\ufdcf",
                 "\ufdf0", "\ufffd", "\ufffe", "\uffff", "\U00010000", "\U000effff", "\U000f0000", "\U0010ffff", "\u202e", "\u05d0", "\u0627",
                 "\u2500", "\u2502", "\u2551", "\u253c", "\U0001f640", "\u00e9", "e\u0301", "\\", "\"", "'", "?", "_", "$", "#", "%", "&", ";", "`", "~",
                 "^", "|", "!", "\u007f", "\u0080", "\u009f"]
BRACKETS = ["(", ")", "[", "]", "{", "}", "<", ">", "\""]


def words():
    global _WORDS
    if _WORDS is None:
        _WORDS = c05_dict.all_words()
    return _WORDS


def iteration_ok(text):
    d = domain_product(text)
    return d is not None and d <= DOMAIN_LIMIT


def mutate_once(src, text):
    """One mutation; returns (new text, index of the first token touched)."""
    pieces = tokenize(text)
    idx = [i for i, p in enumerate(pieces) if not p.isspace()]
    op = src.weighted([(3, "tok-delete"), (3, "tok-dup"), (3, "tok-swap"), (4, "tok-word"), (4, "char-ins"), (3, "char-del"), (3, "char-rep"),
                       (4, "bracket"), (3, "truncate"), (2, "tok-insert")])
    if not idx or not text:
        w = src.choice(words())
        return w + text, 0, "insert-into-empty"
    if op.startswith("tok-") or op == "bracket":
        i = idx[src.int(0, len(idx) - 1)]
        k = token_index(pieces, i)
        p = list(pieces)
        if op == "tok-delete":
            del p[i]
        elif op == "tok-dup":
            p.insert(i, pieces[i] + (" " if src.bool(0.5) else ""))
        elif op == "tok-swap":
            j = idx[src.int(0, len(idx) - 1)]
            p[i], p[j] = p[j], p[i]
            k = min(k, token_index(pieces, j))
        elif op == "tok-word":
            p[i] = src.choice(words())
        elif op == "tok-insert":
            p.insert(i, src.choice(words()) + (" " if src.bool(0.7) else ""))
        else:  # bracket imbalance: drop, add or exchange one bracket
            bi = [q for q in idx if pieces[q] in BRACKETS or pieces[q].startswith('"')]
            how = src.choice(["drop", "add", "exchange"])
            if bi and how != "add":
                q = bi[src.int(0, len(bi) - 1)]
                k = token_index(pieces, q)
                if how == "drop":
                    if pieces[q].startswith('"'):
                        p[q] = pieces[q][:-1] if src.bool(0.5) else pieces[q][1:]
                    else:
                        del p[q]
                else:
                    p[q] = src.choice(BRACKETS)
            else:
                p.insert(i, src.choice(BRACKETS))
        return "".join(p), k, op
    # character level
    pos = src.int(0, len(text) - (0 if op == "char-ins" else 1))
    k = token_index(pieces, _piece_at(pieces, pos))
    if op == "truncate":
        pos = max(1, pos)
        return text[:pos], token_index(pieces, _piece_at(pieces, pos)), op
    ch = src.choice(SPECIAL_CHARS) if src.bool(0.5) else src.choice(words())[:1] or "x"
    if src.bool(0.15):
        ch = chr(src.choice([src.int(0x20, 0x7e), src.int(0xa0, 0x2fff), src.int(0x3000, 0xd7ff), src.int(0xe000, 0xffff), src.int(0x10000, 0x10ffff)]))
    if op == "char-ins":
        return text[:pos] + ch + text[pos:], k, op
    if op == "char-del":
        return text[:pos] + text[pos + 1:], k, op
    return text[:pos] + ch + text[pos + 1:], k, op


def _piece_at(pieces, pos):
    n = 0
    for i, p in enumerate(pieces):
        n += len(p)
        if pos < n:
            return i
    return len(pieces)


def gen_mutation(src):
    items = c05_harvest.harvest()
    it = items[src.int(0, len(items) - 1)]
    text = it["text"]
    k, ops = None, []
    rounds = src.weighted([(6, 1), (3, 2), (1, 4)])
    for _ in range(rounds):
        t2, k2, op = mutate_once(src, text)
        if not iteration_ok(t2):
            ops.append("rejected:large-iteration-domain")
            continue
        text, ops = t2, ops + [op]
        k = k2 if k is None else min(k, k2)
    entry = it["entry"] if not src.bool(0.25) else src.choice(ENTRIES)
    scope = item_scope(it)
    sk = "own"
    if src.bool(0.2):
        sk = src.choice(SCOPE_KEYS)
        scope = scope + SCOPES[sk]
    return {"t": text, "es": [entry], "s": scope, "sk": sk, "cls": "mutation", "k": k if k is not None else 10 ** 6,
            "labels": ["mut:" + o for o in ops]}


def enum_harvested(ctx):
    """Every harvested text unmutated, through its own entry point and scope (simplest first)."""
    for it in sorted(c05_harvest.harvest(), key=lambda i: (len(i["text"]), i["text"], i["entry"])):
        yield {"t": it["text"], "es": [it["entry"]], "s": item_scope(it), "sk": "own", "cls": "harvested", "k": 10 ** 6, "part": "harvested",
               "labels": ["src:" + it["src"].split("/")[0]]}


def enum_truncations(ctx):
    """Truncation at every prefix of every harvested text (quick: every prefix of a seed-rotated third of the texts)."""
    items = sorted(c05_harvest.harvest(), key=lambda i: (len(i["text"]), i["text"], i["entry"]))
    step = ctx.scale(3, 1)
    for n, it in enumerate(items):
        if (n + ctx.seed) % step:
            continue
        text = it["text"]
        pieces = tokenize(text)
        for p in range(1, len(text)):
            t = text[:p]
            if not iteration_ok(t):
                continue
            yield {"t": t, "es": [it["entry"]], "s": item_scope(it), "sk": "own", "cls": "truncation", "k": token_index(pieces, _piece_at(pieces, p)),
                   "part": "truncation", "labels": []}


# ------------------------------------------------------------------------------------------------------------------
# source 2: arbitrary Unicode text
# ------------------------------------------------------------------------------------------------------------------

PLANES = [(0x20, 0x7e), (0x00, 0x1f), (0x7f, 0xff), (0x100, 0x2ff), (0x300, 0x36f), (0x370, 0x1fff), (0x2000, 0x206f), (0x2070, 0x2bff),
          (0x2500, 0x257f), (0x2c00, 0x2fef), (0x3000, 0xd7ff), (0xe000, 0xf8ff), (0xf900, 0xffff), (0x0590, 0x06ff), (0x10000, 0x1ffff),
          (0x20000, 0x2ffff), (0x30000, 0xdffff), (0xe0000, 0xeffff), (0xf0000, 0x10ffff)]


def gen_unicode(src):
    n = src.weighted([(4, src.int(1, 6)), (4, src.int(1, 24)), (1, src.int(25, 120))])
    out = []
    for _ in range(n):
        kind = src.weighted([(4, "plane"), (3, "special"), (3, "word"), (2, "ascii")])
        if kind == "plane":
            lo, hi = src.choice(PLANES)
            out.append(chr(src.int(lo, hi)))
        elif kind == "special":
            out.append(src.choice(SPECIAL_CHARS))
        elif kind == "word":
            out.append(src.choice(words()))
            if src.bool(0.5):
                out.append(" ")
        else:
            out.append(chr(src.int(0x20, 0x7e)))
    text = "".join(out)
    if not iteration_ok(text):
        text = text.replace("..", ". .")
    sk = src.choice(SCOPE_KEYS)
    return {"t": text, "es": [src.choice(ENTRIES)], "s": SCOPES[sk], "sk": sk, "cls": "unicode", "k": None, "labels": ["scope:" + sk]}


# ------------------------------------------------------------------------------------------------------------------
# source 3: argument sweeps for every built-in
# ------------------------------------------------------------------------------------------------------------------

BIGLIST = {"l": [{"n": str(i)} for i in range(1, 1001)]}          # (a FEEL `for` would cost O(n^2) per request: `partial` is copied every iteration)
BIGLIST_DUP = {"l": [{"n": str(i % 7)} for i in range(1, 1001)]}
BIGSTR = {"s": "a" * 1000}


def nest_list(depth):
    """A list nested `depth` deep, as a FEEL literal evaluated by the driver (serde_json refuses JSON nested deeper than 128)."""
    return {"feel": "[" * depth + "1" + "]" * depth}


def nest_ctx(depth):
    return {"feel": "{a:" * depth + "1" + "}" * depth}


def nest_ctx_distinct(depth):
    """a context nested `depth` deep whose entry has another name at every level (typed binding: the names never pass through the lexer)"""
    v = N(1)
    for i in range(depth - 1, -1, -1):
        v = {"c": [["k%d" % i, v]]}
    return v


SCOPE_NEST_CLS = "nesting:scope-context-distinct-keys"
SCOPE_NEST_BUDGET = 2.0


def enum_scope_nesting(ctx, depths):
    """a trivial text parsed (and evaluated) over a scope that binds a deeply nested context: the lexer asks the scope for its known names"""
    for d in depths:
        for text in ("x + 1", "c.k0", "x"):
            yield {"t": text, "es": ["textual"], "s": [[["c", nest_ctx_distinct(d)], ["x", N(1)]]], "sk": "scope-nest-%d" % d, "cls": SCOPE_NEST_CLS, "k": 10 ** 6,
                   "part": "ramp", "labels": ["depth:%d" % d, "shape:scope-context-distinct-keys"], "budget": SCOPE_NEST_BUDGET}


# (label, binding, FEEL literal or None).  n = 3 is the size of the baseline list / string.
NUMS = [
    ("0", N(0), "0"), ("1", N(1), "1"), ("-1", N(-1), "-1"), ("0.5", N("0.5"), "0.5"), ("-0.5", N("-0.5"), "-0.5"), ("2", N(2), "2"),
    ("n", N(3), "3"), ("-n", N(-3), "-3"), ("n+1", N(4), "4"), ("-(n+1)", N(-4), "-4"), ("1.0", N("1.0"), "1.0"), ("1.5", N("1.5"), "1.5"),
    ("-0", N("-0"), 'number("-0", null, null)'), ("-0.0", N("-0.0"), None),
    ("2^63", N(2 ** 63), str(2 ** 63)), ("2^63-1", N(2 ** 63 - 1), str(2 ** 63 - 1)), ("-2^63", N(-2 ** 63), str(-2 ** 63)), ("-2^63-1", N(-2 ** 63 - 1), None),
    ("2^64-1", N(2 ** 64 - 1), str(2 ** 64 - 1)), ("2^64", N(2 ** 64), str(2 ** 64)), ("-2^64", N(-2 ** 64), None), ("-(2^64-1)", N(-(2 ** 64 - 1)), None),
    ("2^31-1", N(2 ** 31 - 1), None), ("2^31", N(2 ** 31), None), ("-2^31", N(-2 ** 31), None), ("-2^31-1", N(-2 ** 31 - 1), None),
    ("2^32-1", N(2 ** 32 - 1), None), ("2^32", N(2 ** 32), None), ("2^127", N(2 ** 127), None),
    ("10^34", N("1E+34"), "1" + "0" * 34), ("10^34-1", N("9" * 34), "9" * 34), ("1E+6000", N("1E+6000"), None), ("-1E+6000", N("-1E+6000"), None),
    ("1E-6000", N("1E-6000"), None), ("-1E-6000", N("-1E-6000"), None), ("max", N("9.999999999999999999999999999999999E+6144"), None),
    ("min-subnormal", N("1E-6176"), None), ("1E+6111", N("1E+6111"), None),
    ("255", N(255), None), ("256", N(256), None), ("257", N(257), None), ("65536", N(65536), None),
    ("12", N(12), None), ("13", N(13), None), ("23", N(23), None), ("24", N(24), None), ("31", N(31), None), ("32", N(32), None),
    ("59", N(59), None), ("60", N(60), None), ("59.9999999999", N("59.9999999999"), None), ("0.9999999999", N("0.9999999999"), None),
    ("59.5", N("59.5"), None), ("23.5", N("23.5"), None),
    ("999999999", N(999999999), None), ("1000000000", N(10 ** 9), None), ("-999999999", N(-999999999), None), ("-1000000000", N(-10 ** 9), None),
    ("262143", N(262143), None), ("262144", N(262144), None), ("-262144", N(-262144), None), ("-262145", N(-262145), None),
    ("6176", N(6176), None), ("-6111", N(-6111), None), ("6175", N(6175), None), ("-6112", N(-6112), None), ("34", N(34), None), ("35", N(35), None),
    ("1000", N(1000), None), ("1001", N(1001), None), ("-1000", N(-1000), None), ("-1001", N(-1001), None),
    ("1/3", N("0." + "3" * 34), None), ("pi", N("3.141592653589793238462643383279503"), None),
]
STRS = [
    ("\"\"", {"s": ""}, '""'), ("\"a\"", {"s": "a"}, '"a"'), ("\"abc\"", {"s": "abc"}, '"abc"'), ("str1000", BIGSTR, None),
    ("unicode", {"s": "\U0001f640e\u0301\u00e9z"}, None), ("nul", {"s": "a\u0000b"}, None), ("spaces", {"s": "  a b  "}, None),
    ("(", {"s": "("}, None), ("[", {"s": "["}, None), ("a{1000}", {"s": "a{1000}"}, None), ("(a*)*b", {"s": "(a*)*b"}, None), ("\\", {"s": "\\"}, None),
    ("(a{1000}){1000}", {"s": "(a{1000}){1000}"}, None), (".", {"s": "."}, '"."'), (",", {"s": ","}, '","'), (" ", {"s": " "}, '" "'),
    ("$1", {"s": "$1"}, None), ("$0", {"s": "$0"}, None), ("$99", {"s": "$99"}, None), ("${", {"s": "${"}, None), ("$$", {"s": "$$"}, None),
    ("(b)", {"s": "(b)"}, None), ("b", {"s": "b"}, '"b"'), ("^", {"s": "^"}, None), ("x*", {"s": "x*"}, None), ("\\p{L}", {"s": "\\p{L}"}, None),
    ("i", {"s": "i"}, None), ("smix", {"s": "smix"}, None), ("q", {"s": "q"}, None), ("U", {"s": "U"}, None), ("-i", {"s": "-i"}, None), ("ii)(", {"s": "i)("}, None),
    ("1", {"s": "1"}, None), ("1,000.5", {"s": "1,000.5"}, None), ("1E+6000", {"s": "1E+6000"}, None), ("Infinity", {"s": "Infinity"}, None),
    ("NaN", {"s": "NaN"}, None), ("-0", {"s": "-0"}, None), ("1e5", {"s": "1e5"}, None), ("0x10", {"s": "0x10"}, None), ("9" * 40, {"s": "9" * 40}, None),
    ("1" + "0" * 7000, {"s": "1" + "0" * 7000}, None),
]
OTHERS = [
    ("null", None, "null"), ("true", True, "true"), ("false", False, "false"),
    ("[]", {"l": []}, "[]"), ("[1]", {"l": [N(1)]}, "[1]"), ("[1,2,3]", {"l": [N(1), N(2), N(3)]}, "[1,2,3]"), ("list1000", BIGLIST, None),
    ("list1000dup", BIGLIST_DUP, None), ("nested", {"l": [N(1), {"l": [N(2), {"l": [N(3), {"l": []}]}]}]}, "[1,[2,[3,[]]]]"), ("nest16", nest_list(16), None), ("nest200", nest_list(200), None),
    ("[null]", {"l": [None]}, "[null]"), ("mixed", {"l": [N(1), {"s": "a"}, True, None, {"l": []}, {"c": []}]}, None),
    ("[\"b\",\"a\"]", {"l": [{"s": "b"}, {"s": "a"}]}, None), ("[true,false]", {"l": [True, False]}, None), ("[ctx]", {"l": [{"c": [["a", N(1)]]}, {"c": [["a", N(2)]]}]}, None),
    ("[1,1,2,2]", {"l": [N(1), N(1), N(2), N(2)]}, None), ("scrambled40", {"l": [N((i * 17 + 5) % 23) for i in range(40)]}, None),
    ("list-with-NaN", {"feel": "for i in [3,1,2,5,4,7,6,9,8,11,10,0,13,12,15,14,17,16,19,18,21,20,23,22,5,24,2,1,0,5,5,1,9,7] return if modulo(i,5)=0 then decimal(10**32,5) else i"}, None),
    ("list-with-Infinity", {"feel": "[10**6144*10, 1, -(10**6144*10), 2, 10**6144*10]"}, None),
    # scalars computed by chained operations whose intermediate result leaves the range (null on a correct tree; an infinity or a NaN where a guard is missing)
    ("sum-out-of-range", {"feel": "sum([10**6144*9, 10**6144*9])"}, "sum([10**6144*9, 10**6144*9])"), ("mean-out-of-range", {"feel": "-mean([10**6144*9, 10**6144*9])"}, None),
    ("modulo-of-out-of-range", {"feel": "modulo(sum([10**6144*9, 10**6144*9]), 2)"}, "modulo(sum([10**6144*9, 10**6144*9]), 2)"), ("[big,-big]", {"l": [N("9E+6144"), N("9E+6144"), N("-9E+6144")]}, None),
    ("{}", {"c": []}, "{}"), ("{a:1}", {"c": [["a", N(1)]]}, "{a:1}"), ("ctx200", nest_ctx(200), None), ("{\"\":1}", {"c": [["", N(1)]]}, None),
    ("range", {"feel": "[1..5]"}, "[1..5]"), ("range-open", {"feel": "(1..5)"}, "(1..5)"), ("range-rev", {"feel": "[5..1]"}, "[5..1]"),
    ("range-str", {"feel": '["a".."z"]'}, None), ("range-date", {"feel": '[date("2020-01-01")..date("2021-01-01")]'}, None),
    ("fn2", {"feel": "function(x,y) x < y"}, "function(x,y) x < y"), ("fn0", {"feel": "function() true"}, None), ("fn-null", {"feel": "function(x,y) null"}, None),
    ("fn-true", {"feel": "function(x,y) true"}, None), ("fn-gt", {"feel": "function(x,y) x > y"}, None), ("fn-ne", {"feel": "function(x,y) x != y"}, None),
    ("bif", {"feel": "abs"}, "abs"),
    ("date", {"date": "2021-03-28"}, 'date("2021-03-28")'), ("date-max", {"date": "999999999-12-31"}, None), ("date-min", {"date": "-999999999-01-01"}, None),
    ("time", {"time": "02:30:00"}, 'time("02:30:00")'), ("time-z", {"time": "02:30:00Z"}, None), ("time-off", {"time": "02:30:00+14:59:59"}, None),
    ("time-zone", {"time": "02:30:00@Europe/Warsaw"}, None), ("time-nano", {"time": "23:59:59.999999999"}, None),
    ("dt", {"dt": "2021-03-28T01:30:00"}, None), ("dt-z", {"dt": "2021-03-28T01:30:00Z"}, None), ("dt-off", {"dt": "2021-03-28T01:30:00-14:59:59"}, None),
    ("dt-zone", {"dt": "2021-06-28T02:30:00@Europe/Warsaw"}, None), ("dt-max", {"dt": "999999999-12-31T23:59:59.999999999Z"}, None),
    ("dt-min", {"dt": "-999999999-01-01T00:00:00Z"}, None), ("dt-262143", {"dt": "262143-12-31T23:59:59Z"}, None), ("dt-262144", {"dt": "262144-01-01T00:00:00Z"}, None),
    ("dtd", {"dtd": "P1DT2H3M4.5S"}, 'duration("P1DT2H3M4.5S")'), ("dtd-neg", {"dtd": "-PT1S"}, None), ("dtd-max", {"dtd": "P18446744073709551615D"}, None),
    ("dtd-1d", {"dtd": "P1D"}, None), ("dtd--1d", {"dtd": "-P1D"}, None), ("dtd-15h", {"dtd": "PT15H"}, None), ("dtd-0", {"dtd": "PT0S"}, None),
    ("dtd-2^31s", {"dtd": "PT2147483648S"}, None), ("dtd-2^32s", {"dtd": "PT4294967296S"}, None), ("dtd-2^63s", {"dtd": "PT9223372036854775808S"}, None),
    ("ymd", {"ymd": "P1Y2M"}, 'duration("P1Y2M")'), ("ymd-neg", {"ymd": "-P1M"}, None), ("ymd-big", {"ymd": "P768614336404564650Y"}, None),
    ("ymd-i64max", {"ymd": "P9223372036854775807M"}, None),
]
ALPHABET = NUMS + STRS + OTHERS
AIDX = {a[0]: i for i, a in enumerate(ALPHABET)}
CORE = ["nul", "list-with-NaN", "sum-out-of-range", "modulo-of-out-of-range", "scrambled40", "0", "1", "-1", "0.5", "n", "-(n+1)", "n+1", "2^63", "2^64-1", "2^64", "1E+6000", "-0", "\"\"", "\"abc\"", "str1000", "null", "true", "[]", "[1,2,3]", "list1000",
        "nested", "{a:1}", "range", "fn2", "date", "time", "dt-zone", "dtd", "ymd", "dtd-max"]

DATESTR = ["2021-03-28", "999999999-12-31", "-999999999-01-01", "2020-02-29", "2021-02-29", "2021-13-01", "2021-00-00", "0000-01-01", "0999-01-01",
           "262143-12-31", "262144-01-01", "-262144-01-01", "-262145-12-31", "1000000000-01-01", "2147483648-01-01", "99999999999-01-01", "2021-3-28", "+2021-03-28",
           "-0001-01-01", "-2021-03-28", "2021-03-28T", "2021-03-28Z", ""]
TIMESTR = ["02:30:00", "24:00:00", "23:59:60", "23:59:59.999999999", "23:59:59.9999999999999999999", "00:00:00." + "9" * 400, "00:00:00.", "02:30:00Z", "02:30:00z",
           "02:30:00+14:59:59", "02:30:00-14:59:59", "02:30:00+14:99:99", "02:30:00+15:00", "02:30:00+99:99", "02:30:00-00:00", "02:30:00+00:00:01",
           "02:30:00@Europe/Warsaw", "02:30:00@Etc/UTC", "02:30:00@Nowhere/Land", "02:30:00@", "02:30:00@UTC", "02:30:00@Z", "02:30:00@EST5EDT", "99:99:99", "2:30:00", ""]
DURSTR = ["P1D", "-P1D", "PT0S", "P0D", "P0Y", "P1Y2M", "P18446744073709551615D", "P18446744073709551616D", "P18446744073709551615Y", "P18446744073709551615M",
          "P768614336404564650Y", "P768614336404564651Y", "P9223372036854775807M", "P9223372036854775808M", "P9223372036854775807Y", "P1537228672809129301Y",
          "P999999999999999999Y", "-P9223372036854775808M", "-P768614336404564651Y", "P1Y18446744073709551615M", "P768614336404564650Y8M", "P768614336404564650Y7M",
          "PT18446744073709551615H", "PT18446744073709551615M", "PT18446744073709551615S", "P18446744073709551615DT18446744073709551615H18446744073709551615M18446744073709551615S",
          "PT0." + "9" * 400 + "S", "PT1.S", "P1DT", "PT", "P", "", "P1Y1D", "P-1D", "PT1E5S", "P" + "9" * 100 + "D", "PT" + "9" * 100 + "S", "P" + "9" * 100 + "Y"]


def zone_transitions():
    """Local date-times inside and at the edges of DST gaps and folds, taken from the system tz database (zoneinfo)."""
    import datetime as _dt
    try:
        from zoneinfo import ZoneInfo
    except Exception:
        return []
    out = []
    utc = _dt.timezone.utc
    zones = ["Europe/Warsaw", "America/New_York", "Australia/Lord_Howe", "Pacific/Apia", "America/Sao_Paulo", "Europe/London", "Africa/Casablanca",
             "America/St_Johns", "Asia/Tehran", "Antarctica/Troll", "Asia/Kathmandu", "America/Havana", "Asia/Amman", "Pacific/Kiritimati", "Europe/Dublin"]
    for zn in zones:
        try:
            z = ZoneInfo(zn)
        except Exception:
            continue
        for year in (1994, 2011, 2018, 2021):
            t = _dt.datetime(year, 1, 1, tzinfo=utc)
            end = _dt.datetime(year + 1, 1, 1, tzinfo=utc)
            prev = t.astimezone(z).utcoffset()
            found = 0
            while t < end and found < 2:
                t2 = t + _dt.timedelta(days=1)
                off = t2.astimezone(z).utcoffset()
                if off != prev:
                    lo, hi = t, t2
                    while (hi - lo).total_seconds() > 1:
                        mid = lo + (hi - lo) / 2
                        mid = mid.replace(microsecond=0)
                        if mid.astimezone(z).utcoffset() == prev:
                            lo = mid
                        else:
                            hi = mid
                    # hi = first instant with the new offset
                    a, b = sorted([prev, off])
                    base = hi.replace(tzinfo=None)
                    span = (b - a)
                    for loc in (base + a, base + a + span / 2, base + b - _dt.timedelta(seconds=1), base + b, base + a - _dt.timedelta(seconds=1)):
                        loc = loc.replace(microsecond=0)
                        out.append(("gap" if off > prev else "fold", "%04d-%02d-%02dT%02d:%02d:%02d@%s" % (loc.year, loc.month, loc.day, loc.hour, loc.minute, loc.second, zn)))
                    found += 1
                    prev = off
                t = t2
    seen, res = set(), []
    for k, s in out:
        if s not in seen:
            seen.add(s)
            res.append((k, s))
    return res


_ZT = None


def zt():
    global _ZT
    if _ZT is None:
        _ZT = zone_transitions()
    return _ZT


def dtstrs():
    base = ["2021-03-28T01:30:00", "2021-03-28T02:30:00@Europe/Warsaw", "2021-10-31T02:30:00@Europe/Warsaw", "999999999-12-31T23:59:59.999999999Z",
            "-999999999-01-01T00:00:00Z", "999999999-12-31T23:59:59+14:59:59", "-999999999-01-01T00:00:00-14:59:59", "999999999-12-31T23:59:59-14:59:59",
            "-999999999-01-01T00:00:00+14:59:59", "262143-12-31T23:59:59Z", "262143-12-31T23:59:59-14:00", "262144-01-01T00:00:00Z", "-262144-01-01T00:00:00Z",
            "-262144-01-01T00:00:00+14:00", "-262145-12-31T23:59:59Z", "262143-12-31T23:59:59@Europe/Warsaw", "-262144-01-01T00:00:00@America/New_York",
            "999999999-12-31T23:59:59@Europe/Warsaw", "2021-03-28T24:00:00", "2021-03-28T23:59:60", "2021-03-28T02:30:00+14:99:99", "2021-03-28T02:30:00+99:99",
            "2021-03-28T02:30:00@Nowhere", "2021-03-28T02:30:00.9999999999999999999999Z", "2021-03-28", "2021-03-28T", "T02:30:00", ""]
    return base + [s for _, s in zt()]


# parameter kinds -> (baseline binding, extra values specific to the kind)
def S(x):
    return {"s": x}


KIND = {
    "num": (N(10), []), "scale": (N(2), []), "pos": (N(2), []), "len": (N(1), []), "any": (N(1), []), "bool": (True, []),
    "list": ({"l": [N(1), N(2), N(3)]}, []), "str": (S("abc"), []), "pat": (S("b"), []), "flags": (S("i"), []), "sep": (None, []),
    "ctx": ({"c": [["a", N(1)]]}, []),
    "fn": ({"feel": "function(x,y) x < y"}, [{"feel": f} for f in ("function(x,y) x != y", "function(x,y) true", "function(x,y) x >= y", "function(x,y) modulo(x+y,3)=0",
                                                                    "function(x,y) null", "function(x,y) x", "function(x) true", "function(x,y,z) true", "function(y,x) x < y")]),
    "list40": ({"l": [N((i * 17 + 5) % 23) for i in range(40)]}, []),
    "datestr": (S("2021-03-28"), [S(x) for x in DATESTR]), "timestr": (S("02:30:00"), [S(x) for x in TIMESTR]), "durstr": (S("P1D"), [S(x) for x in DURSTR]),
    "dtstr": (S("2021-03-28T01:30:00"), None),   # filled lazily (zone transitions)
    "dateval": ({"date": "2021-03-28"}, []), "timeval": ({"time": "02:30:00"}, []),
    "year": (N(2021), []), "month": (N(3), []), "day": (N(28), []), "hour": (N(2), []), "minute": (N(30), []), "second": (N(0), []),
    "offset": ({"dtd": "PT1H"}, [{"dtd": x} for x in ("P1D", "-P1D", "PT23H59M59S", "-PT23H59M59S", "PT24H", "PT14H59M59S", "PT15H", "PT0.5S", "P18446744073709551615D",
                                                      "PT2147483647S", "PT2147483648S", "-PT2147483649S", "PT4294967296S", "PT4294970896S", "PT9223372036854775807S")]),
    "numstr": (S("1,000.5"), []),
}

ANY2 = [["any"], ["any", "any"]]
VAR = [["list"], ["num", "num"], ["num", "num", "num"]]
SIG = {
    "abs": [["num"]], "after": [["any", "any"]], "all": [["list"], ["bool", "bool"]], "any": [["list"], ["bool", "bool"]],
    "append": [["list", "any"], ["list", "any", "any"]], "before": [["any", "any"]], "ceiling": [["num"]], "coincides": [["any", "any"]],
    "concatenate": [["list"], ["list", "list"], ["list", "list", "list"]], "contains": [["str", "str"]], "count": [["list"]],
    "date": [["datestr"], ["year", "month", "day"]], "date and time": [["dtstr"], ["dateval", "timeval"]], "decimal": [["num", "scale"]],
    "distinct values": [["list"]], "duration": [["durstr"]], "ends with": [["str", "str"]], "even": [["num"]], "exp": [["num"]], "flatten": [["list"]],
    "floor": [["num"]], "get entries": [["ctx"]], "get value": [["ctx", "str"]], "index of": [["list", "any"]], "insert before": [["list", "pos", "any"]],
    "list contains": [["list", "any"]], "log": [["num"]], "lower case": [["str"]], "matches": [["str", "pat"], ["str", "pat", "flags"]],
    "max": VAR, "min": VAR, "mean": VAR, "median": VAR, "mode": VAR, "stddev": VAR, "sum": VAR, "modulo": [["num", "num"]], "not": [["bool"]],
    "number": [["numstr", "sep", "sep"]], "odd": [["num"]], "remove": [["list", "pos"]], "replace": [["str", "pat", "str"], ["str", "pat", "str", "flags"]],
    "reverse": [["list"]], "sort": [["list40", "fn"]], "split": [["str", "pat"]], "sqrt": [["num"]], "starts with": [["str", "str"]], "string": [["any"]],
    "string length": [["str"]], "sublist": [["list", "pos"], ["list", "pos", "len"]], "substring": [["str", "pos"], ["str", "pos", "len"]],
    "substring after": [["str", "str"]], "substring before": [["str", "str"]],
    "time": [["timestr"], ["hour", "minute", "second"], ["hour", "minute", "second", "offset"]], "union": [["list"], ["list", "list"]],
    "upper case": [["str"]], "years and months duration": [["dateval", "dateval"]],
}
NAMED_KIND = {   # parameter name -> kind (per function where the name is ambiguous)
    "n": "num", "number": "num", "scale": "scale", "list": "list", "string": "str", "match": "str", "from": "any", "year": "year", "month": "month", "day": "day",
    "date": "dateval", "time": "timeval", "m": "ctx", "key": "str", "position": "pos", "newItem": "any", "input": "str", "pattern": "pat", "flags": "flags",
    "dividend": "num", "divisor": "num", "negand": "bool", "grouping separator": "sep", "decimal separator": "sep", "replacement": "str", "precedes": "fn",
    "delimiter": "pat", "start position": "pos", "length": "len", "hour": "hour", "minute": "minute", "second": "second", "offset": "offset", "to": "dateval",
    "point": "any", "point1": "any", "point2": "any", "range": "any", "range1": "any", "range2": "any",
}
FROM_KIND = {"date": "datestr", "date and time": "dtstr", "duration": "durstr", "time": "timestr", "number": "numstr", "string": "any",
             "years and months duration": "dateval"}

_BIFS = None


def bifs():
    """[(name, positional signatures, named alternatives)] for every built-in the SUT knows (read from its sources)."""
    global _BIFS
    if _BIFS is not None:
        return _BIFS
    params = c05_dict.bif_parameters()
    arities = positional_arities()
    out = []
    for name, _variant in c05_dict.bif_names():
        sigs = [list(s) for s in SIG.get(name, ANY2)]
        have = {len(s) for s in sigs}
        for a in arities.get(name, []):       # an arity the source accepts but the table above does not know
            if a not in have:
                sigs.append(["any"] * a)
        alts = []
        for alt in params.get(name, []):
            if len(alt) > 4:                  # after/before/coincides: pairs of alternative names
                alts.extend([alt[i:i + 2] for i in range(0, len(alt) - 1, 2)])
            else:
                alts.append(alt)
                if len(alt) > 2:
                    alts.append(alt[:-1])     # optional last parameter omitted
        out.append((name, sigs, alts))
    _BIFS = out
    return out


def positional_arities():
    """function name -> set of arities with an explicit match arm in positional.rs."""
    import os
    try:
        with open(os.path.join(c05_dict.REPO, "feel-evaluator/src/bifs/positional.rs"), encoding="utf-8") as f:
            src = f.read()
    except OSError:
        return {}
    fn_of_variant = dict(re.findall(r"Bif::(\w+)\s*=>\s*(bif_\w+)\(parameters\)", src))
    bodies = dict(re.findall(r"^fn (bif_\w+)\(_?parameters: &\[Value\]\) -> Value \{(.*?)^\}", src, re.M | re.S))
    out = {}
    for name, variant in c05_dict.bif_names():
        body = bodies.get(fn_of_variant.get(variant, ""), "")
        out[name] = sorted({int(x) for x in re.findall(r"^\s*(\d+)\s*=>", body, re.M) if int(x) <= 6})
    return out


def kind_values(kind):
    base, extra = KIND[kind]
    if kind == "dtstr" and extra is None:
        extra = [S(x) for x in dtstrs()]
        KIND[kind] = (base, extra)
    return base, extra


def named_kind(fname, pname):
    if fname == "sort" and pname == "list":
        return "list40"
    if pname == "from":
        return FROM_KIND.get(fname, "any")
    if fname in ("even", "odd", "exp", "log", "sqrt") and pname == "number":
        return "num"
    return NAMED_KIND.get(pname, "any")


WRAPS = ["{X}", "string({X})", "{X} = {X}", "{X} < {X}", "{X} - {X}", "[{X}][1]", "{X}.weekday", "{X}.time offset", "{X}.timezone",
         "{X} + duration(\"P1D\")", "{X} - duration(\"P1Y\")", "{X} in [{X}..{X}]", "{X} between {X} and {X}", "date({X})", "time({X})",
         "{X}.year", "{X}.seconds", "{X}.months", "{X} * 2", "{X} / 0.001", "{X} instance of Any", "{r: {X}}.r", "[{X}, {X}]", "-({X})",
         "{X} * E", "years and months duration({X}, {X})", "date and time({X}, time(\"02:30:00@Europe/Warsaw\"))"]
TEMPORAL_FUNCS = {"date", "time", "date and time", "duration", "years and months duration"}


def call_text(fname, args, names=None, inline=None):
    parts = []
    for i in range(len(args)):
        a = inline[i] if inline and inline[i] is not None else "a%d" % i
        parts.append(("%s: %s" % (names[i], a)) if names else a)
    return "%s(%s)" % (fname, ", ".join(parts))


def sweep_case(fname, bindings, names=None, wrap="{X}", inline=None, labels=()):
    scope = [[["a%d" % i, b] for i, b in enumerate(bindings)] + ([["E", N("1E+6000")]] if " E" in wrap else [])]
    text = wrap.replace("{X}", call_text(fname, bindings, names, inline))
    return {"t": text, "es": ["textual"], "s": scope, "sk": hashlib.sha1(repr(bindings).encode()).hexdigest()[:12], "cls": "bif:" + fname, "k": 10 ** 6,
            "labels": ["bif:" + fname, "named" if names else "positional"] + list(labels)}


def enum_sweeps(ctx):
    """One-at-a-time: every parameter of every signature of every built-in takes every alphabet value (and the values
    specific to its kind) while the other parameters keep a typical valid value; positional and named."""
    for fname, sigs, alts in bifs():
        variants = [(sig, None) for sig in sigs] + [([named_kind(fname, p) for p in alt], alt) for alt in alts]
        # wrong arities: 0 .. 5 arguments of a plain value
        for a in range(0, 6):
            yield dict(sweep_case(fname, [N(1)] * a, labels=["arity:%d" % a]), part="sweep")
        # named invocations with a parameter left out, misspelled, given twice, or with a foreign extra one; no parameters at all
        for alt in alts:
            vals = [kind_values(named_kind(fname, p))[0] for p in alt]
            for i in range(len(alt)):
                yield dict(sweep_case(fname, vals[:i] + vals[i + 1:], alt[:i] + alt[i + 1:], labels=["named:omitted"]), part="sweep")
                yield dict(sweep_case(fname, vals, alt[:i] + ["zz"] + alt[i + 1:], labels=["named:misspelled"]), part="sweep")
                yield dict(sweep_case(fname, vals, alt[:i] + [alt[i].upper()] + alt[i + 1:], labels=["named:misspelled"]), part="sweep")
                yield dict(sweep_case(fname, vals + [vals[i]], alt + [alt[i]], labels=["named:twice"]), part="sweep")
            yield dict(sweep_case(fname, vals + [N(1)], alt + ["zz"], labels=["named:extra"]), part="sweep")
            yield dict(sweep_case(fname, vals[:1], ["zz"], labels=["named:misspelled"]), part="sweep")
        for sig, names in variants:
            base = [kind_values(k)[0] for k in sig]
            wraps = ["{X}", "string({X})"] + (["{X} = {X}", "{X} < {X}", "{X} - {X}", "{X}.time offset", "{X}.weekday"] if fname in TEMPORAL_FUNCS else [])
            for i, kind in enumerate(sig):
                values = [(lab, b, lit) for lab, b, lit in ALPHABET] + [("kind:" + kind, b, None) for b in kind_values(kind)[1]]
                for vi, (lab, b, lit) in enumerate(values):
                    if lab == "nest200" and not DEEP_OK[0]:
                        continue
                    if not ctx.thorough() and vi < len(ALPHABET) and lab not in CORE and (vi + i + ctx.seed) % 3:
                        continue      # quick: the core extremes, the kind's own values and a seed-rotated third of the rest
                    args = list(base)
                    args[i] = b
                    w = wraps[vi % len(wraps)] if vi >= len(ALPHABET) or fname in TEMPORAL_FUNCS else wraps[0]
                    if fname in TEMPORAL_FUNCS and vi >= len(ALPHABET):
                        for w in wraps:
                            yield dict(sweep_case(fname, args, names, w, labels=["arg:" + kind]), part="sweep")
                        continue
                    inline = None
                    if lit is not None and (vi + i) % 2 == 1:
                        inline = [None] * len(args)
                        inline[i] = lit
                    yield dict(sweep_case(fname, args, names, w, inline, labels=["arg:" + kind]), part="sweep")


def enum_at_literals(ctx):
    """Every temporal string of the kinds above as an @"..." literal, alone and under comparison / subtraction / conversion."""
    seen = set()
    for kind in ("datestr", "timestr", "dtstr", "durstr"):
        for b in kind_values(kind)[1]:
            t = b["s"]
            if t in seen or '"' in t or "\\" in t:
                continue
            seen.add(t)
            lit = '@"%s"' % t
            for w in ("{X}", "{X} = {X}", "{X} < {X}", "{X} - {X}", "string({X})", "{X}.time offset", "{X}.weekday", "{X} + @\"P1D\"", "{X} in [{X}..{X}]"):
                yield {"t": w.replace("{X}", lit), "es": ["textual"], "s": [], "sk": "", "cls": "at-literal", "k": 10 ** 6, "part": "sweep", "labels": ["at-literal:" + kind]}


def enum_escapes(ctx):
    """String literals with \\u / \\U escapes at the UTF-8 / UTF-16 boundaries, complete and cut short."""
    four = ["0000", "0001", "007F", "0080", "07FF", "0800", "D7FF", "D800", "DBFF", "DC00", "DFFF", "E000", "FFFD", "FFFE", "FFFF", "00g0", "12", "", "+123", "-001", " 041"]
    six = ["000000", "00007F", "000080", "0007FF", "000800", "00FFFF", "010000", "10FFFF", "110000", "FFFFFF", "00D800", "00DFFF", "1F640", "1F6400", "", "G00000"]
    esc = ["\\u" + x for x in four] + ["\\U" + x for x in six]
    esc += ["\\u" + h + "\\u" + l for h in ("D800", "DBFF", "D83D") for l in ("DC00", "DFFF", "DE40", "0041", "D800", "", "DC0", "E000")]
    esc += ["\\uD800\\U00DC00", "\\uD83D\\n", "\\uD83D\\", "\\", "\\x41", "\\'", "\\\"", "\\\\", "\\n\\r\\t", "\\u0022", "\\u005C"]
    for e in esc:
        for t in ('"%s"', '"a%sb"', '"%s', '{"%s": 1}', '"%s" = "%s"', 'string length("%s")', '@"%s"'):
            text = t.replace("%s", e)
            for entry in ("textual", "context", "unary"):
                yield {"t": text, "es": [entry], "s": [], "sk": "", "cls": "string-escapes", "k": 1, "part": "entries", "labels": ["string-escapes"]}


PAIR_VALUES = ["0", "1", "-1", "n", "-n", "n+1", "-(n+1)", "2", "2^63-1", "2^63", "-2^63", "2^64-1", "2^64", "1E+6000", "0.5", "null", "-0", "1000", "-1000"]


def enum_pairs(ctx):
    """Two parameters at a time: quick = the (position, length) pairs of sublist / substring; thorough = every pair of parameters of every signature."""
    vals = [ALPHABET[AIDX[k]] for k in PAIR_VALUES]
    for fname, sigs, alts in bifs():
        variants = [(sig, None) for sig in sigs] + [([named_kind(fname, p) for p in alt], alt) for alt in alts]
        for sig, names in variants:
            for i in range(len(sig)):
                for j in range(i + 1, len(sig)):
                    if not ctx.thorough() and not (sig[i] == "pos" and sig[j] == "len"):
                        continue
                    for which in ("short", "long"):
                        base = [kind_values(k)[0] for k in sig]
                        if which == "long":
                            if sig[0] == "list":
                                base[0] = BIGLIST
                            elif sig[0] == "str":
                                base[0] = BIGSTR
                            else:
                                continue
                        for _, a, _ in vals:
                            for _, b, _ in vals:
                                args = list(base)
                                args[i], args[j] = a, b
                                yield dict(sweep_case(fname, args, names, "{X}", None, labels=["pair:%s,%s" % (sig[i], sig[j])]), part="sweep")


def gen_sweep(src):
    """Random combinations: every parameter from the alphabet (biased to the core extremes and to the kind's own values)."""
    fname, sigs, alts = src.choice(bifs())
    if alts and src.bool(0.35):
        names = src.choice(alts)
        sig = [named_kind(fname, p) for p in names]
        if src.bool(0.1) and len(names) > 1:     # permuted / duplicated / foreign parameter names
            names = src.shuffle(names)
    else:
        names = None
        sig = list(src.choice(sigs))
        if src.bool(0.05):
            sig = sig + ["any"]
    args, inline = [], []
    for kind in sig:
        base, extra = kind_values(kind)
        how = src.weighted([(2, "base"), (4, "core"), (3, "any"), (3, "kind")])
        lit = None
        if how == "base":
            b = base
        elif how == "kind" and extra:
            b = src.choice(extra)
        elif how == "core":
            _, b, lit = ALPHABET[AIDX[src.choice(CORE)]]
        else:
            lab, b, lit = src.choice(ALPHABET)
            if lab == "nest200" and not DEEP_OK[0]:
                b = nest_list(16)
        args.append(b)
        inline.append(lit if (lit is not None and src.bool(0.3)) else None)
    labels = ["random-args"]
    strs = [i for i, k in enumerate(sig) if k in ("str", "pat")]
    if len(strs) >= 2 and src.bool(0.3):
        # related texts: the second string argument OCCURS in the first (whole, a prefix, a suffix, one character, a slice between
        # characters of 1..4 bytes); unrelated arguments meet `not found` paths only
        whole = src.choice(RELATED_TEXTS)
        n = len(whole)
        i0 = src.int(0, n)
        i1 = src.int(i0, n)
        part = src.choice([whole, whole[:i1], whole[i0:], whole[i0:i1], whole[i0:i0 + 1], whole[-1:], ""])
        args[strs[0]], args[strs[1]] = S(whole), S(part)
        inline[strs[0]] = inline[strs[1]] = None
        labels.append("related-texts")
    wrap = src.weighted([(6, "{X}"), (2, "string({X})"), (4, None)])
    if wrap is None:
        wrap = src.choice(WRAPS)
    return sweep_case(fname, args, names, wrap, inline, labels=labels)


RELATED_TEXTS = ["a\u00e9b", "10 \u20ac net", "na\u00efve", "\U0001f40ebar", "bar\U0001f40e", "x\U0001f40ey\U0001f40ez", "a\u0301bc", "\u03a9\u2248\u00e7\u221a", "\u00e9\u00e9\u00e9",
                 "abc", "\u4e2d\u6587\u5b57", "a\u00e9\U0001f40e\u4e2d", "\u00df", "\U0001f40e"]


# ---- operator x value-kind matrix -------------------------------------------------------------------------------------

OPS2 = ["+", "-", "*", "/", "**", "=", "!=", "<", "<=", ">", ">=", "and", "or", "in"]
MATRIX = ["0", "1", "-1", "0.5", "2^63", "2^64", "1E+6000", "-1E+6000", "1E-6000", "max", "-0", "10^34-1", "\"\"", "\"abc\"", "str1000", "null", "true", "false", "[]", "[1,2,3]",
          "nested", "nest16", "nest200", "{}", "{a:1}", "ctx200", "range", "range-rev", "range-date", "fn2", "bif", "date", "date-max", "date-min", "time", "time-z", "time-off",
          "time-zone", "dt", "dt-z", "dt-off", "dt-zone", "dt-max", "dt-min", "dt-262143", "dt-262144", "dtd", "dtd-neg", "dtd-max", "dtd-2^63s", "dtd-0", "ymd", "ymd-neg",
          "ymd-big", "ymd-i64max"]


MATRIX_QUICK = ["0", "-1", "0.5", "2^63", "1E+6000", "-0", "\"\"", "\"abc\"", "null", "true", "[]", "[1,2,3]", "nest16", "{a:1}", "range", "range-date", "fn2", "date",
                "date-max", "time-zone", "time-off", "dt-zone", "dt-max", "dt-262144", "dtd", "dtd-max", "ymd", "ymd-i64max"]


def enum_matrix(ctx):
    """thorough: every operator on every ordered pair of MATRIX values; quick: the smaller value set and a seed-rotated third of the operators per pair."""
    keys = MATRIX if ctx.thorough() else MATRIX_QUICK
    vals = [ALPHABET[AIDX[k]] for k in keys if k != "nest200" or DEEP_OK[0]]
    # unary forms first
    for lab, b, _ in vals:
        for t in ("-a", "a", "not(a)", "a[1]", "a[-1]", "a[0]", "a[a]", "a.a", "a instance of number", "a instance of list<Any>", "string(a)", "[a]", "{k: a}.k",
                  "a between a and a", "a in a", "a in (a..a)", "a in [a..a]", "if a then a else a", "for i in a return i", "some i in a satisfies i = a",
                  "every i in a satisfies i", "a.year", "a.month", "a.day", "a.weekday", "a.hour", "a.minute", "a.second", "a.time offset", "a.timezone",
                  "a.days", "a.hours", "a.minutes", "a.seconds", "a.years", "a.months", "a(a)", "a(a, a)", "a(x: a)", "function(x) x(a)", "a[a > a]", "a[item = a]",
                  "a in (< a)", "a in (>= a, a)"):
            if lab in ("list1000", "str1000") and ("for" in t or "some" in t or "every" in t):
                continue
            yield {"t": t, "es": ["textual"], "s": [[["a", b]]], "sk": "a=" + lab, "cls": "op:unary", "k": 10 ** 6, "part": "matrix", "labels": ["kind:" + lab]}
        for e in ("unary",):
            for t in ("a", "< a", ">= a", "not(a)", "[a..a]", "(a..a)", "a, a", "not(a, < a)", "-"):
                yield {"t": t, "es": [e], "s": [[["a", b]]], "sk": "a=" + lab, "cls": "op:unary-tests", "k": 10 ** 6, "part": "matrix", "labels": ["kind:" + lab]}
    for ia, (la, a, _) in enumerate(vals):
        for ib, (lb, b, _) in enumerate(vals):
            for io, op in enumerate(OPS2):
                if not ctx.thorough() and (ia + ib + io + ctx.seed) % 3:
                    continue
                yield {"t": "a %s b" % op, "es": ["textual"], "s": [[["a", a], ["b", b]]], "sk": "a=%s,b=%s" % (la, lb), "cls": "op:" + op, "k": 10 ** 6, "part": "matrix",
                       "labels": ["op:" + op]}


# ------------------------------------------------------------------------------------------------------------------
# source 4: nesting-depth ramps
# ------------------------------------------------------------------------------------------------------------------

def shapes():
    def rep(open_, close, core="1"):
        return lambda d: open_ * d + core + close * d

    return [
        ("parens", rep("(", ")")), ("lists", rep("[", "]")), ("contexts", lambda d: "{a:" * d + "1" + "}" * d),
        ("if", lambda d: "if true then " * d + "1" + " else 0" * d), ("if-cond", lambda d: "if " * d + "true" + " then true else false" * d),
        ("unary-minus", lambda d: "-" * d + "1"), ("unary-minus-spaced", lambda d: "- " * d + "1"),
        ("filters", lambda d: "[1]" + "[1]" * d), ("filters-nested", lambda d: "[1][" * d + "1" + "]" * d),
        ("invocations", lambda d: "abs(" * d + "-1" + ")" * d), ("not", lambda d: "not(" * d + "true" + ")" * d),
        ("paths", lambda d: "c" + ".a" * d), ("paths-lit", lambda d: "{a:" * d + "1" + "}" * d + ".a" * d),
        ("fn-def", lambda d: "function(x) " * d + "x"), ("fn-call", lambda d: "(function(x) " * d + "x" + ")(1)" * d),
        ("for", lambda d: "for i in [1] return " * d + "i"), ("some", lambda d: "some i in [true] satisfies " * d + "i"),
        ("every", lambda d: "every i in [true] satisfies " * d + "i"),
        ("add-left", lambda d: "1" + "+1" * d), ("add-right", lambda d: "1+(" * d + "1" + ")" * d), ("exp-chain", lambda d: "2" + "**1" * d),
        ("and-chain", lambda d: "true" + " and true" * d), ("or-chain", lambda d: "false" + " or false" * d), ("cmp-chain", lambda d: "1" + " = 1" * d),
        ("between", lambda d: "1 between (" * d + "1" + ") and 2" * d), ("in", lambda d: "1 in (" * d + "1" + ")" * d),
        ("instance-of", lambda d: "x instance of " + "list<" * d + "number" + ">" * d), ("fn-type", lambda d: "x instance of " + "function<" * d + "number" + ">->number" * d),
        ("range", lambda d: "[" * d + "1..2" + "]" * d), ("named-args", lambda d: "abs(n: " * d + "1" + ")" * d), ("comments", lambda d: "/* c */ " * d + "1"),
        ("string-escapes", lambda d: "\"" + "\\u0041" * d + "\""), ("list-wide", lambda d: "[" + ",".join(["1"] * d) + "]"),
        ("context-wide", lambda d: "{" + ",".join("k%d:%d" % (i, i) for i in range(d)) + "}"), ("args-wide", lambda d: "max(" + ",".join(["1"] * d) + ")"),
        ("params-wide", lambda d: "function(" + ",".join("p%d" % i for i in range(d)) + ") p0"), ("iter-wide", lambda d: "for " + ", ".join("i%d in [1]" % i for i in range(d)) + " return i0"),
        ("unary-tests-wide", lambda d: ",".join(["1"] * d)), ("textuals-wide", lambda d: ",".join(["1+1"] * d)), ("name-parts", lambda d: " ".join(["w"] * d)),
        ("name-symbols", lambda d: "a" + "-b" * d), ("at-literal", lambda d: "@\"P" + "1" * d + "D\""), ("digits", lambda d: "1" * d + "." + "1" * d),
        ("flatten", lambda d: "flatten(" + "[" * d + "1" + "]" * d + ")"), ("string-of-nested", lambda d: "string(" + "[" * d + "1" + "]" * d + ")"),
        ("eq-nested", lambda d: "[" * d + "1" + "]" * d + " = " + "[" * d + "1" + "]" * d),
        # equality (and what rests on it) of deeply nested values whose innermost entries are equal / different / of kinds that have no
        # equality (ranges, functions, a number against a string): one pass over the structure whatever the answer is
        ("eq-ctx", lambda d: "{a:" * d + "1" + "}" * d + " = " + "{a:" * d + "1" + "}" * d),
        ("eq-ctx-differs", lambda d: "{a:" * d + "1" + "}" * d + " != " + "{a:" * d + "2" + "}" * d),
        ("eq-ctx-ranges", lambda d: "{a:" * d + "[1..2]" + "}" * d + " = " + "{a:" * d + "[1..2]" + "}" * d),
        ("eq-ctx-mixed", lambda d: "{a:" * d + "1" + "}" * d + " = " + "{a:" * d + "\"s\"" + "}" * d),
        ("eq-ctx-functions", lambda d: "{a:" * d + "abs" + "}" * d + " != " + "{a:" * d + "abs" + "}" * d),
        ("eq-ctx-list-mixed", lambda d: "{a:[" * d + "[1..2]" + "]}" * d + " = " + "{a:[" * d + "[1..2]" + "]}" * d),
        ("contains-ctx-ranges", lambda d: "list contains([" + "{a:" * d + "[1..2]" + "}" * d + "], " + "{a:" * d + "[1..2]" + "}" * d + ")"),
        ("distinct-ctx-mixed", lambda d: "count(distinct values([" + "{a:" * d + "1" + "}" * d + ", " + "{a:" * d + "\"s\"" + "}" * d + "]))"),
        ("in-ctx-ranges", lambda d: "{a:" * d + "[1..2]" + "}" * d + " in [" + "{a:" * d + "[1..2]" + "}" * d + "]"),
    ]


RAMP_BUDGET = 0.5     # a 200-deep text parses and evaluates in milliseconds

DEEP_PROBE = "v instance of list<Any>"
DEEP_CLS = "nesting:values-type-of"


def ramp_case(text, entries, scope, cls, labels):
    return {"t": text, "es": entries, "s": scope, "sk": "ramp", "cls": cls, "k": 10 ** 6, "part": "ramp", "labels": labels, "budget": RAMP_BUDGET}


def enum_ramps(ctx, d):
    """All shapes at depth d. A shape that hung or killed the process at a smaller depth is not repeated (it would only add the
    cost of another confirmation)."""
    for name, f in shapes():
        # the context bound to `c` is at most 50 deep: the lexer flattens all keys of the scope for every name token, which is
        # polynomial (about 30 ms per token for a 200-deep context): legitimate, but too slow for 200 tokens in the quick tier
        scope = [[["c", nest_ctx(min(d, 50))], ["x", N(1)]]] if name == "paths" else [[["x", N(1)]]]
        cls = "nesting:" + name
        if cls in _HUNG:
            ctx.classes["ramp-skipped-after-hang-at-smaller-depth:" + name] += 1
            continue
        text = f(d)
        entries = ["textual"]
        if d in (DEPTHS[0], DEPTHS[-1]):
            entries += ["expression", "boxed"]
            if name in ("contexts", "context-wide"):
                entries.append("context")
            if name in ("unary-tests-wide", "parens", "unary-minus", "not", "in", "range", "lists"):
                entries.append("unary")
            if name == "textuals-wide":
                entries.append("textuals")
            if name in ("name-parts", "name-symbols", "paths"):
                entries += ["name", "longest_name"]
        yield ramp_case(text, entries, scope, cls, ["depth:%d" % d, "shape:" + name])


def enum_deep_values(ctx, d):
    """Values nested d deep handed to built-ins and operators through the scope."""
    scope = [[["v", nest_list(d)], ["w", nest_ctx(d)]]]
    for f in ("flatten(v)", "string(v)", "v = v", "count(v)", "distinct values(v)", "v[1]", "v.a", "get entries(w)", "string(w)", "w = w", "w.a", "[v, w]",
              "union(v, v)", "index of(v, v)", "list contains(v, 1)", "w instance of context<a: Any>", "for i in v return i", "sort(v, function(a,b) a < b)",
              "abs(v)", "v + 1", "v < v", "v in v", "v instance of number", "w instance of number", "abs(w)", "append(v, v)", "reverse(v)", "sum(v)", "max(v)", "v[v]"):
        yield ramp_case(f, ["textual"], scope, "nesting:values", ["depth:%d" % d, "shape:values"])


# ------------------------------------------------------------------------------------------------------------------
# source 5: parser entry points x parsing scopes (names)
# ------------------------------------------------------------------------------------------------------------------

TEMPLATES = ["{n}", "{n} + {m}", "{n}+{m}", "{n} - {m}", "{n}-{m}", "{n} {m}", "{n}.{m}", "{n} . {m}", "{n}({m})", "{n} ({m})", "{n}[{m}]", "{n}[{m} > 1]", "{ {n}: 1 }", "{ {n}: {m} }",
             "{ {n}: 1, r: {n} + 1 }", "for {n} in [1] return {n}", "for {n} in [1] return 1", "for {n} in {m} return {n}", "for {n} in 1..2 return {n}", "for {n} in 1..2, {m} in [1] return {n}",
             "some {n} in [1] satisfies {n} = 1", "every {n} in [1] satisfies {n}", "some {n} in {m} satisfies {n}", "every {n} in [1], {m} in [2] satisfies {n} < {m}",
             "function({n}) {n}", "function({n}, {m}) {n} + {m}", "function({n}: number) {n}", "(function({n}) {n})(1)", "{n} instance of {m}", "{n} instance of number",
             "{n} between {m} and {n}", "{n} in {m}", "{n} in [{m}..{n}]", "{n} in ({m}, {n})", "if {n} then {m} else {n}", "if {n} = 1 then {m} else null", "-{n}", "- {n}", "not({n})",
             "{n} and {m}", "{n} or {m}", "{n} = {m}", "{n}!={m}", "{n} < {m}", "{n}<={m}", "{n} ** {m}", "{n} * {m}", "{n}*{m}", "{n} / {m}", "{n}/{m}", "[{n}, {m}]", "[{n}..{m}]",
             "{n}, {m}", "< {n}", "not({n}, {m})", "abs({n})", "abs(n: {n})", "sum({n}, {m})", "f({n}: 1)", "f({n}: 1, {m}: 2)", "{n}:{m}", "{n}: {m}", "date({n})", "@\"{n}\"",
             "{n}.{n}.{n}", "{n} {n} {n}", "{n}  {m}", "{n}\t{m}", "{n}\n{m}", "{n} // c\n + {m}", "{n} /* c */ + {m}", "({n})", "( {n} )", "{n} in", "in {n}", "for {n}", "for {n} in",
             "for {n} in [1]", "for {n} in [1] return", "some {n} in", "every {n}", "{n} instance", "{n} instance of", "function({n}", "function({n})", "{ {n}", "{ {n}:", "{n}(", "{n}[",
             "for in {n} return 1", "for {n} in in return 1", "for {n}, {m} in [1] return 1", "for {n} in [1], in [2] return 1", "some in [1] satisfies true", "for  in [1] return 1",
             "for {n}in [1] return 1", "for {n} in[1] return 1", "for {n} in [1]return 1", "for{n} in [1] return 1"]
UNBOUND = ["q", "q r", "q-r", "q.r", "q+r", "q/r", "q*r", "q'r", "in.q", "in-q", "in+q", "in/q", "in*q", "in'q", "in.in", "in", "item", "item x", "item.x", "for q", "if q", "date q",
           "time.q", "duration-q", "date and time", "not", "not q", "some", "every", "function", "list", "context", "range", "null", "true", "false", "nullx", "true.x", "then", "else",
           "return", "satisfies", "and", "or", "between", "instance", "of", "external", "partial", "q in", "in q", "q in r", "?", "?q", "_", "q?", "\u00e9", "q\u00b7r", "q\u0301", "in\u00b7x",
           "in\u200c", "in\u2000x", "q\u2000r", "in\u00a0x"]


def scope_names(sk):
    return [b[0] for ctxs in SCOPES[sk] for b in ctxs]


def gen_names(src):
    sk = src.choice(SCOPE_KEYS)
    pool = scope_names(sk)
    def pick():
        if pool and src.bool(0.6):
            return src.choice(pool)
        if src.bool(0.7):
            return src.choice(UNBOUND)
        return src.choice(MULTI_NAMES + KEYWORD_NAMES)
    t = src.choice(TEMPLATES)
    n, m = pick(), pick()
    text = t.replace("{n}", n).replace("{m}", m)
    pieces = tokenize(text)
    return {"t": text, "es": [src.choice(ENTRIES)], "s": SCOPES[sk], "sk": sk, "cls": "names", "k": len([p for p in pieces if not p.isspace()]),
            "labels": ["scope:" + sk]}


def enum_entries(ctx):
    """Every entry point x every parsing scope x (every name of the scopes and every unbound shape) x the short templates."""
    short = [t for t in TEMPLATES if t.count("{m}") == 0]
    for si, sk in enumerate(SCOPE_KEYS):
        for ni, name in enumerate(UNBOUND + MULTI_NAMES + KEYWORD_NAMES + [b[0] for b in SINGLE]):
            for ti, t in enumerate(short):
                if not ctx.thorough() and (si + ni + ti + ctx.seed) % 4:
                    continue      # quick: a seed-rotated quarter of the grid
                text = t.replace("{n}", name)
                pieces = tokenize(text)
                yield {"t": text, "es": list(ENTRIES), "s": SCOPES[sk], "sk": sk, "cls": "names", "k": len([p for p in pieces if not p.isspace()]), "part": "entries",
                       "labels": ["scope:" + sk]}


# ---- type annotations x values: coercion and conformance reached through FEEL text ---------------------------------------

T_SIMPLE = ["number", "string", "boolean", "Any", "Null", "date", "time", "date and time", "days and time duration", "years and months duration"]
T_VALUES = ["1", "-0.5", '"a"', "true", "null", "[]", "[1]", "[1, 2]", '["a"]', "[[]]", "[[1]]", "[null]", "[{a: 1}]", "{}", "{a: 1}", '{a: 1, b: "x"}', "{a: {b: 1}}",
            "[1..2]", "(1..2)", '["a".."b"]', "[[1..2]]", '@"2021-01-01"', '@"10:00:00"', '@"2021-01-01T10:00:00Z"', '@"P1D"', '@"P1Y"', "abs", "count",
            "function() 1", "function(a) a", "function(a: number) a", "function(a, b) a", "function(a: number, b: string) a", "function(a, b, c) 1",
            "function(a: list<number>) a", "function(f: function<number> -> Any) f(1)", "[function(a) a]", "[function() 1, function() 2]"]


def g_type(src, depth=2):
    k = "simple" if depth <= 0 else src.weighted([(5, "simple"), (2, "list"), (1, "range"), (2, "context"), (3, "function")])
    if k == "simple":
        return src.choice(T_SIMPLE)
    if k == "list":
        return "list<%s>" % g_type(src, depth - 1)
    if k == "range":
        return "range<%s>" % g_type(src, 0)
    if k == "context":
        names = src.sample(["a", "b", "c"], src.int(1, 3))
        return "context<%s>" % ", ".join("%s: %s" % (n, g_type(src, depth - 1)) for n in sorted(names))
    return "function<%s> -> %s" % (", ".join(g_type(src, depth - 1) for _ in range(src.int(0, 3))), g_type(src, depth - 1))


def gen_typed(src):
    """a value meets a type annotation: typed formal parameter (positional / named invocation, in a context entry, passed on to an inner typed
    function), and `instance of`; types to depth 2 incl. function types of 0..3 parameters, values incl. function definitions of other arities"""
    ty, v = g_type(src), src.choice(T_VALUES)
    form = src.weighted([(4, "positional"), (3, "named"), (3, "entry"), (2, "instance"), (2, "apply"), (1, "list-arg"), (1, "two")])
    if form == "positional":
        text = "(function(p: %s) p)(%s)" % (ty, v)
    elif form == "named":
        text = "{g: function(p: %s) p, r: g(p: %s)}.r" % (ty, v)
    elif form == "entry":
        text = "{g: function(p: %s) [p, p], r: g(%s)}.r" % (ty, v)
    elif form == "instance":
        text = "%s instance of %s" % (v if not v.startswith("function") else "(" + v + ")", ty)
    elif form == "apply":
        text = "{apply: function(f: %s) f(1, 2), r: apply(%s)}.r" % (ty, v)
    elif form == "list-arg":
        text = "(function(p: %s) p)([%s])" % (ty, v)
    else:
        text = "(function(p: %s, q: %s) [p, q])(%s, %s)" % (ty, g_type(src, 1), v, src.choice(T_VALUES))
    return {"t": text, "es": ["textual"], "s": [], "sk": "", "cls": "typed", "k": 10 ** 6, "labels": ["typed:" + form, "typed-type:" + ty.split("<")[0]]}


# ---- iteration domains at the edges of the integer range; recursion ---------------------------------------------------

ITER_BUDGET = 0.5    # this part's requests take microseconds; its own budget keeps a confirmed hang at 5 s


def enum_iteration(ctx, probes):
    """probes=False: the cases expected to answer at once; probes=True: the few cases that hang or kill the process while the
    corresponding findings are open (run one request per batch so that nothing else has to be re-run)."""
    M = 2 ** 63 - 1

    def case(t, scope, dom, labels, cls="iteration-range-edge"):
        return {"t": t, "es": ["textual"], "s": scope, "sk": "", "cls": cls, "k": 10 ** 6, "part": "iteration", "labels": labels, "dom": dom, "budget": ITER_BUDGET}

    # ranges of at most three integers placed at the edges of the 64/32-bit ranges.  The two ranges that END at isize::MAX / isize::MIN
    # are probed by exactly one text each (quick: ascending only): they are the trigger set of an open finding whose release-build
    # symptom is a hang, and every further text of that set would cost another 10 s confirmation.
    edges = [(1, 3), (3, 1), (0, 0), (-1, 1), (M - 2, M - 1), (M - 1, M - 2), (-M, -M + 1), (-M + 1, -M), (M, M + 1), (M + 1, M + 2), (-M - 2, -M - 1),
             (2 ** 64, 2 ** 64 + 1), (2 ** 31 - 2, 2 ** 31), (2 ** 32 - 2, 2 ** 32), (-2 ** 31 - 1, -2 ** 31 + 1)]
    if not probes:
        for a, b in edges:
            for t in ("for i in %d..%d return i", "for i in [1], j in %d..%d return j", "for j in %d..%d, i in [1,2] return j", "for i in %d..%d return partial"):
                yield case(t % (a, b), [], 6, ["range:inside"])
        # ranges of astronomical length next to an EMPTY domain: the product of the domains is 0, nothing is iterated, the answer is []
        # at once - whatever the distance between the end points (it need not fit the machine integer the end points fit)
        spans = [(-5 * 10 ** 18, 5 * 10 ** 18), (5 * 10 ** 18, -5 * 10 ** 18), (-M, M), (M, -M), (-M - 1, M), (M, -M - 1), (0, M), (M, 0), (-M - 1, 0), (0, -M - 1),
                 (-2 ** 62, 2 ** 62), (2 ** 62 + 1, -2 ** 62), (-2 ** 31, 2 ** 31), (2 ** 32, -2 ** 32), (1, 10 ** 18), (-3, 2 ** 63 - 4)]
        for a, b in spans:
            for t in ("for i in %d..%d, j in [] return i", "for j in [], i in %d..%d return i", "for i in %d..%d, j in [], k in [1, 2] return k",
                      "for k in [1, 2], i in %d..%d, j in [] return k", "count(for i in %d..%d, j in [1, 2][item > 5] return j)"):
                yield case(t % (a, b), [], 1, ["range:long-span-next-to-empty-domain"])
        scope = [[["a", N(M - 3)], ["b", N(M - 1)], ["E", N("1E+6000")], ["h", N("0.5")], ["z", N("-0")], ["d", {"date": "2021-01-01"}]]]
        for t in ("for i in a..b return i", "for i in b..a return i", "for i in a..a return i", "for i in 1..E return 1", "for i in h..1 return i", "for i in 0.5..2.5 return i",
                  "for i in z..1 return i", "for i in \"a\"..\"c\" return i", "for i in null..1 return i", "for i in d..d return i", "for i in E..E return 1", "for i in -E..E return 1"):
            yield case(t, scope, 3, ["range:bound-names"])
        for depth in (1, 10, 100, 1000, 3000):
            yield case(RECURSION % depth, [], 1, ["recursion-depth:%d" % depth], cls="recursion")
        # repeated doubling through context entries: n entries reach 2^n times the largest literal (no iteration needed)
        bases = [("dtd-max", '@"P18446744073709551615DT23H59M59.999999999S"'), ("dtd-min", '-@"P18446744073709551615DT23H59M59.999999999S"'),
                 ("ymd-max", '@"P768614336404564650Y7M"'), ("ymd-min", '-@"P768614336404564650Y7M"'), ("number-max", "9999999999999999999999999999999999 * 10**6110"),
                 ("string", '"ab"'), ("2^62", "4611686018427387904"), ("date-max", '@"999999999-12-31"'), ("dt-max", '@"999999999-12-31T23:59:59Z"')]
        for lab, base in bases:
            for n in (1, 2, 8, 16, 17, 18, 20):
                plus = "{a0: %s, %s}.a%d" % (base, ", ".join("a%d: a%d + a%d" % (i, i - 1, i - 1) for i in range(1, n + 1)), n)
                minus = "{a0: %s, %s}.a%d" % (base, ", ".join("n%d: -a%d, a%d: a%d - n%d" % (i - 1, i - 1, i, i - 1, i - 1) for i in range(1, n + 1)), n)
                times = "{a0: %s, %s}.a%d" % (base, ", ".join("a%d: a%d * 2" % (i, i - 1) for i in range(1, n + 1)), n)
                for t in (plus, minus, times, "string(%s)" % plus, "(%s).days" % plus, "abs(%s)" % minus):
                    yield case(t, [], 1, ["doubling:" + lab, "doublings:%d" % n], cls="doubling")
        # results that quote earlier results: every iteration fails and its null carries a message that names the operands; with `partial`
        # (or a growing context) among the operands each message contains all earlier ones
        for n in (8, 24, 40, 400):
            for body in ("partial * 2", "partial + 1", "-partial", "partial < 1", "partial.x + 1", "[partial, partial] - 1", "sum(partial) + partial",
                         "if partial then 1 else partial * 2", "{a: partial * 2, b: a + 1}.b", "partial[1] * partial", "string length(partial)",
                         "substring(partial, 1)", "partial between 1 and 2", "not(partial)", "date(partial)"):
                yield case("count(for i in 1..%d return %s)" % (n, body), [], n, ["failing-body-quotes-partial", "iterations:%d" % n], cls="partial-in-message")
            if n == 24:
                # operands with 2-, 3- and 4-byte characters at every alignment: wherever a long message is cut, it is cut between characters
                for ch in ("\u00e9", "\u4e2d", "\U0001f600", "\u017c\u20ac"):
                    for pad in range(0, 24):
                        yield case('count(for i in 1..12 return partial * "%s%s")' % ("b" * pad, ch), [], 12,
                                   ["failing-body-quotes-partial", "non-ascii-operand"], cls="partial-in-message")
                        yield case('"%s%s" * 1' % ("a" * (960 + pad), ch * 40), [], 1, ["long-non-ascii-operand-in-message"], cls="partial-in-message")
            yield case("{a0: [], %s}.a%d" % (", ".join("a%d: [a%d, a%d * 2]" % (i, i - 1, i - 1) for i in range(1, min(n, 40) + 1)), min(n, 40)), [], 1,
                       ["failing-entry-quotes-earlier-entries", "entries:%d" % min(n, 40)], cls="partial-in-message")
        return
    yield case("for i in %d..%d return i" % (M - 1, M), [], 2, ["range:ends-at-isize-max"])
    if ctx.thorough():
        yield case("for i in %d..%d return i" % (-M, -M - 1), [], 2, ["range:ends-at-isize-min"])
        yield case("for i in [1], j in %d..%d return j" % (M - 1, M), [], 2, ["range:ends-at-isize-max"])
        yield case("for i in [1], j in %d..%d return j" % (-M, -M - 1), [], 2, ["range:ends-at-isize-min"])
        yield case("for i in %d..%d return i" % (M, M), [], 1, ["range:ends-at-isize-max"])
    # terminating recursion through a context entry (dynamic scoping makes the function visible to itself)
    # (depth 10 000 answers in about a second - the scope is searched linearly - and about 10 500 frames fill the 8 MiB stack)
    for depth in (11000,) + ((100000,) if ctx.thorough() else ()):
        yield case(RECURSION % depth, [], 1, ["recursion-depth:%d" % depth], cls="recursion")


RECURSION = "{f: function(n) if n <= 0 then 0 else f(n - 1), r: f(%d)}.r"


# ------------------------------------------------------------------------------------------------------------------
# module interface
# ------------------------------------------------------------------------------------------------------------------

def gen_grammar(src):
    """grammar-derived texts: well-formed core-fragment expressions of the C01 generator (typed, nested to depth 2-5, with
    wrong-kind splices) and random operator trees of the C06 generator, optionally hit by one mutation, over their own bindings"""
    from ..oracles import feel as F, feel_gen as GEN
    kind = src.weighted([(5, "c01"), (3, "c06")])
    scope = None
    if kind == "c01":
        c = GEN.G(src, wrong=0.25).case(src.int(2, 5))
        text = F.r(c["ast"])
        scope = [c["bindings"]]
        cls = "grammar:c01"
    else:
        try:
            from ..oracles import feel_syntax as S
            text, names = c06_text(src, S)
            scope = [[[n, {"n": str(i + 1)}] for i, n in enumerate(names)]]
            cls = "grammar:c06"
        except Exception:
            c = GEN.G(src).case(3)
            text, scope, cls = F.r(c["ast"]), [c["bindings"]], "grammar:c01"
    labels = [cls]
    if src.bool(0.4):
        text = mutate_once(src, text)
        labels.append("mutated")
    return {"t": text, "es": [src.choice(["expression", "textual", "textuals", "boxed", "unary"])], "s": scope, "cls": cls, "labels": labels, "k": 3}


def c06_text(src, S):
    """a random operator tree of the C06 generator (full operator set) rendered with its minimal parentheses and a generated
    token-preserving layout; returns (text, names to bind)"""
    t = S.gen_tree(src, src.int(2, 5))
    mp = S.minimal_parens(t)
    tokens = S.render(t, mp[0] if isinstance(mp, tuple) else mp)
    text = S.layout_text(tokens, S.gen_gaps(src, tokens) if src.bool(0.5) else None)
    return text, list(S.NAMES)


def setup(ctx):
    ctx.rule = ("cases: (text, parser entry point, parsing scope) triples evaluated through parse + prepare + evaluate on both builds; sources: every FEEL text of the "
                "repository's tests unmutated, truncated at every prefix and mutated (token delete/duplicate/swap/replace/insert from the dictionary, character "
                "insert/delete/replace, bracket imbalance), arbitrary Unicode, one-at-a-time and random argument sweeps of every built-in (positional and named) over an "
                "extreme alphabet, operator x value-kind matrix, nesting ramps at 10/50/100/200, templates over bound/unbound multi-word, symbol and keyword-prefixed names "
                "x 8 entry points x 4 scopes, iteration ranges at the integer edges, recursion. oracle: answer is (tree|error)/(value): no panic, no process death (re-run "
                "alone), no hang (timeout re-run alone 3x with 10x budget; iteration domains > 5000 or not evident are outside the property). non-trivial: parsed and "
                "evaluated, or rejected after the 3rd token (mutation point >= 3 tokens into a text the parser accepts); distinct by text+entry+scope")
    ctx.assumptions = ["a request that takes longer than the per-request budget (2 s quick / 6 s thorough wall clock; 0.5 s for the iteration and nesting parts; > 1000x the "
                       "median) and that then, alone in a fresh driver, three times burns 10x that budget of CPU time without answering, is a hang", "stack size of the evaluating thread is 8 MiB (driver main thread)",
                       "times of day in named zones depend on today's date: such cases are asserted for totality only"]
    ctx.p_harvested = mkpart(ctx, "harvested")
    ctx.p_trunc = mkpart(ctx, "truncation")
    ctx.p_mut = mkpart(ctx, "mutation", gen_mutation)
    ctx.p_uni = mkpart(ctx, "unicode", gen_unicode)
    ctx.p_sweep = mkpart(ctx, "sweep")
    ctx.p_rsweep = mkpart(ctx, "sweep-random", gen_sweep)
    ctx.p_matrix = mkpart(ctx, "matrix")
    ctx.p_ramp = mkpart(ctx, "ramp")
    ctx.p_entries = mkpart(ctx, "entries")
    ctx.p_names = mkpart(ctx, "names", gen_names)
    ctx.p_iter = mkpart(ctx, "iteration")
    ctx.p_local = ctx.register(Part("local-zone", None, lambda case: [], judge_local_zone, profile="both"))
    ctx.p_fuzz = mkpart(ctx, "fuzz")
    ctx.p_grammar = mkpart(ctx, "grammar", gen_grammar)
    ctx.p_typed = mkpart(ctx, "typed", gen_typed)
    ctx.max_violations = 10 ** 6 if EXPLORE else 1


def want(part):
    return not ONLY or part.name in ONLY


def done(ctx, what):
    ctx.log("%s done: evaluations=%d known=%s" % (what, ctx.evaluations, dict(ctx.excluded_known)))


def set_budget(ctx, seconds):
    for prof in ("release", "checked"):
        ctx.driver(prof).timeout = seconds


def run(ctx):
    set_budget(ctx, _budget(ctx))
    if ctx.w == 0:
        try:
            c05_harvest.write_seeds()
            c05_dict.write_dict()
        except OSError:
            pass
    items = c05_harvest.harvest()
    if len(items) < 1000 or len(bifs()) < 60:
        raise Inconclusive("harvest found only %d texts / %d built-ins: the source layout changed" % (len(items), len(bifs())))
    resolve_scopes(ctx)
    ctx.extra["harvested_texts"] = len(items)
    ctx.extra["builtins"] = len(bifs())
    ctx.extra["alphabet"] = len(ALPHABET)
    ctx.extra["zone_transition_instants"] = len(zt())

    if want(ctx.p_local):
        ctx.enumerate(ctx.p_local, enum_local_zone(ctx), batch=200,
                      name="zone-less values around the daylight-saving switches of the process's own time zone (TZ = 5 zones)", exhaustive=ctx.thorough())
        for d in _LOCAL_DRIVERS.values():
            d.stop()
        _LOCAL_DRIVERS.clear()
        done(ctx, "local zone")
    if want(ctx.p_iter):
        set_budget(ctx, ITER_BUDGET)
        ctx.enumerate(ctx.p_iter, enum_iteration(ctx, False), name="iteration ranges at the integer edges + recursion depths", batch=1000)
        ctx.enumerate(ctx.p_iter, enum_iteration(ctx, True), name="iteration ranges ending at isize::MAX/MIN, recursion depth 11000", batch=1)
        done(ctx, "iteration")
    if want(ctx.p_ramp) or want(ctx.p_sweep) or want(ctx.p_rsweep) or want(ctx.p_matrix):
        set_budget(ctx, RAMP_BUDGET)
        # one probe decides whether values nested 200 deep can be used as arguments everywhere (they cannot while type_of is exponential)
        # (run on every worker, not shared out like an enumeration: every worker needs the answer)
        probe = ramp_case(DEEP_PROBE, ["textual"], [[["v", nest_list(200)]]], DEEP_CLS, ["depth:200", "shape:values-type-of"])
        f, resp = ctx.run_case(ctx.p_ramp, probe)
        if f is not None:
            ctx.report(ctx.p_ramp.name, probe, f, resp)
        ctx.deep = 200 if DEEP_CLS not in _HUNG else 16
        DEEP_OK[0] = ctx.deep == 200
        ctx.extra["deep_argument_depth"] = ctx.deep
    if want(ctx.p_ramp):
        # shapes with an open hang/abort finding run one request per batch, so that nothing else is re-run when they time out
        suspects = {sig.split("/", 2)[2] for sig in ctx.open_sigs if sig.startswith("C05/hang/nesting:") or sig.startswith("C05/abort/nesting:")}
        for d in DEPTHS:
            ctx.enumerate(ctx.p_ramp, (c for c in enum_ramps(ctx, d) if c["cls"] not in suspects), name="nesting shapes x entry points at depth %d" % d,
                          batch=1000, exhaustive=True)
            ctx.enumerate(ctx.p_ramp, (c for c in enum_ramps(ctx, d) if c["cls"] in suspects), name="nesting shapes x entry points at depth %d" % d, batch=1)
        ctx.enumerate(ctx.p_ramp, enum_deep_values(ctx, ctx.deep), name="built-ins and operators on values nested %d deep" % ctx.deep, batch=1000)
        # a nested context bound in the parsing scope, another entry name at every level: quick = the depths that answer at once; the depths at
        # which the open finding scope-context-distinct-keys (cost 2^depth) does not answer any more are probed in the thorough tier only
        set_budget(ctx, SCOPE_NEST_BUDGET)
        ctx.enumerate(ctx.p_ramp, enum_scope_nesting(ctx, [2, 4, 8, 12, 14]), name="text over a scope binding a context nested 2..14 deep (distinct names)", batch=3, exhaustive=True)
        if ctx.thorough():
            ctx.enumerate(ctx.p_ramp, enum_scope_nesting(ctx, [16, 24, 200]), name="text over a scope binding a context nested 16, 24, 200 deep (distinct names)", batch=1, exhaustive=True)
        set_budget(ctx, RAMP_BUDGET)
        done(ctx, "ramp")
    set_budget(ctx, _budget(ctx))
    if want(ctx.p_harvested):
        ctx.enumerate(ctx.p_harvested, enum_harvested(ctx), name="every harvested text through its own entry point and scope", exhaustive=True)
        done(ctx, "harvested")
    if want(ctx.p_sweep):
        ctx.enumerate(ctx.p_sweep, enum_sweeps(ctx), name="built-in x signature (positional, named) x parameter x alphabet, one at a time", exhaustive=ctx.thorough())
        ctx.enumerate(ctx.p_sweep, enum_at_literals(ctx), name="temporal strings as @-literals x 9 uses", exhaustive=True)
        ctx.enumerate(ctx.p_sweep, enum_pairs(ctx), name="two parameters at a time over the integer extremes", exhaustive=ctx.thorough())
        done(ctx, "sweep")
    if want(ctx.p_matrix):
        ctx.enumerate(ctx.p_matrix, enum_matrix(ctx), name="operator x value-kind x value-kind matrix", exhaustive=ctx.thorough())
        done(ctx, "matrix")
    if want(ctx.p_entries):
        ctx.enumerate(ctx.p_entries, enum_entries(ctx), name="entry point x scope x name shape x short template", exhaustive=ctx.thorough())
        ctx.enumerate(ctx.p_entries, enum_escapes(ctx), name="string escapes at the UTF-8/UTF-16 boundaries", exhaustive=True)
        done(ctx, "entries")
    if want(ctx.p_trunc):
        ctx.enumerate(ctx.p_trunc, enum_truncations(ctx), name="truncation at every prefix of harvested texts", exhaustive=ctx.thorough())
        done(ctx, "truncation")
    if want(ctx.p_mut):
        ctx.forall(ctx.p_mut, ctx.scale(30000, 2000000), batch=500)
        done(ctx, "mutation")
    if want(ctx.p_rsweep):
        ctx.forall(ctx.p_rsweep, ctx.scale(12000, 800000), batch=400)
        done(ctx, "sweep-random")
    if want(ctx.p_names):
        ctx.forall(ctx.p_names, ctx.scale(8000, 400000), batch=500)
        done(ctx, "names")
    if want(ctx.p_uni):
        ctx.forall(ctx.p_uni, ctx.scale(8000, 400000), batch=500)
        done(ctx, "unicode")
    if want(ctx.p_grammar):
        ctx.forall(ctx.p_grammar, ctx.scale(12000, 600000), batch=400)
    if want(ctx.p_typed):
        ctx.forall(ctx.p_typed, ctx.scale(12000, 600000), batch=400)
        done(ctx, "grammar")


    if ctx.thorough() and ctx.w == 0 and not ONLY:
        fuzz_phase(ctx)


# scopes of the libFuzzer target fuzz/fuzz_targets/feel_any.rs (selector byte % 4), as driver bindings
FUZZ_SCOPES = [
    None,
    [[["a", {"n": "1"}], ["b", {"s": "x"}], ["xs", {"l": [{"n": "1"}, {"n": "2"}]}]]],
    [[["a b", {"n": "2"}], ["a-b", {"n": "3"}], ["a", {"n": "5"}], ["c.d", True], ["e f", {"c": [["g h", {"n": "7"}]]}]]],
    [[["in.x", {"n": "1"}], ["for all", {"n": "2"}], ["date x", None]]],
]
FUZZ_ENTRIES = ["expression", "textual", "textuals", "boxed", "context", "unary", "name"]


def fuzz_case(data):
    """decodes a libFuzzer input of the feel_any target into a case of this module"""
    entry = FUZZ_ENTRIES[data[0] % 7] if len(data) > 0 else "expression"
    sel = data[1] % 4 if len(data) > 1 else 0
    try:
        text = data[2:].decode("utf-8")
    except UnicodeDecodeError:
        return None
    return {"t": text, "es": [entry], "s": FUZZ_SCOPES[sel], "part": "fuzz", "cls": "fuzz", "labels": ["fuzz-artifact"]}


def fuzz_phase(ctx):
    """coverage-guided campaign on the feel_any target; every crashing input is re-judged through the driver on both builds,
    so that known findings, hang confirmation and signatures are exactly those of the generated parts"""
    from .. import fuzzrun
    import glob as _glob
    if not fuzzrun.build(ctx.log):
        ctx.extra["fuzz"] = {"skipped": "fuzz targets could not be built (tooling), no verdict from this phase"}
        return
    seeds = os.path.join(fuzzrun.FUZZ, "seeds", "feel", "*")
    # the seed files are raw texts: prefix them with the two selector bytes of the target
    pre = os.path.join(fuzzrun.TARGET, "fuzz-seeds-feel")
    import shutil
    shutil.rmtree(pre, ignore_errors=True)
    os.makedirs(pre)
    rnd = ctx.rng("fuzz-seeds")
    for i, f in enumerate(sorted(_glob.glob(seeds))):
        data = open(f, "rb").read()
        with open(os.path.join(pre, "s%05d" % i), "wb") as o:
            o.write(bytes([rnd.randrange(7), rnd.randrange(4)]) + data)
    all_stats = []
    for variant, globs in (("seeded", [os.path.join(pre, "*")]), ("empty-corpus", [])):
        stats, crashes = fuzzrun.campaign(ctx, "feel_any", PROP, globs, runs=ctx.scale(200000, 20000000) if variant == "seeded" else ctx.scale(100000, 5000000),
                                          dict_file=os.path.join(fuzzrun.FUZZ, "feel.dict"), max_len=400, timeout_s=3 * 3600)
        stats["variant"] = variant
        stats["crashing_inputs"] = len(crashes)
        all_stats.append(stats)
        for c in crashes:
            case = fuzz_case(c["data"])
            if case is None:
                continue
            if "feel_any.rs" in c["location"]:
                # an in-target oracle of C13 fired (scope changed / not repeatable): that is C13's subject, reported by ./check C13 --tier thorough
                ctx.classes["fuzz: in-target C13 oracle fired (see C13)"] += 1
                continue
            f, resp = ctx.run_case(ctx.p_fuzz, case)
            if f is not None:
                ctx.report(ctx.p_fuzz.name, case, f, resp)
            else:
                ctx.classes["fuzz: artifact not reproduced through the driver (%s)" % c["kind"]] += 1
            try:
                os.remove(c["path"])
            except OSError:
                pass
    shutil.rmtree(pre, ignore_errors=True)
    ctx.extra["fuzz"] = all_stats


if __name__ == "__main__":
    sys.exit(main(sys.modules[__name__]))
