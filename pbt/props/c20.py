"""C20 — a built model evaluator shared by many threads returns, for every concurrent call, the value of that call
made alone; never deadlocks, never leaves a lock poisoned, never leaks one call's inputs/intermediates into another.

Technique: generated thread plans (2..16 threads x 20..200 calls, barrier on/off, per-step yields/spins, start skew,
optional pinning of all threads to the same call / the same invocable at the same step) executed by the driver's
`threads` op on ONE Arc<ModelEvaluator>; the oracle compares every concurrent value with the SUT's own sequential
value of the same (invocable, input), and the sequential pass repeated after the run.  A watchdog expiry is re-run
three times before it counts as a deadlock.  Thorough tier: the same workload under ThreadSanitizer.

Level, honestly: this samples schedules, it does not own the scheduler (see DESIGN.md C20).
"""
import fcntl
import os
import subprocess
import sys

from ..engine import Part, Fail, Driver, Inconclusive, main, canon, h, TARGET, VERIF
from ..oracles import c20_model as M

PROP = "C20"
WORKERS = 6           # thorough: 6 worker processes x up to 16 threads each on 16 cores (oversubscribed on purpose)

SIGNALS_THAT_ARE_CRASHES = (-11, -6, -4, -7, -8, 134, 139, 132, 135, 136)


# ------------------------------------------------------------------------------------------------
# generator
# ------------------------------------------------------------------------------------------------

LETTERS = "abcdefghijklmnopqrstuvwxyz"
PRESET_STRINGS = ["alpha1", "beta22x", "", "A1b2B", "x9y8z7", "aaa bbb 12", "zażółć9", "a1b2c3d4e5"]
OFFSETS = ["Z", "+01:00", "-05:00", "+05:30", "@Europe/Paris", "@Asia/Tokyo", "@America/Chicago", "+00:00"]


def gen_string(src):
    if src.bool(0.35):
        return src.choice(PRESET_STRINGS)
    n = src.int(1, 12)
    out = []
    for _ in range(n):
        kind = src.weighted([(6, "l"), (3, "d"), (1, "x"), (1, " "), (1, "U")])
        if kind == "l":
            out.append(src.choice(LETTERS))
        elif kind == "d":
            out.append(str(src.int(0, 9)))
        elif kind == "x":
            out.append("x")
        elif kind == " ":
            out.append(" ")
        else:
            out.append(src.choice("ABXY"))
    return "".join(out)


def gen_input(src, idx):
    """Input context of call number idx. `n` is distinct per call (fraction = idx+1 thousandths) so that a value
    computed from another call's input is recognisable."""
    n_int = src.weighted([(5, None), (1, 0), (1, 9), (1, 10), (1, 99), (1, 100)])
    if n_int is None:
        n_int = src.int(-50, 500)
    n = "%d.%03d" % (n_int, idx + 1) if n_int >= 0 else "-%d.%03d" % (-n_int, idx + 1)
    m_int = src.int(-20, 200)
    m = str(m_int) if src.bool(0.6) else "%d.%s" % (m_int, src.digits(2)) if m_int >= 0 else "-%d.%s" % (-m_int, src.digits(2))
    d = "%04d-%02d-%02d" % (src.int(1970, 2035), src.int(1, 12), src.int(1, 28))
    ts = "%04d-%02d-%02dT%02d:%02d:%02d%s" % (src.int(1990, 2030), src.int(1, 12), src.int(1, 28), src.int(4, 22), src.int(0, 59),
                                              src.int(0, 59), src.choice(OFFSETS))
    k = src.int(0, 9)
    ctx = [["n", {"n": n}], ["m", {"n": m}], ["s", {"s": gen_string(src)}], ["d", {"date": d}], ["ts", {"s": ts}],
           ["k", {"n": str(k)}], ["a", {"n": "%d.%03d" % (src.int(0, 60), idx + 1)}], ["b", {"n": str(src.int(-9, 99))}],
           ["v", {"n": "%d.%03d" % (src.int(0, 9000), idx + 1)}],
           # values of types with allowed values: about half of them are not allowed (the typed input is then null)
           ["status", {"s": src.choice(["EMPLOYED", "RETIRED", "STUDENT", "UNEMPLOYED", "retired", ""])}],
           ["scores", {"l": [{"n": str(src.choice([0, 10, 20, 40, 100, 300, -1, 55]))} for _ in range(src.int(0, 5))]}],
           ["person", {"c": [["name", {"s": "p%d" % idx}], ["status", {"s": src.choice(["EMPLOYED", "STUDENT", "NONE"])}],
                             ["age", {"n": str(src.choice([0, 30, 150, 151, -1]))}]]}]]
    if src.bool(0.08):  # a missing input: null paths through item-definition / input-data evaluators
        drop = src.int(0, 5)
        ctx = ctx[:drop] + ctx[drop + 1:]
    return ctx


# weights: cheap table/nested invocables often, the 1-2 ms ones less often (fixed work per plan stays bounded)
INVOCABLE_WEIGHTS = [(4, "Mid"), (3, "Numeric"), (3, "Temporal"), (3, "Regex"), (3, "Grid"), (2, "Collect"), (2, "Priority"),
                     (2, "Ranked"), (2, "Ordered"), (1, "Listed"), (1, "Least"), (3, "ManyZones"), (3, "Allowed"),
                     (2, "Svc"), (2, "Calc"), (2, "Leaf"), (1, "Band"), (1, "Base"), (2, "Top"), (2, "Powers"), (2, "Lists"), (3, "Sorted"), (1, "Outer"), (2, "Recur"), (2, "Consts"), (2, "UsesConsts"),
                     (1, "No Such Invocable")]


def gen_plan(src):
    nthreads = src.weighted([(1, 2), (1, 3), (2, 4), (2, 6), (3, 8), (2, 12), (3, 16)])
    if src.bool(0.15):
        nthreads = src.int(2, 16)
    ncalls = src.int(2, 24)
    focus = src.weighted([(5, None), (1, "numeric"), (1, "temporal"), (1, "regex"), (1, "table"), (2, "nested"), (2, "typed"), (2, "recursion"), (2, "constant"), (2, "lists")])
    calls = []
    for i in range(ncalls):
        if focus is not None and src.bool(0.8):
            name = src.choice(M.CLASSES[focus])
        else:
            name = src.weighted(INVOCABLE_WEIGHTS)
        calls.append([name, gen_input(src, i)])
    pin = src.weighted([(4, "none"), (3, "same-call"), (3, "same-invocable")])
    barrier = not src.bool(0.25)
    lengths = [src.int(20, 200) for _ in range(nthreads)]
    if pin != "none":  # pinned threads walk in lock step: same length
        lengths = [lengths[0]] * nthreads
    shared = [src.int(0, ncalls - 1) for _ in range(max(lengths))] if pin != "none" else []
    by_name = {}
    for ci, (name, _) in enumerate(calls):
        by_name.setdefault(name, []).append(ci)
    perturb = src.weighted([(3, "none"), (3, "light"), (2, "heavy")])
    threads = []
    for t in range(nthreads):
        steps = []
        for i in range(lengths[t]):
            if pin == "same-call":
                ci = shared[i]
            elif pin == "same-invocable":
                group = by_name[calls[shared[i]][0]]
                ci = group[(t + i) % len(group)]
            else:
                ci = src.int(0, ncalls - 1)
            if perturb == "none":
                y, s = 0, 0
            else:
                heavy = perturb == "heavy"
                y = src.weighted([(8, 0), (2 if heavy else 1, 1), (1 if heavy else 0, 3)])
                s = src.weighted([(8, 0), (2 if heavy else 1, 200), (1 if heavy else 0, 20000)])
            steps.append([ci, y, s])
        threads.append(steps)
    skew = [src.weighted([(6, 0), (2, 1000), (1, 200000)]) for _ in range(nthreads)] if src.bool(0.5) else []
    return {"calls": calls, "threads": threads, "barrier": barrier, "skew": skew, "pin": pin}


def gen_first_use(src):
    """the FIRST evaluations of one invocable of a freshly built evaluator, made by all threads at the same moment (barrier, no skew,
    3 steps): whatever an evaluator initialises lazily on first use is initialised under contention. Many short rounds."""
    nthreads = src.weighted([(3, 2), (2, 3), (3, 4), (2, 8), (1, 16)])
    name = src.choice(M.INVOCABLES) if src.bool(0.5) else src.choice(M.CLASSES["table"])
    calls = [[name, gen_input(src, 0)], [name, gen_input(src, 1)]]
    if src.bool(0.3):
        calls.append([src.weighted(INVOCABLE_WEIGHTS), gen_input(src, 2)])
    same = src.bool(0.6)
    threads = [[[0 if same else t % 2, 0, 0], [(t + 1) % len(calls), 0, 0], [t % len(calls), 0, 0]] for t in range(nthreads)]
    return {"calls": calls, "threads": threads, "barrier": True, "skew": [], "pin": "first-use"}


# ------------------------------------------------------------------------------------------------
# execution + oracle
# ------------------------------------------------------------------------------------------------

def watchdog_ms(ctx, rerun=False):
    if rerun:
        return 180000
    return ctx.scale(60000, 120000)


def run_plan(drv, case, wd_ms):
    """model -> threads -> drop on `drv`. Returns the threads response (or an infrastructure record)."""
    r = drv.safe({"op": "model", "xml": M.XML}, timeout=60)
    if "handle" not in r:
        return {"infra": "model: %r" % (r,)}
    hd = r["handle"]
    req = {"op": "threads", "handle": hd, "calls": case["calls"], "threads": case["threads"], "barrier": case["barrier"],
           "skew": case["skew"], "watchdog_ms": wd_ms}
    resp = drv.safe(req, timeout=wd_ms / 1000.0 + 60)
    if "hang" in resp or "timeout" in resp or "died" in resp:
        # threads may still be blocked inside the process: never reuse it
        drv.restart()
    else:
        drv.safe({"op": "drop", "handle": hd})
    return resp


def judge_cold(ctx, case, _resp):
    """the same plan in a FRESH driver process with the sequential pass made after the threads: the first use of every lazily
    initialised global (decimal contexts, regular expressions, zone tables) happens under contention"""
    drv = Driver("release", timeout=120)
    try:
        drv.start()
        r = drv.safe({"op": "model", "xml": M.XML}, timeout=60)
        if "handle" not in r:
            raise Inconclusive("C20 cold start: model request failed: %r" % (r,))
        req = {"op": "threads", "handle": r["handle"], "calls": case["calls"], "threads": case["threads"], "barrier": True,
               "skew": case["skew"], "watchdog_ms": watchdog_ms(ctx, rerun=True), "cold": True}
        resp = drv.safe(req, timeout=watchdog_ms(ctx, rerun=True) / 1000.0 + 60)
    finally:
        drv.stop()
    f = judge_response(ctx, case, resp, where="cold")
    if f == "hang":
        raise Inconclusive("C20 cold start: watchdog expired once; not decidable as a deadlock from one run")
    return f


FIRST_USE_ROUNDS = 40


def judge_first_use(ctx, case, _resp):
    """FIRST_USE_ROUNDS rounds of the plan, each on an evaluator built afresh inside one fresh driver process; the driver answers with the
    first round in which a concurrent value differs from the sequential one (judged here like any other run) or with the last round"""
    drv = Driver("release", timeout=120)
    try:
        drv.start()
        req = {"op": "threads", "xml": M.XML, "rounds": FIRST_USE_ROUNDS, "calls": case["calls"], "threads": case["threads"], "barrier": True,
               "skew": [], "watchdog_ms": watchdog_ms(ctx, rerun=True)}
        resp = drv.safe(req, timeout=watchdog_ms(ctx, rerun=True) / 1000.0 + 60)
    finally:
        drv.stop()
    if "error" in resp:
        raise Inconclusive("C20 first use: %r" % (resp,))
    ctx.count(max(0, resp.get("rounds_done", 1) - 1))
    f = judge_response(ctx, case, resp, where="first-use")
    if f == "hang":
        raise Inconclusive("C20 first use: watchdog expired once; not decidable as a deadlock from one run")
    return f


def same_step_sharing(case):
    """max over steps of the number of threads that evaluate the same invocable at that step index."""
    names = [c[0] for c in case["calls"]]
    best = 0
    for i in range(max(len(t) for t in case["threads"])):
        cnt = {}
        for t in case["threads"]:
            if i < len(t):
                nm = names[t[i][0]]
                cnt[nm] = cnt.get(nm, 0) + 1
        if cnt:
            best = max(best, max(cnt.values()))
    return best


def is_lock_null(v):
    return isinstance(v, dict) and "N" in v and "lock" in str(v["N"])


def mentions_null_lock(v):
    return "lock failed" in canon(v) or "lock_failed" in canon(v)


def diagnose_value(case, seq, ci, got):
    if mentions_null_lock(got) and not mentions_null_lock(seq[ci]):
        return "C20/lock-failed"
    for cj, other in enumerate(seq):
        if cj != ci and other == got and other != seq[ci]:
            return "C20/cross-call-leak"
    return "C20/result-differs"


def judge_response(ctx, case, resp, where="stress", note=True):
    nthreads = len(case["threads"])
    names = [c[0] for c in case["calls"]]
    if "infra" in resp or "error" in resp:
        raise Inconclusive("C20 %s: driver could not run the plan: %r" % (where, resp))
    if "died" in resp:
        if resp["died"] in SIGNALS_THAT_ARE_CRASHES:
            return Fail("C20/process-death", "%s: the process died (exit %s) while %d threads evaluated on the shared evaluator" % (
                where, resp["died"], nthreads))
        raise Inconclusive("C20 %s: driver died with exit %r (not a crash signal)" % (where, resp["died"]))
    if "hang" in resp or "timeout" in resp:
        return "hang"
    if "panic" in resp:
        return Fail("C20/panic", "%s: panic during the plan's sequential pass or thread start: %r at %r" % (where, resp.get("panic"), resp.get("location")))
    seq, conc, after = resp["sequential"], resp["concurrent"], resp["after"]
    sharing = same_step_sharing(case)
    if note:
        nonnull = sum(1 for v in seq if v is not None and not (isinstance(v, dict) and "N" in v))
        labels = [where, "threads=%s" % ("2-3" if nthreads < 4 else "4-7" if nthreads < 8 else "8-15" if nthreads < 16 else "16"),
                  "barrier" if case["barrier"] else "no-barrier", "pin=" + case["pin"], "skew" if any(case["skew"]) else "no-skew",
                  "perturbed" if any(s[1] or s[2] for t in case["threads"] for s in t) else "unperturbed"]
        labels += sorted({"class=" + M.class_of(n) for n in names if n in M.INVOCABLES})
        if nonnull * 2 < len(seq):
            labels.append("mostly-null-results")
        ctx.note(key=h(case), nontrivial=(nthreads >= 4 and sharing >= 2), labels=labels,
                 sample={"threads": nthreads, "steps": [len(t) for t in case["threads"]], "invocables": sorted(set(names)),
                         "pin": case["pin"], "barrier": case["barrier"], "max_same_invocable_same_step": sharing,
                         "sequential_first": canon(seq[0])[:160]})
        ctx.extra["calls_compared"] = ctx.extra.get("calls_compared", 0) + sum(len(t) for t in case["threads"])
    for t in range(nthreads):
        got = conc[t]
        if isinstance(got, dict) and "thread_panic" in got:
            return Fail("C20/thread-panic", "%s: thread %d of %d panicked during evaluation on the shared evaluator: %r" % (
                where, t, nthreads, got.get("detail")))
        if not isinstance(got, list) or len(got) != len(case["threads"][t]):
            raise Inconclusive("C20 %s: malformed per-thread result %r" % (where, got))
        for i, v in enumerate(got):
            ci = case["threads"][t][i][0]
            if v != seq[ci]:
                return Fail(diagnose_value(case, seq, ci, v),
                            "%s: thread %d step %d evaluated %s (call %d) concurrently with %d other threads and got\n    %s\n  alone the same call gives\n    %s"
                            % (where, t, i, names[ci], ci, nthreads - 1, canon(v)[:600], canon(seq[ci])[:600]),
                            thread=t, step=i, call=ci)
    for ci, v in enumerate(after):
        if v != seq[ci]:
            sig = "C20/lock-poisoned" if mentions_null_lock(v) else "C20/after-differs"
            return Fail(sig, "%s: after the %d threads joined, call %d (%s) evaluated alone gives\n    %s\n  before the concurrent run it gave\n    %s"
                        % (where, nthreads, ci, names[ci], canon(v)[:600], canon(seq[ci])[:600]), call=ci)
    return None


def judge_corner(ctx, case, _resp):
    return judge_plan(ctx, case, _resp, where="corner")


def judge_plan(ctx, case, _resp, where="stress"):
    drv = ctx.driver("release")
    resp = run_plan(drv, case, watchdog_ms(ctx))
    f = judge_response(ctx, case, resp, where=where)
    if f != "hang":
        return f
    # watchdog expired: re-run 3 times with a generous watchdog before calling it a deadlock
    ctx.extra["watchdog_expiries"] = ctx.extra.get("watchdog_expiries", 0) + 1
    hangs = 0
    for _ in range(3):
        r2 = run_plan(drv, case, watchdog_ms(ctx, rerun=True))
        f2 = judge_response(ctx, case, r2, note=False)
        if f2 == "hang":
            hangs += 1
        elif f2 is not None:
            return f2
    if hangs == 3:
        return Fail("C20/deadlock", "the plan (%d threads, barrier=%s, pin=%s) did not join within the watchdog in 4 of 4 runs (%d ms, then 3 x %d ms): "
                    "joined %s of %s threads in the first run" % (len(case["threads"]), case["barrier"], case["pin"], watchdog_ms(ctx),
                                                                 watchdog_ms(ctx, True), resp.get("joined"), resp.get("threads")))
    raise Inconclusive("C20: a plan exceeded the watchdog once (%d ms) but %d of 3 re-runs completed: machine load, not decidable as a deadlock"
                       % (watchdog_ms(ctx), 3 - hangs))


# ------------------------------------------------------------------------------------------------
# deterministic corner plans (simplest first)
# ------------------------------------------------------------------------------------------------

def fixed_input(idx, k=4, s="beta22x"):
    return [["n", {"n": "12.%03d" % (idx + 1)}], ["m", {"n": str(3 + idx)}], ["s", {"s": s}], ["d", {"date": "2021-03-%02d" % (10 + idx % 18)}],
            ["ts", {"s": "2021-03-14T10:20:30+01:00"}], ["k", {"n": str((k + idx) % 10)}], ["a", {"n": "3.%03d" % (idx + 1)}],
            ["b", {"n": "4"}], ["v", {"n": "77.%03d" % (idx + 1)}]]


def corner_plans(ctx):
    """Every invocable hammered by N threads at once with per-thread inputs (widest window for shared scratch state),
    then every pair (nested x leaf) interleaved."""
    for nthreads in (2, 16):
        for name in M.INVOCABLES:
            calls = [[name, fixed_input(i)] for i in range(nthreads)]
            threads = [[[t, 0, 0] for _ in range(60)] for t in range(nthreads)]
            yield {"calls": calls, "threads": threads, "barrier": True, "skew": [], "pin": "same-invocable"}
    nested = ["Top", "Outer", "Mid"]
    for a in nested:
        for b in ("Svc", "Calc", "Leaf", "Base", "Grid", "Regex"):
            calls = [[a, fixed_input(0)], [b, fixed_input(1)], [a, fixed_input(2)], [b, fixed_input(3)]]
            threads = [[[(t + i) % 4, 0, 0] for i in range(40)] for t in range(8)]
            yield {"calls": calls, "threads": threads, "barrier": True, "skew": [], "pin": "none"}


# ------------------------------------------------------------------------------------------------
# ThreadSanitizer tier (thorough only)
# ------------------------------------------------------------------------------------------------

TSAN_DIR = os.path.join(TARGET, "tsan")


def driver_source_dir():
    """The crate the regular driver was built from: /verif/driver, or the mutant runner's private copy."""
    private = os.path.join(os.path.dirname(TARGET.rstrip("/")), ".vdriver")
    if os.path.abspath(TARGET) != os.path.join(VERIF, ".target") and os.path.isdir(private):
        return private
    return os.path.join(VERIF, "driver")


def tsan_build(ctx):
    """Builds vdrv with -Zsanitizer=thread in a private copy of the driver crate. Returns (binary path | None, note)."""
    os.makedirs(TSAN_DIR, exist_ok=True)
    lock = open(os.path.join(TSAN_DIR, "build.lock"), "w")
    try:
        fcntl.flock(lock, fcntl.LOCK_EX)
        src = driver_source_dir()
        dst = os.path.join(TSAN_DIR, "driver")
        os.makedirs(os.path.join(dst, ".cargo"), exist_ok=True)
        os.makedirs(os.path.join(dst, "src"), exist_ok=True)
        wanted = {os.path.join("src", fn): os.path.join(src, "src", fn) for fn in os.listdir(os.path.join(src, "src"))}
        wanted.update({fn: os.path.join(src, fn) for fn in ("Cargo.toml", "Cargo.lock")})
        for fn in os.listdir(os.path.join(dst, "src")):
            if os.path.join("src", fn) not in wanted:
                os.remove(os.path.join(dst, "src", fn))
        for rel, origin in wanted.items():      # copy only what differs: an unchanged tree must not trigger a relink
            target = os.path.join(dst, rel)     # (other workers may be running the binary)
            with open(origin, "rb") as f:
                data = f.read()
            old = None
            if os.path.exists(target):
                with open(target, "rb") as f:
                    old = f.read()
            if old != data:
                with open(target, "wb") as f:
                    f.write(data)
        config = '[net]\noffline = true\n[build]\ntarget-dir = "%s"\n' % os.path.join(TSAN_DIR, "target")
        cfg_path = os.path.join(dst, ".cargo", "config.toml")
        if not os.path.exists(cfg_path) or open(cfg_path).read() != config:
            with open(cfg_path, "w") as f:
                f.write(config)
        env = dict(os.environ)
        env.update({"RUSTFLAGS": "--cfg dmntk_verif -Zsanitizer=thread", "CFLAGS": "-fsanitize=thread", "CARGO_NET_OFFLINE": "true"})
        cmd = ["cargo", "+nightly", "build", "-Zbuild-std", "--target", "x86_64-unknown-linux-gnu", "--offline", "--release", "--bin", "vdrv"]
        try:
            with open(os.path.join(TSAN_DIR, "build.log"), "w") as log:
                rc = subprocess.call(cmd, cwd=dst, env=env, stdout=log, stderr=subprocess.STDOUT, timeout=1500)
        except (OSError, subprocess.TimeoutExpired) as e:
            return None, "ThreadSanitizer build could not be run: %s" % e
        binary = os.path.join(TSAN_DIR, "target", "x86_64-unknown-linux-gnu", "release", "vdrv")
        if rc != 0 or not os.path.exists(binary):
            tail = ""
            try:
                with open(os.path.join(TSAN_DIR, "build.log")) as f:
                    tail = " | ".join(f.read().strip().splitlines()[-3:])
            except OSError:
                pass
            return None, "ThreadSanitizer build failed (exit %s): %s" % (rc, tail[:400])
        return binary, "built"
    finally:
        try:
            fcntl.flock(lock, fcntl.LOCK_UN)
        except OSError:
            pass
        lock.close()


class TsanDriver(Driver):
    def __init__(self, binary, log_path):
        Driver.__init__(self, "release", timeout=600.0)
        self.path = binary
        self.log_path = log_path

    def start(self):
        env = dict(os.environ)
        env["TSAN_OPTIONS"] = "halt_on_error=0 exitcode=0 second_deadlock_stack=1 history_size=4"
        self.err = open(self.log_path, "ab")
        self.proc = subprocess.Popen([self.path], stdin=subprocess.PIPE, stdout=subprocess.PIPE, stderr=self.err, bufsize=0, env=env)
        self.buf = b""


def tsan_reports(log_path):
    try:
        with open(log_path, "rb") as f:
            text = f.read().decode("utf-8", "replace")
    except OSError:
        return []
    reports, cur = [], None
    for line in text.splitlines():
        if line.startswith("WARNING: ThreadSanitizer:"):
            cur = [line]
            reports.append(cur)
        elif cur is not None:
            if line.startswith("=================="):
                cur = None
            elif len(cur) < 60:
                cur.append(line)
    return ["\n".join(r) for r in reports]


def tsan_kind(report):
    first = report.splitlines()[0]
    return first[len("WARNING: ThreadSanitizer:"):].split("(")[0].strip()


def frames_in_sut(report):
    """Source locations of the SUT (working tree crates or its C library) named by the report."""
    out = []
    for line in report.splitlines():
        line = line.strip()
        if line.startswith("#") and ("dmntk" in line or "decNumber" in line or "decQuad" in line or "decContext" in line or "decDouble" in line):
            out.append(line)
    return out


def run_tsan(ctx):
    binary, note = tsan_build(ctx)
    ctx.extra["tsan"] = note
    if binary is None:
        ctx.extra["tsan_degraded"] = True
        ctx.log("ThreadSanitizer tier unavailable, degraded to stress exploration only: %s" % note)
        return
    log_path = os.path.join(TSAN_DIR, "tsan.%d.log" % ctx.w)
    try:
        os.remove(log_path)
    except OSError:
        pass
    drv = TsanDriver(binary, log_path)
    part = ctx.p_tsan
    rnd = ctx.rng("tsan")
    n = ctx.share(ctx.scale(0, 600))
    done = 0
    try:
        drv.start()
        cases = list(ctx.mine(corner_plans(ctx)))
        import random as _random
        from ..engine import Src
        for _ in range(n):
            cases.append(gen_plan(Src(_random.Random(rnd.getrandbits(64)))))
        for case in cases:
            if ctx.stop():
                break
            before = len(tsan_reports(log_path))
            resp = run_plan(drv, case, 600000)
            if "infra" in resp or "error" in resp or "died" in resp or "timeout" in resp:
                ctx.extra["tsan"] = "built; run aborted after %d plans: %r" % (done, {k: resp[k] for k in resp if k != "sequential"})
                ctx.extra["tsan_degraded"] = True
                return
            f = judge_response(ctx, case, resp, where="tsan")
            if f == "hang":
                ctx.extra["tsan"] = "built; a plan exceeded 600 s under the sanitizer after %d plans (not judged)" % done
                ctx.extra["tsan_degraded"] = True
                return
            if f is None:
                reports = tsan_reports(log_path)[before:]
                bad = [r for r in reports if tsan_kind(r) in ("data race", "lock-order-inversion", "unlock of an unlocked mutex", "double lock of a mutex",
                                                              "read lock of a write locked mutex", "heap-use-after-free")]
                if bad:
                    r0 = bad[0]
                    where = frames_in_sut(r0)
                    sig = "C20/tsan-" + tsan_kind(r0).replace(" ", "-")
                    f = Fail(sig, "ThreadSanitizer reported a %s while %d threads evaluated on the shared evaluator (values were %s):\n%s" % (
                        tsan_kind(r0), len(case["threads"]), "equal to the sequential ones", r0[:3000]), frames=where[:12])
            if f is not None:
                ctx.report(part.name, case, f, None, None)
            done += 1
            ctx.extra["tsan_plans"] = done
    finally:
        drv.stop()
        try:
            drv.err.close()
        except Exception:
            pass
    ctx.extra["tsan_reports_total"] = len(tsan_reports(log_path))


def judge_tsan_replay(ctx, case, _resp):
    """Replay of a sanitizer finding: needs the sanitizer build; falls back to the stress oracle."""
    binary, note = tsan_build(ctx)
    if binary is None:
        return judge_plan(ctx, case, _resp)
    log_path = os.path.join(TSAN_DIR, "tsan.replay.log")
    try:
        os.remove(log_path)
    except OSError:
        pass
    drv = TsanDriver(binary, log_path)
    try:
        drv.start()
        resp = run_plan(drv, case, 600000)
    finally:
        drv.stop()
    f = judge_response(ctx, case, resp, where="tsan")
    if f == "hang":
        raise Inconclusive("sanitizer replay exceeded 600 s")
    if f is not None:
        return f
    bad = [r for r in tsan_reports(log_path) if tsan_kind(r) in ("data race", "lock-order-inversion")]
    if bad:
        return Fail("C20/tsan-" + tsan_kind(bad[0]).replace(" ", "-"), bad[0][:3000])
    return None


# ------------------------------------------------------------------------------------------------

# ------------------------------------------------------------------------------------------------------------------
# part: the deployed model evaluated through the HTTP service by several clients, each over its own connection
# ------------------------------------------------------------------------------------------------------------------

def feel_literal(w):
    """driver binding -> FEEL literal text (the body of /evaluate is a FEEL context)"""
    if w is None:
        return "null"
    if isinstance(w, bool):
        return "true" if w else "false"
    if "n" in w:
        return w["n"] if not w["n"].startswith("-") else "(%s)" % w["n"]
    if "s" in w:
        out = []
        for ch in w["s"]:
            o = ord(ch)
            out.append("\\\\" if ch == "\\" else '\\"' if ch == '"' else ch if 32 <= o < 127 else ("\\u%04X" % o if o < 0x10000 else "\\U%06X" % o))
        return '"%s"' % "".join(out)
    if "date" in w:
        return 'date("%s")' % w["date"]
    if "l" in w:
        return "[%s]" % ", ".join(feel_literal(x) for x in w["l"])
    if "c" in w:
        return "{%s}" % ", ".join("%s: %s" % (k, feel_literal(v)) for k, v in w["c"])
    raise ValueError(w)


def gen_http(src):
    ncalls = src.int(2, 10)
    calls = []
    for i in range(ncalls):
        name = src.weighted([(w, n) for w, n in INVOCABLE_WEIGHTS if n != "No Such Invocable"])
        calls.append([name, gen_input(src, i)])
    clients = src.weighted([(2, 2), (3, 4), (3, 8), (2, 12)])
    return {"calls": calls, "clients": [[src.int(0, ncalls - 1) for _ in range(src.int(5, 40))] for _ in range(clients)]}


def judge_http(ctx, case, _resp):
    """the workload model is deployed over the definitions endpoints; every call is first made alone, then the clients (one connection
    each, so the service spreads them over its workers) make their calls together: every answer is the answer of that call made alone"""
    import threading
    from . import c18
    srv = c18.server(ctx)
    if getattr(srv, "_c20_deployed", None) is not srv.proc:
        for path, body in (("/definitions/clear", None), ("/definitions/add", c18.jbody({"content": c18.b64(M.XML)})), ("/definitions/deploy", None)):
            rec = srv.http.request("POST", path, body=body, headers=c18.JSON_CT)
            if rec.get("status") != 200 or b'"errors"' in rec.get("body", b""):
                raise Inconclusive("C20 http: preparing the service failed at %s: %r" % (path, rec))
        srv._c20_deployed = srv.proc
    reqs = [("/evaluate/%s/%s" % (c18.seg(M.NAME), c18.seg(name)), ("{%s}" % ", ".join("%s: %s" % (k, feel_literal(v)) for k, v in inp)).encode("utf-8"))
            for name, inp in case["calls"]]
    alone = []
    for path, body in reqs:
        rec = srv.http.request("POST", path, body=body, headers=c18.JSON_CT)
        if "body" not in rec:
            raise Inconclusive("C20 http: no answer to a call made alone: %r" % (rec,))
        alone.append(rec["body"])
    wrong, lock = [], threading.Lock()

    def client(seq):
        h = c18.Http(srv.port)
        try:
            for ci in seq:
                rec = h.request("POST", reqs[ci][0], body=reqs[ci][1], headers=c18.JSON_CT)
                if rec.get("body") != alone[ci]:
                    with lock:
                        wrong.append((ci, rec))
                    return
        finally:
            h.close()
    threads = [threading.Thread(target=client, args=(seq,)) for seq in case["clients"]]
    [t.start() for t in threads]
    [t.join(timeout=120) for t in threads]
    ctx.note(key=h(case), nontrivial=len(case["clients"]) >= 4, labels=["http", "clients:%d" % len(case["clients"])]
             + sorted({"class=" + M.class_of(n) for n, _ in case["calls"]}),
             sample={"clients": len(case["clients"]), "calls": [c[0] for c in case["calls"]][:6], "alone": alone[0][:80].decode("utf-8", "replace")})
    if any(t.is_alive() for t in threads):
        raise Inconclusive("C20 http: a client did not finish within 120 s")
    if wrong:
        ci, rec = wrong[0]
        if "body" not in rec:
            raise Inconclusive("C20 http: a concurrent call got no answer: %r" % (rec,))
        return Fail("C20/http-result-differs", "POST %s %s\n  made together with the calls of %d other clients is answered\n    %s\n  alone the same call is answered\n    %s" % (
            reqs[ci][0], reqs[ci][1].decode("utf-8")[:300], len(case["clients"]) - 1, rec["body"][:300].decode("utf-8", "replace"), alone[ci][:300].decode("utf-8", "replace")))
    again = srv.http.request("POST", reqs[0][0], body=reqs[0][1], headers=c18.JSON_CT)
    if again.get("body") != alone[0]:
        return Fail("C20/http-result-differs", "POST %s after the concurrent phase is answered %r, before it %r" % (reqs[0][0], again.get("body", b"")[:200], alone[0][:200]))
    return None


def setup(ctx):
    ctx.rule = ("cases: thread plans over one shared Arc<ModelEvaluator> of the workload model (numeric exp/**/sums, temporal with zone lookups, "
                "regex matches/replace/split, decision tables, nested decision->decision->BKM->decision service): 2..16 threads x 20..200 calls "
                "over 2..24 distinct (invocable, input) calls, barrier on/off, per-step yields/spins, start skew, pinning of all threads to the "
                "same call or the same invocable per step; oracle: every concurrent value == the SUT's sequential value of the same call, the "
                "sequential pass after the join is unchanged (no poisoned lock), all threads join before the watchdog (expiry re-run 3x). "
                "non-trivial: >=4 threads with >=2 of them on the same invocable at the same step; distinct by plan hash")
    ctx.assumptions = ["the SUT's own sequential evaluation (same process, before the threads start) is the value of 'that call made alone'",
                       "schedules are sampled (yields, spins, skew, oversubscription), not enumerated: absence of violations is not shown",
                       "lazily initialised globals are first touched by the sequential pre-pass, so their first-use race is not exercised",
                       "inputs avoid now(), today() and time-of-day values in named zones (their meaning depends on the current date)"]
    ctx.p_corner = ctx.register(Part("corner", None, lambda case: [], judge_corner))
    ctx.p_stress = ctx.register(Part("stress", gen_plan, lambda case: [], judge_plan))
    ctx.p_cold = ctx.register(Part("cold", gen_plan, lambda case: [], judge_cold))
    ctx.p_first = ctx.register(Part("first-use", gen_first_use, lambda case: [], judge_first_use))
    ctx.p_tsan = ctx.register(Part("tsan", gen_plan, lambda case: [], judge_tsan_replay))
    ctx.p_http = ctx.register(Part("http", gen_http, lambda case: [], judge_http))


def run(ctx):
    only = os.environ.get("VERIF_C20_PARTS")  # debugging aid: "tsan" runs only the sanitizer part of the thorough tier
    if only == "first-use":
        ctx.forall(ctx.p_first, ctx.scale(150, 6000), batch=1)
        return
    if only != "tsan":
        ctx.enumerate(ctx.p_corner, corner_plans(ctx), batch=1, name="every invocable x {2,16} threads in lock step; nested x leaf pairs",
                      exhaustive=True)
        ctx.forall(ctx.p_stress, ctx.scale(400, 24000), batch=1)
        ctx.forall(ctx.p_cold, ctx.scale(60, 3000), batch=1)
        ctx.forall(ctx.p_first, ctx.scale(150, 6000), batch=1)
        if not ctx.stop():
            ctx.forall(ctx.p_http, ctx.scale(60, 3000), batch=1)
    if ctx.thorough() and not ctx.stop():
        run_tsan(ctx)
    elif not ctx.thorough():
        ctx.extra["tsan"] = "not run in the quick tier"


if __name__ == "__main__":
    sys.exit(main(sys.modules[__name__]))
