"""C15 — dates, date-times and durations follow the proleptic Gregorian calendar and the UTC time line.

Oracle: own day-number arithmetic (pbt/oracles/temporal_cal.py, valid for any year, cross-checked against datetime
inside 1..9999 at start-up), zoneinfo for the offsets of a curated list of zones 1980-2020 away from transitions,
exact integer nanoseconds everywhere.  Every FEEL expression returns one list so that a case is one request."""
import sys
from decimal import Decimal

from ..engine import Part, Fail, main
from ..oracles import temporal_cal as cal
from ..oracles import temporal_zones as zones

PROP = "C15"

CHRONO_MIN_YEAR, CHRONO_MAX_YEAR = -262143, 262142      # chrono 0.4 NaiveDate range (a known limit of the SUT)
I64_MAX = 2 ** 63 - 1


# ------------------------------------------------------------------------------------------------
# helpers
# ------------------------------------------------------------------------------------------------

def is_null(j):
    return j is None or (isinstance(j, dict) and "N" in j)


def jnum(j):
    if isinstance(j, dict) and "n" in j:
        try:
            return Decimal(j["n"])
        except Exception:
            return None
    return None


def jdtd(j):
    if isinstance(j, dict) and "dtd" in j:
        r = cal.parse_dtd(j["dtd"])
        if r[0] == "ok":
            return r[1]["ns"]
    return None


def jymd(j):
    if isinstance(j, dict) and "ymd" in j:
        r = cal.parse_ymd(j["ymd"])
        if r[0] == "ok":
            return r[1]["mo"]
    return None


def items_of(r, what):
    """-> (items, None) | (None, Fail)"""
    if isinstance(r, dict) and "panic" in r:
        loc = r.get("location", "")
        short = "/".join(loc.split("/")[-3:]) if loc else "?"
        return None, Fail("C15/panic@%s" % short, "%s: panic %r at %s (totality is C05's subject)" % (what, r.get("panic"), loc))
    if not isinstance(r, dict) or "values" not in r:
        return None, Fail("C15/no-result", "%s: %r" % (what, {k: v for k, v in (r or {}).items() if not k.startswith("scope")}))
    v = r["values"][0]
    if isinstance(v, dict) and "l" in v:
        return v["l"], None
    return None, Fail("C15/no-result", "%s evaluates to %r" % (what, v))


def num(x):
    return str(x) if x >= 0 else "-%d" % -x


def pick(ctx, case, fails):
    """Several operators of one case may fail: an unexplained failure wins; explained ones are all counted."""
    if not fails:
        return None
    chosen = None
    for f in fails:
        if f.sig not in ctx.open_sigs:
            chosen = f
            break
    chosen = chosen or fails[0]
    for f in fails:
        if f is not chosen and f.sig in ctx.open_sigs:
            ctx.excluded_known[f.sig] += 1
            if f.sig not in ctx.known_seen:
                ctx.known_seen[f.sig] = {"case": case, "message": f.msg}
            if hasattr(ctx, "dev_all"):
                ctx.dev_all(case, f)
    return chosen


def sut_ns(frac_digits):
    """nanoseconds the SUT derives from a fraction (binary floating point, truncated): used for diagnosis only"""
    return int(float("0." + frac_digits) * 1e9) if frac_digits else 0


def sut_instant(text, off):
    """instant of a date-time literal as the SUT computes it, given the offset"""
    v = cal.parse_dt(text)[1]
    frac = text.split("T", 1)[1]
    digits = ""
    if "." in frac:
        digits = frac.split(".", 1)[1]
        n = 0
        while n < len(digits) and digits[n].isdigit():
            n += 1
        digits = digits[:n]
    return cal.instant_ns(v["y"], v["m"], v["d"], v["h"], v["mi"], v["s"], sut_ns(digits), off)


def fdate(t):
    return "date(%s, %d, %d)" % (num(t[0]), t[1], t[2])


def in_chrono_date(y):
    return CHRONO_MIN_YEAR <= y <= CHRONO_MAX_YEAR


def dt_in_chrono(v, off):
    """local date and UTC instant both inside chrono's range"""
    if not in_chrono_date(v["y"]):
        return False
    t = cal.instant_ns(v["y"], v["m"], v["d"], v["h"], v["mi"], v["s"], v["ns"], off)
    lo = cal.days_from_civil(CHRONO_MIN_YEAR, 1, 1) * cal.NS_DAY
    hi = (cal.days_from_civil(CHRONO_MAX_YEAR, 12, 31) + 1) * cal.NS_DAY
    return lo <= t < hi


# ------------------------------------------------------------------------------------------------
# part 1: every day of a year: validity from numbers and from text, weekday, components
# ------------------------------------------------------------------------------------------------

def reqs_month(case):
    y, m = case["y"], case["m"]
    loop = ("for d in 0..33 return {x: date(%s, %d, d), r: if x = null then null else [x.year, x.month, x.day, x.weekday]}.r" % (num(y), m))
    reqs = [{"op": "eval", "text": loop}]
    if abs(y) >= 1000:
        texts = ", ".join('date("%s")' % cal.fmt_date(y, m, d) for d in (27, 28, 29, 30, 31, 32))
        reqs.append({"op": "eval", "text": "for x in [%s] return if x = null then null else [x.year, x.month, x.day, x.weekday]" % texts})
    return reqs


def judge_month(ctx, case, resp):
    y, m = case["y"], case["m"]
    n = cal.dim(y, m)
    leapish = (m == 2 and cal.is_leap(y)) or y % 100 == 0
    ctx.note(key=["month", y, m], nontrivial=(not 1 <= y <= 9999) or m == 2 or leapish,
             labels=["month", "leap-february" if m == 2 and cal.is_leap(y) else "february" if m == 2 else "month-%d-days" % n,
                     "year<1" if y < 1 else "year<1000" if y < 1000 else "year>=1000"] + (["century"] if y % 100 == 0 else []),
             sample={"year": y, "month": m, "expected_last_day": n, "expected_weekday_of_first": cal.weekday(y, m, 1)})
    ctx.count(33 if len(resp) == 1 else 39)
    items, f = items_of(resp[0], "days of %d-%02d" % (y, m))
    if f:
        return f
    if len(items) != 34:
        return Fail("C15/no-result", "loop over days of %d-%02d returned %d items" % (y, m, len(items)))
    fails = []
    for d, it in zip(range(0, 34), items):
        f = judge_day(y, m, d, it, "date(%s, %d, %d)" % (num(y), m, d))
        if f:
            fails.append(diagnose_month(f, case))
    if len(resp) > 1:
        items, f = items_of(resp[1], "literal days of %d-%02d" % (y, m))
        if f:
            return f
        for d, it in zip((27, 28, 29, 30, 31, 32), items):
            f = judge_day(y, m, d, it, 'date("%s")' % cal.fmt_date(y, m, d))
            if f:
                fails.append(diagnose_month(f, case))
    return pick(ctx, case, fails)


def judge_day(y, m, d, it, what):
    valid = cal.valid_ymd(y, m, d)
    if not valid:
        if not is_null(it):
            return Fail("C15/impossible-date-accepted", "%s is not a calendar date but gives %r" % (what, it))
        return None
    if is_null(it) or not (isinstance(it, dict) and "l" in it):
        return Fail("C15/valid-date-rejected", "%s is a calendar date but gives %r" % (what, it))
    got = [jnum(x) for x in it["l"]]
    if got[:3] != [y, m, d]:
        return Fail("C15/wrong-component", "%s has year/month/day %r" % (what, it["l"][:3]))
    wd = cal.weekday(y, m, d)
    if got[3] != wd:
        return Fail("C15/wrong-weekday", "%s: weekday is %r, the calendar says %d (1 = Monday)" % (what, it["l"][3], wd))
    return None


def enum_months(ctx):
    """quick: every day of 120 rotating years of -1..2400 plus all century years and the edges; thorough: every year"""
    if ctx.thorough():
        years = list(range(-1, 2401))
    else:
        k = ctx.seed % 20
        years = sorted(set([y for y in range(-1, 2401) if (y + 1) % 20 == k] + [y for y in range(0, 2401, 100)] +
                           [-1, 0, 1, 4, 999, 1000, 1582, 1600, 1752, 1900, 1970, 2000, 2020, 2021, 2100, 2400]))
    for y in years:
        for m in range(1, 13):
            yield {"y": y, "m": m}
    # far years: inside and at the edge of the third-party date type, and at the edge of the FEEL range
    for y in (-999999999, -999999996, -999999600, -262400, -262144, -262143, -10000, -401, -400, -100, -4, 9999, 10000, 99999, 262142,
              262143, 262144, 262400, 262500, 999999600, 999999900, 999999996, 999999999):
        for m in (1, 2, 12):
            yield {"y": y, "m": m}


def diagnose_month(f, case):
    y = case["y"]
    if f.sig == "C15/wrong-weekday" and not in_chrono_date(y) and "weekday is {'N'" in f.msg:
        f.sig = "C15/weekday-null-outside-chrono-range"
    return f


def judge_month_diag(ctx, case, resp):
    return judge_month(ctx, case, resp)


# ------------------------------------------------------------------------------------------------
# part 2: equality and ordering of dates
# ------------------------------------------------------------------------------------------------

DATE_OPS = ["a = b", "a != b", "a < b", "a <= b", "a > b", "a >= b", "a between b and c", "a in [b..c]", "a in (b..c)", "a in [b..c)",
            "a in (b..c]", "a in < b", "a in <= b", "a in > b", "a in >= b"]


def reqs_dates(case):
    return [{"op": "eval", "text": "{a: %s, b: %s, c: %s, r: [%s]}.r" % (fdate(case["a"]), fdate(case["b"]), fdate(case["c"]), ", ".join(DATE_OPS))}]


def expected_order(a, b, c):
    """a, b, c comparable Python values -> expected results in DATE_OPS order (None = not asserted)"""
    rng = b <= c
    return [a == b, a != b, a < b, a <= b, a > b, a >= b, b <= a <= c,
            (b <= a <= c) if rng else None, (b < a < c) if rng else None, (b <= a < c) if rng else None, (b < a <= c) if rng else None,
            a < b, a <= b, a > b, a >= b]


def judge_dates(ctx, case, resp):
    a, b, c = tuple(case["a"]), tuple(case["b"]), tuple(case["c"])
    far = any(not 1 <= t[0] <= 9999 for t in (a, b, c))
    out = any(not in_chrono_date(t[0]) for t in (a, b, c))
    ctx.note(key=["dates", a, b, c], nontrivial=far or any(t[2] >= 28 for t in (a, b, c)),
             labels=["dates", "dates:" + case.get("how", "?"), "outside-chrono" if out else "outside-1..9999" if far else "inside-1..9999",
                     "a=b" if a == b else "a<b" if a < b else "a>b"],
             sample={"a": cal.fmt_date(*a), "b": cal.fmt_date(*b), "c": cal.fmt_date(*c), "a<b": a < b})
    what = "a = %s, b = %s, c = %s" % (cal.fmt_date(*a), cal.fmt_date(*b), cal.fmt_date(*c))
    items, f = items_of(resp[0], what)
    if f:
        return f
    exp = expected_order(a, b, c)
    fails = []
    for op, e, g in zip(DATE_OPS, exp, items):
        if e is None:
            continue
        if g is not e:
            sig = "C15/date-order-wrong"
            involved = (a, b, c) if "c" in op else (a, b)
            if any(not in_chrono_date(t[0]) for t in involved) and ((e is True and g is False) or is_null(g)) and op not in ("a = b", "a != b"):
                sig = "C15/date-order-outside-chrono-range"
            fails.append(Fail(sig, "%s: %s is %r, expected %r" % (what, op, g, e)))
    return pick(ctx, case, fails)


def gen_ymd(src, wide=True):
    cls = src.weighted([(6, "common"), (2, "small"), (1, "chrono-edge"), (1, "wide")]) if wide else "common"
    if cls == "common":
        y = src.int(1000, 9999)
    elif cls == "small":
        y = src.int(-50, 999)
    elif cls == "chrono-edge":
        y = src.choice([-1, 1]) * src.int(262140, 262146)
    else:
        y = src.choice([-1, 1]) * src.int(10000, cal.MAX_YEAR)
    m = src.int(1, 12)
    d = src.int(1, cal.dim(y, m)) if not src.bool(0.3) else cal.dim(y, m)
    return [y, m, d]


def near(src, t):
    """a date close to t: same, +-1 day, same year other month, +-1 year"""
    how = src.weighted([(2, "same"), (3, "day"), (2, "month"), (2, "year"), (1, "days")])
    y, m, d = t
    if how == "same":
        return [y, m, d]
    if how == "day":
        z = cal.days_from_civil(y, m, d) + src.choice([1, -1])
    elif how == "days":
        z = cal.days_from_civil(y, m, d) + src.int(-800, 800)
    elif how == "month":
        m2 = src.int(1, 12)
        return [y, m2, min(d, cal.dim(y, m2))]
    else:
        y2 = y + src.choice([1, -1])
        return [y2, m, min(d, cal.dim(y2, m))]
    r = cal.civil_from_days(z)
    if abs(r[0]) > cal.MAX_YEAR:
        return [y, m, d]
    return list(r)


def gen_dates(src):
    a = gen_ymd(src)
    how = src.weighted([(3, "near"), (2, "independent"), (1, "bracket")])
    if how == "near":
        b, c = near(src, a), near(src, a)
    elif how == "independent":
        b, c = gen_ymd(src), gen_ymd(src)
    else:
        b, c = near(src, a), near(src, a)
        b, c = min(b, c), max(b, c)
    return {"a": a, "b": b, "c": c, "how": how}


# ------------------------------------------------------------------------------------------------
# part 3: date(year, month, day) from numbers
# ------------------------------------------------------------------------------------------------

SWEEP_Y = ["2020", "2021", "-1", "0", "1", "-999999999", "999999999", "-1000000000", "1000000000", "2147483647", "2147483648", "-2147483648",
           "-2147483649", "4294969316", "100000000000000000000", "2020.0", "2020.5"]
SWEEP_M = ["1", "2", "12", "-1", "0", "13", "255", "256", "257", "258", "268", "2147483648", "4294967297", "2.0", "1.5"]
SWEEP_D = ["1", "28", "29", "30", "31", "-1", "0", "32", "255", "256", "257", "284", "285", "287", "2147483648", "4294967297", "31.0", "1.5", "0.5"]


def reqs_date3(case):
    return [{"op": "eval", "text": "{x: date(%s, %s, %s), r: [x, x.year, x.month, x.day]}.r" % (case["y"], case["m"], case["d"])}]


def sut_u8(t):
    """what the narrowing conversions of the SUT make of an integral month/day number (for diagnosis only)"""
    v = Decimal(t)
    if v != v.to_integral_value():
        return None
    v = int(v)
    if v <= 0:
        return None
    if v >= 2 ** 32:
        return 0
    return v % 256


def judge_date3(ctx, case, resp):
    ys, ms, ds = case["y"], case["m"], case["d"]
    vals = [Decimal(ys), Decimal(ms), Decimal(ds)]
    integral = all(v == v.to_integral_value() for v in vals)
    what = "date(%s, %s, %s)" % (ys, ms, ds)
    labels = ["date3"]
    expect = None
    if not integral:
        labels.append("unspecified:fractional-component")
    else:
        y, m, d = (int(v) for v in vals)
        ok = abs(y) <= cal.MAX_YEAR and cal.valid_ymd(y, m, d)
        expect = (y, m, d) if ok else "null"
        labels.append("valid" if ok else "year-out-of-range" if abs(y) > cal.MAX_YEAR else "month-out-of-range" if not 1 <= m <= 12 else "day-out-of-range")
    ctx.note(key=["date3", ys, ms, ds], nontrivial=expect == "null", labels=labels, sample={"expression": what, "expected": expect})
    items, f = items_of(resp[0], what)
    if f:
        return f
    x = items[0]
    if expect is None:
        return None
    if expect == "null":
        if not is_null(x):
            sig = "C15/date3-out-of-range-accepted"
            y, m, d = (int(v) for v in vals)
            gy, gm, gd = (jnum(i) for i in items[1:4])
            model_y = y if abs(y) < 2 ** 31 else 0
            if m > 0 and d > 0 and (gy, gm, gd) == (model_y, sut_u8(ms), sut_u8(ds)):
                parts = (["year-outside-i32-becomes-0"] if model_y != y else []) + (["month-day-u8-narrowing"] if m > 255 or d > 255 else [])
                if parts:
                    sig = "C15/date3-" + "+".join(parts)
            return Fail(sig, "%s must be null (component outside its range) but is %r" % (what, x))
        return None
    if is_null(x):
        return Fail("C15/valid-date-rejected", "%s is a calendar date but gives %r" % (what, x))
    got = tuple(jnum(i) for i in items[1:4])
    if got != expect:
        return Fail("C15/wrong-component", "%s has year/month/day %r" % (what, items[1:4]))
    return None


def enum_date3(ctx):
    for y in SWEEP_Y:
        for m in SWEEP_M:
            for d in SWEEP_D:
                yield {"y": y, "m": m, "d": d}


# ------------------------------------------------------------------------------------------------
# part 4: pairs of date-times on the UTC time line
# ------------------------------------------------------------------------------------------------

DT_OPS = ["a = b", "a != b", "a - b", "b - a", "a between b and c", "a in [b..c]", "a in (b..c)", "a in < b", "a in <= b", "a in > b", "a in >= b",
          "a < b", "a <= b", "a > b", "a >= b", "a in [b..c)", "a in (b..c]", "c in [b..c)", "b in (b..c]"]
DT_CMP_OPS = ("a < b", "a <= b", "a > b", "a >= b")
# null traces of the catch-all arms of build_lt/le/gt/ge on the pinned tree (a null from anywhere else, e.g. from
# eval_in_unary_less on operands outside chrono's range, is not this defect)
NO_ARM_MESSAGES = ("eval_less_then", "eval_less_or_equal", "eval_greater_then")


def reqs_dts(case):
    return [{"op": "eval", "text": '{a: date and time("%s"), b: date and time("%s"), c: date and time("%s"), r: [%s]}.r' % (
        case["a"], case["b"], case["c"], ", ".join(DT_OPS))}]


def resolve(text):
    """-> (value model, offset seconds) of a date-time literal; offset None when it cannot be decided by the oracle"""
    r = cal.parse_dt(text)
    if r[0] != "ok":
        return None, None
    v = r[1]
    z = v["z"]
    if z is None:
        return v, None
    if z[0] == "off":
        return v, z[1]
    if z[1] not in zones.CURATED:
        return v, None
    local = cal.days_from_civil(v["y"], v["m"], v["d"]) * 86400 + v["h"] * 3600 + v["mi"] * 60 + v["s"]
    if not zones.T_1980 + 86400 <= local <= zones.T_2020 - 86400:
        return v, None
    return v, zones.offset_for_local(z[1], local)


def instant(v, off):
    return cal.instant_ns(v["y"], v["m"], v["d"], v["h"], v["mi"], v["s"], v["ns"], off)


def judge_dts(ctx, case, resp):
    vs = [resolve(case[k]) for k in ("a", "b", "c")]
    what = "a = %s, b = %s, c = %s" % (case["a"], case["b"], case["c"])
    if any(v is None or off is None for v, off in vs):
        ctx.note(key=["dts", what], nontrivial=False, labels=["dts", "unspecified:offset-not-decidable"])
        return None
    ta, tb, tc = (instant(v, off) for v, off in vs)
    offs = [off for _, off in vs]
    named = [v["z"][0] == "zone" for v, _ in vs]
    inr = [dt_in_chrono(v, off) for v, off in vs]
    ctx.note(key=["dts", what], nontrivial=len(set(offs)) > 1 or any(named),
             labels=["dts", "dts:" + case.get("how", "?"), "zone:named" if any(named) else "zone:offsets",
                     "offsets-differ" if offs[0] != offs[1] else "offsets-equal", "a=b" if ta == tb else "a<b" if ta < tb else "a>b"] +
                    ([] if all(inr) else ["outside-chrono"]) + (["diff>292y"] if abs(ta - tb) > I64_MAX else []),
             sample={"a": case["a"], "b": case["b"], "expected a - b": cal.fmt_dtd(ta - tb), "expected a = b": ta == tb})
    items, f = items_of(resp[0], what)
    if f:
        return f
    rng = tb <= tc
    exp = [ta == tb, ta != tb, ("dtd", ta - tb), ("dtd", tb - ta), tb <= ta <= tc, (tb <= ta <= tc) if rng else None,
           (tb < ta < tc) if rng else None, ta < tb, ta <= tb, ta > tb, ta >= tb, ta < tb, ta <= tb, ta > tb, ta >= tb,
           (tb <= ta < tc) if rng else None, (tb < ta <= tc) if rng else None, False if rng else None, False if rng else None]
    sa, sb, sc = (sut_instant(case[k], o) for k, o in zip("abc", offs))
    lossy = (sa, sb, sc) != (ta, tb, tc)
    model = [sa == sb, sa != sb, ("dtd", sa - sb), ("dtd", sb - sa), sb <= sa <= sc, sb <= sa <= sc, sb < sa < sc,
             sa < sb, sa <= sb, sa > sb, sa >= sb, sa < sb, sa <= sb, sa > sb, sa >= sb,
             sb <= sa < sc, sb < sa <= sc, False, False]
    fails = []
    for op, e, g in zip(DT_OPS, exp, items):
        if e is None:
            continue
        involved = [0, 1, 2] if "c" in op else [0, 1]
        if isinstance(e, tuple):
            got = jdtd(g)
            ok = got is not None and got == e[1]
        else:
            got = g
            ok = g is e
        if ok:
            continue
        sig = "C15/datetime-wrong"
        if is_null(g):
            if op in DT_CMP_OPS and isinstance(g, dict) and g.get("N") in NO_ARM_MESSAGES:
                sig = "C15/operator-null/compare/dt"          # the operator has no arm for date-times at all
            elif not all(inr[i] for i in involved):
                sig = "C15/datetime-null-outside-chrono-range"
            elif isinstance(e, tuple) and abs(e[1]) > I64_MAX:
                sig = "C15/datetime-subtraction-null-beyond-292-years"
        elif lossy:
            mo = model[DT_OPS.index(op)]
            if (isinstance(mo, tuple) and got == mo[1]) or (not isinstance(mo, tuple) and g is mo):
                sig = "C15/literal-fraction-float-loss"      # C14's defect: an operand literal lost a nanosecond when read
        fails.append(Fail(sig, "%s: %s is %r, expected %s" % (what, op, g, cal.fmt_dtd(e[1]) if isinstance(e, tuple) else e)))
    return pick(ctx, case, fails)


def fmt_dt(fields, zone_text, digits=None):
    y, m, d, h, mi, s, ns = fields
    return "%sT%02d:%02d:%02d%s%s" % (cal.fmt_date(y, m, d), h, mi, s, cal.fmt_frac(ns, digits), zone_text)


def gen_off(src):
    how = src.weighted([(3, "hour"), (2, "half"), (2, "minute"), (1, "second"), (2, "Z")])
    if how == "Z":
        return 0, "Z"
    if how == "hour":
        o = src.int(-14, 14) * 3600
    elif how == "half":
        o = src.int(-29, 29) * 1800
    elif how == "minute":
        o = src.int(-899, 899) * 60
    else:
        o = src.int(-53999, 53999)
    return o, cal.fmt_offset(o)


def gen_instant(src, named):
    if named:
        return src.int(zones.T_1980 + 3 * 86400, zones.T_2020 - 210 * 86400) * cal.NS
    cls = src.weighted([(6, "modern"), (2, "four-digit"), (1, "wide"), (1, "chrono-edge")])
    if cls == "modern":
        lo, hi = cal.days_from_civil(1900, 1, 1), cal.days_from_civil(2100, 1, 1)
    elif cls == "four-digit":
        lo, hi = cal.days_from_civil(1001, 1, 1), cal.days_from_civil(9998, 1, 1)
    elif cls == "wide":
        lo, hi = cal.days_from_civil(-262000, 1, 1), cal.days_from_civil(262000, 1, 1)
    else:
        e = src.choice([(-262143, 1, 1), (262142, 12, 31), (262200, 1, 1), (-262200, 1, 1), (999999999, 12, 30), (-999999999, 1, 2)])
        z = cal.days_from_civil(*e)
        lo, hi = z - 2, z + 2
    return src.int(lo, hi) * cal.NS_DAY + src.int(0, 86399) * cal.NS + src.weighted([(3, 0), (1, src.int(0, 999999999))])


def render(src, t, named):
    """a literal for the instant t: explicit offset or a curated zone (t moved to a stable instant of that zone)"""
    if named and src.bool(0.2):
        # minutes to hours away from a daylight-saving switch (zones whose 2008-2019 rules agree in both tz databases)
        name = src.choice(zones.NEAR_ZONES)
        secs = zones.near_switch_instant(src, name)
        t = secs * cal.NS + t % cal.NS
        off = zones.offset_at(name, secs)
        return t, fmt_dt(cal.fields_from_instant(t, off), "@" + name)
    if named:
        name = src.choice(zones.CURATED)
        secs = zones.stable_instant(name, t // cal.NS)
        t = secs * cal.NS + t % cal.NS
        off = zones.offset_at(name, secs)
        return t, fmt_dt(cal.fields_from_instant(t, off), "@" + name)
    off, text = gen_off(src)
    f = cal.fields_from_instant(t, off)
    if abs(f[0]) < 1000:
        # years below 1000 cannot be written as literals the SUT reads (C14 finding): move the instant by 3000 years
        t += (cal.days_from_civil(3000, 1, 1) - cal.days_from_civil(0, 1, 1)) * cal.NS_DAY * (1 if t >= 0 else -1)
        f = cal.fields_from_instant(t, off)
    if abs(f[0]) > cal.MAX_YEAR:
        off, text = 0, "Z"
        f = cal.fields_from_instant(t, 0)
    return t, fmt_dt(f, text)


def gen_dts(src):
    named_a = src.bool(0.35)
    ta = gen_instant(src, named_a)
    ta, a = render(src, ta, named_a)
    if src.bool(0.08):
        # three date-times in ONE zone on the day of a daylight-saving switch, on both sides of it
        name = src.choice(zones.NEAR_ZONES)
        sw = src.choice(zones.switches(name))
        texts = []
        for _ in range(3):
            for _try in range(10):
                secs = sw + src.choice([1, -1]) * src.int(0, 17) * 600
                if zones.unambiguous_local(name, secs):
                    break
            else:
                secs = sw + 5 * 3600
            t = secs * cal.NS
            if src.bool(0.25):
                texts.append(fmt_dt(cal.fields_from_instant(t, 0), "Z"))
            else:
                texts.append(fmt_dt(cal.fields_from_instant(t, zones.offset_at(name, secs)), "@" + name))
        return {"a": texts[0], "b": texts[1], "c": texts[2], "how": "same-zone-switch-day"}
    how = src.weighted([(3, "same-instant"), (3, "close"), (2, "day"), (2, "independent"), (1, "far")])
    out = []
    lo = cal.days_from_civil(-cal.MAX_YEAR, 1, 2) * cal.NS_DAY
    hi = cal.days_from_civil(cal.MAX_YEAR, 12, 30) * cal.NS_DAY
    for _ in range(2):
        want_named = src.bool(0.35)
        if how == "same-instant":
            t = ta
        elif how == "close":
            t = ta + src.choice([1, -1]) * src.weighted([(2, 1), (2, cal.NS), (2, src.int(1, 3600) * cal.NS), (1, src.int(1, 10 ** 9))])
        elif how == "day":
            t = ta + src.choice([1, -1]) * src.int(1, 400) * cal.NS_DAY + src.int(-3600, 3600) * cal.NS
        elif how == "far":
            t = ta + src.choice([1, -1]) * src.int(250, 400) * 365 * cal.NS_DAY
        else:
            t = gen_instant(src, want_named)
        t = max(lo, min(hi, t))
        named = want_named and (zones.T_1980 + 3 * 86400) * cal.NS < t < (zones.T_2020 - 210 * 86400) * cal.NS
        t2, text = render(src, t, named)
        out.append(text)
    return {"a": a, "b": out[0], "c": out[1], "how": how}


# ------------------------------------------------------------------------------------------------
# part 5: properties of a date-time, incl. the offset of named zones
# ------------------------------------------------------------------------------------------------

def reqs_props(case):
    return [{"op": "eval", "text": '{a: date and time("%s"), r: [a.year, a.month, a.day, a.hour, a.minute, a.second, a.time offset, a.timezone, '
                                   'a.weekday, date(a).weekday]}.r' % case["t"]}]


def judge_props(ctx, case, resp):
    v, off = resolve(case["t"])
    what = 'date and time("%s")' % case["t"]
    if v is None:
        ctx.note(key=["props", what], nontrivial=False, labels=["props", "unspecified"])
        return None
    z = v["z"]
    ctx.note(key=["props", what], nontrivial=z is not None and z[0] == "zone",
             labels=["props", "zone:named" if z and z[0] == "zone" else "zone:offset" if z else "zone:local"] + ([] if in_chrono_date(v["y"]) else ["outside-chrono"]),
             sample={"literal": case["t"], "expected offset": off, "expected weekday": cal.weekday(v["y"], v["m"], v["d"])})
    items, f = items_of(resp[0], what)
    if f:
        return f
    want = [v["y"], v["m"], v["d"], v["h"], v["mi"], v["s"]]
    got = [jnum(x) for x in items[:6]]
    if got != want:
        return Fail("C15/wrong-component", "%s: year..second are %r, expected %r" % (what, items[:6], want))
    if z is None:
        if not is_null(items[6]):
            return Fail("C15/wrong-offset", "%s: time offset of a value without zone is %r" % (what, items[6]))
    elif off is not None:
        if jdtd(items[6]) != off * cal.NS:
            return Fail("C15/wrong-offset", "%s: time offset is %r, expected %s" % (what, items[6], cal.fmt_offset(off, True)))
    if z is not None and z[0] == "zone" and not (isinstance(items[7], dict) and items[7].get("s") == z[1]):
        return Fail("C15/wrong-timezone", "%s: timezone is %r" % (what, items[7]))
    wd = cal.weekday(v["y"], v["m"], v["d"])
    for name, g in (("weekday", items[8]), ("date(..).weekday", items[9])):
        if jnum(g) != wd:
            sig = "C15/wrong-weekday"
            if is_null(g) and not in_chrono_date(v["y"]):
                sig = "C15/weekday-null-outside-chrono-range"
            return Fail(sig, "%s: %s is %r, the calendar says %d" % (what, name, g, wd))
    return None


def gen_props(src):
    named = src.bool(0.6)
    t = gen_instant(src, named)
    _, text = render(src, t, named)
    if not named and src.bool(0.15):
        text = text[:-1] if text.endswith("Z") else text
    return {"t": text}


def enum_zone_grid(ctx):
    """every curated zone x 24 instants spread over 1980..2020 (rotating with the seed), each moved to a stable instant"""
    step = (zones.T_2020 - zones.T_1980 - 400 * 86400) // 24
    for i, name in enumerate(zones.CURATED):
        for k in range(24):
            secs = zones.stable_instant(name, zones.T_1980 + 86400 * 3 + k * step + ((ctx.seed * 7919 + i * 104729) % step))
            off = zones.offset_at(name, secs)
            yield {"t": fmt_dt(cal.fields_from_instant(secs * cal.NS, off), "@" + name)}


# ------------------------------------------------------------------------------------------------
# part 6: whole months between two dates
# ------------------------------------------------------------------------------------------------

def reqs_ym(case):
    fr, to = case["from"], case["to"]
    args = []
    for t, form in ((fr, case["forms"][0]), (to, case["forms"][1])):
        if form == "dt":
            args.append('date and time(%s, time("%s"))' % (fdate(t), case.get("tod", "00:00:00")))
        else:
            args.append(fdate(t))
    return [{"op": "eval", "text": "[years and months duration(%s, %s)]" % (args[0], args[1])}]


def sut_months(fr, to):
    """the SUT's algorithm (for diagnosis only): branches on the year alone"""
    if to[0] < fr[0]:
        months = 12 * (fr[0] - to[0]) + (fr[1] - to[1])
        if to[2] > fr[2]:
            months -= 1
        return -months
    months = 12 * (to[0] - fr[0]) + (to[1] - fr[1])
    if fr[2] > to[2]:
        months -= 1
    return months


def judge_ym(ctx, case, resp):
    fr, to = tuple(case["from"]), tuple(case["to"])
    exp = cal.months_between(fr, to)
    what = "years and months duration(%s, %s) [%s]" % (cal.fmt_date(*fr), cal.fmt_date(*to), "/".join(case["forms"]))
    ctx.note(key=["ym", fr, to, case["forms"]], nontrivial=fr[2] != to[2] or to < fr,
             labels=["ym", "ym:" + case.get("how", "?"), "backwards" if to < fr else "forwards", "same-year" if fr[0] == to[0] else "other-year",
                     "day-not-reached" if (to >= fr and to[2] < fr[2]) or (to < fr and fr[2] < to[2]) else "day-reached"],
             sample={"from": cal.fmt_date(*fr), "to": cal.fmt_date(*to), "expected": cal.fmt_ymd(exp)})
    items, f = items_of(resp[0], what)
    if f:
        return f
    got = jymd(items[0])
    if got != exp:
        sig = "C15/months-between-wrong"
        if got is not None and to < fr and to[0] == fr[0] and got == sut_months(fr, to):
            sig = "C15/months-between-backwards-within-a-year"
        return Fail(sig, "%s is %r, expected %s" % (what, items[0], cal.fmt_ymd(exp)))
    return None


def gen_ym(src):
    a = gen_ymd(src)
    how = src.weighted([(4, "near"), (2, "independent"), (2, "month-ends")])
    if how == "near":
        b = near(src, a)
    elif how == "independent":
        b = gen_ymd(src)
    else:
        a[2] = cal.dim(a[0], a[1]) - src.int(0, 3)
        m2 = src.int(1, 12)
        y2 = a[0] + src.int(-1, 1)
        b = [y2, m2, max(1, cal.dim(y2, m2) - src.int(0, 3))]
    forms = [src.weighted([(3, "date"), (1, "dt")]), src.weighted([(3, "date"), (1, "dt")])]
    case = {"from": a, "to": b, "forms": forms, "how": how}
    if "dt" in forms:
        case["tod"] = cal.fmt_time(src.int(0, 23), src.int(0, 59), src.int(0, 59), 0, src.choice([None, ["Z"], ["off", 3600], ["off", -18000]]))
    return case


# ------------------------------------------------------------------------------------------------
# part 7: durations: sum, difference, negation, comparison, components
# ------------------------------------------------------------------------------------------------

DUR_OPS = ["a + b", "a - b", "-a", "a = b", "a != b", "a between b and c", "a in [b..c]", "a in (b..c)", "a in < b", "a in <= b", "a in > b",
           "a in >= b", "a < b", "a <= b", "a > b", "a >= b", "a.days", "a.hours", "a.minutes", "a.seconds", "a.years", "a.months"]
DUR_CMP_OPS = ("a < b", "a <= b", "a > b", "a >= b")


def reqs_durs(case):
    return [{"op": "eval", "text": '{a: duration("%s"), b: duration("%s"), c: duration("%s"), r: [%s]}.r' % (
        case["a"], case["b"], case["c"], ", ".join(DUR_OPS))}]


def total(text):
    r = cal.parse_duration(text)
    return (r[1]["k"], r[1]["ns"] if r[1]["k"] == "dtd" else r[1]["mo"])


def trunc_div(a, b):
    q = abs(a) // b
    return -q if a < 0 else q


def judge_durs(ctx, case, resp):
    (ka, a), (kb, b), (kc, c) = total(case["a"]), total(case["b"]), total(case["c"])
    what = "a = %s, b = %s, c = %s" % (case["a"], case["b"], case["c"])
    ctx.note(key=["durs", what], nontrivial=(a < 0) != (b < 0) or a < 0,
             labels=["durs", "durs:" + ka, "signs-differ" if (a < 0) != (b < 0) else "signs-equal", "a=b" if a == b else "a<b" if a < b else "a>b",
                     "a<0" if a < 0 else "a>=0"],
             sample={"a": case["a"], "b": case["b"], "expected a + b": (cal.fmt_dtd if ka == "dtd" else cal.fmt_ymd)(a + b), "expected a < b": a < b})
    items, f = items_of(resp[0], what)
    if f:
        return f
    val = jdtd if ka == "dtd" else jymd
    fmt = cal.fmt_dtd if ka == "dtd" else cal.fmt_ymd
    rng = b <= c
    exp = [("d", a + b), ("d", a - b), ("d", -a), a == b, a != b, b <= a <= c, (b <= a <= c) if rng else None, (b < a < c) if rng else None,
           a < b, a <= b, a > b, a >= b, a < b, a <= b, a > b, a >= b]
    fails = []
    for op, e, g in zip(DUR_OPS, exp, items):
        if e is None:
            continue
        if isinstance(e, tuple):
            ok = val(g) is not None and val(g) == e[1]
        else:
            ok = g is e
        if ok:
            continue
        sig = "C15/duration-wrong"
        if is_null(g):
            if op in DUR_CMP_OPS:
                sig = "C15/operator-null/compare/" + ka
            elif op == "a + b" and ka == "ymd":
                sig = "C15/operator-null/add/ymd"
            elif op == "a - b":
                sig = "C15/operator-null/sub/" + ka
            elif op == "-a" and ka == "ymd":
                sig = "C15/operator-null/neg/ymd"
        fails.append(Fail(sig, "%s: %s is %r, expected %s" % (what, op, g, fmt(e[1]) if isinstance(e, tuple) else e)))
    comp = dict(zip(DUR_OPS[16:], items[16:]))
    if ka == "dtd":
        secs = trunc_div(a, cal.NS)
        want = {"a.days": trunc_div(secs, 86400), "a.hours": trunc_div(secs, 3600) - trunc_div(secs, 86400) * 24,
                "a.minutes": trunc_div(secs, 60) - trunc_div(secs, 3600) * 60, "a.seconds": secs - trunc_div(secs, 60) * 60}
        got = {k: jnum(comp[k]) for k in want}
        if got != want:
            sig = "C15/duration-components-wrong"
            if a < 0 and all(got[k] is not None and got[k] == -want[k] for k in want):
                sig = "C15/dtd-components-lose-the-sign"
            fails.append(Fail(sig, "%s: days/hours/minutes/seconds of a are %r; consistent with its length %s would be %r" % (
                what, [comp[k] for k in want], fmt(a), [want[k] for k in want])))
    else:
        want = {"a.years": trunc_div(a, 12), "a.months": a - trunc_div(a, 12) * 12}
        got = {k: jnum(comp[k]) for k in want}
        if got != want:
            fails.append(Fail("C15/duration-components-wrong", "%s: years/months of a are %r, expected %r" % (what, [comp[k] for k in want], want)))
    return pick(ctx, case, fails)


def gen_dtd_total(src):
    n = src.weighted([(3, src.int(0, 200000) * cal.NS), (2, src.int(0, 10 ** 6) * cal.NS_MIN), (2, src.int(0, 10 ** 18)), (1, src.int(0, 40) * cal.NS_DAY),
                      (1, src.int(0, 10 ** 22))])
    return -n if src.bool(0.4) else n


def gen_ymd_total(src):
    n = src.weighted([(3, src.int(0, 40)), (2, src.int(0, 3000)), (1, src.int(0, cal.MAX_YEAR * 12 + 11))])
    return -n if src.bool(0.4) else n


def spell_dtd(src, n):
    """a literal for n nanoseconds, sometimes not normalised (PT36H) and with float-safe fractions (see C14)"""
    if n % cal.NS:
        n -= (abs(n) % cal.NS) * (1 if n > 0 else -1)
        n += src.choice([0, 500000000, 250000000, 125000000]) * (1 if n >= 0 else -1)
    style = src.weighted([(3, "normal"), (1, "hours"), (1, "minutes"), (1, "seconds")])
    a = abs(n)
    sign = "-" if n < 0 else ""
    whole, frac = divmod(a, cal.NS)
    fr = cal.fmt_frac(frac)
    if style == "normal" or whole == 0:
        return n, cal.fmt_dtd(n)
    if style == "hours":
        h, r = divmod(whole, 3600)
        mi, s = divmod(r, 60)
        return n, "%sPT%dH%s%s" % (sign, h, "%dM" % mi if mi else "", "%d%sS" % (s, fr) if s or frac else "")
    if style == "minutes":
        mi, s = divmod(whole, 60)
        return n, "%sPT%dM%s" % (sign, mi, "%d%sS" % (s, fr) if s or frac else "")
    return n, "%sPT%d%sS" % (sign, whole, fr)


def spell_ymd(src, n):
    if src.bool(0.25) and n:
        return n, "%sP%dM" % ("-" if n < 0 else "", abs(n))
    return n, cal.fmt_ymd(n)


def gen_durs(src):
    kind = src.weighted([(3, "dtd"), (2, "ymd")])
    gen, spell = (gen_dtd_total, spell_dtd) if kind == "dtd" else (gen_ymd_total, spell_ymd)
    a, ta = spell(src, gen(src))
    how = src.weighted([(2, "independent"), (2, "close"), (1, "same"), (1, "negated")])
    out = []
    for _ in range(2):
        if how == "independent":
            n = gen(src)
        elif how == "close":
            n = a + src.choice([1, -1]) * (src.choice([1, cal.NS, cal.NS_DAY]) if kind == "dtd" else src.choice([1, 12]))
        elif how == "same":
            n = a
        else:
            n = -a
        out.append(spell(src, n)[1])
    return {"a": ta, "b": out[0], "c": out[1], "how": how}


# ------------------------------------------------------------------------------------------------

def setup(ctx):
    cal.selftest()
    ctx.rule = ("cases: (1) every day 0..33 of every month of a year through date(y, m, d) and through literals around the month end: validity, "
                "year/month/day, weekday against own day-number arithmetic (quick: 120 rotating years of -1..2400 + century years + edges up to "
                "+-999999999; thorough: all years -1..2400); (2) triples of dates up to +-999999999: = != < <= > >= between, ranges, unary tests; "
                "(3) date(y, m, d) with each component swept over in-range, boundary, 8-bit/32-bit wrap and fractional values; (4) triples of "
                "date-time literals with explicit offsets or curated zones (1980-2020, >= 4 h from any transition): equality, both "
                "subtractions, between/ranges/unary tests, comparison operators against integer nanoseconds on the UTC line; (5) properties "
                "and zone offsets of date-times (curated zones x 24 instants + generated); (6) years and months duration(from, to) against the "
                "whole-months definition; (7) triples of durations: + - negation = != ordering and components against total length. "
                "non-trivial: (1) February, century year or year outside 1..9999; (2) a year outside 1..9999 or a day >= 28; (3) a component "
                "outside its range; (4)(5) different offsets or a named zone; (6) different days of month or `to` before `from`; (7) a negative "
                "operand. distinct by operands")
    ctx.assumptions = [
        "astronomical year numbering (year 0 exists and is leap), as the SUT's own date(0, 1, 1) implies",
        "zone rules are compared only for the curated zones, instants 1980-01-04..2019-06, at least 4 h away from any offset change "
        "according to the system tzdata (the SUT bundles tzdb 2022a)",
        "labelled unspecified and not asserted: fractional components in date(y, m, d), ranges whose start is after their end, date-times "
        "without offset against date-times with one, negative years / years below 1000 as literals (C14's subject: built from numbers here)",
        "components of a negative days-and-time duration are expected to carry the sign (truncating division), like the SUT's own "
        "years/months components and like java.time/xs:duration accessors",
    ]
    ctx.p_month = ctx.register(Part("calendar", None, reqs_month, judge_month_diag))
    ctx.p_dates = ctx.register(Part("date-order", gen_dates, reqs_dates, judge_dates))
    ctx.p_date3 = ctx.register(Part("date-from-numbers", None, reqs_date3, judge_date3))
    ctx.p_dts = ctx.register(Part("datetime-pairs", gen_dts, reqs_dts, judge_dts))
    ctx.p_zone_grid = ctx.register(Part("zone-grid", None, reqs_props, judge_props))
    ctx.p_props = ctx.register(Part("datetime-properties", gen_props, reqs_props, judge_props))
    ctx.p_ym = ctx.register(Part("months-between", gen_ym, reqs_ym, judge_ym))
    ctx.p_durs = ctx.register(Part("durations", gen_durs, reqs_durs, judge_durs))


def run(ctx):
    ctx.enumerate(ctx.p_month, enum_months(ctx), batch=200, name="every day of every month of the selected years (-1..2400) and far years",
                  exhaustive=ctx.thorough())
    ctx.enumerate(ctx.p_date3, enum_date3(ctx), name="date(y, m, d) component sweep", exhaustive=True)
    ctx.enumerate(ctx.p_zone_grid, enum_zone_grid(ctx), name="curated zones x 24 instants 1980..2020: offset, timezone, weekday")
    ctx.forall(ctx.p_dates, ctx.scale(25000, 3000000))
    ctx.forall(ctx.p_dts, ctx.scale(30000, 3600000))
    ctx.forall(ctx.p_props, ctx.scale(12000, 1500000))
    ctx.forall(ctx.p_ym, ctx.scale(25000, 3000000))
    ctx.forall(ctx.p_durs, ctx.scale(20000, 2400000))


if __name__ == "__main__":
    sys.exit(main(sys.modules[__name__]))
