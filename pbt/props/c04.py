"""C04 — a decision's value is its decision logic evaluated over its requirement graph.

Parts (all on generated acyclic DRGs, see pbt/oracles/drg_gen.py):
  (a) differential: every invocable x 3 input contexts against the reference DRG evaluator (pbt/oracles/drg_ref.py);
  (b) metamorphic (needs no reference): adding input entries whose names are outside the invoked element's requirement
      closure (class `extra`) must not change the result;
  (c) class `shadow` (an input entry named like a decision / knowledge model inside the closure) and `param-absent`
      (a decision service invoked without a value for one of its input decisions) are generated, described by the
      hypothesis that explains the SUT's answer, and NOT asserted.
"""
import sys

from ..engine import Part, Fail, main, h
from .. import val
from ..oracles import feel as F
from ..oracles import feel_gen as GEN
from ..oracles import drg_gen as DG
from ..oracles import drg_ref as DR

PROP = "C04"
QUICK_WORKERS = 4
N_INPUTS = 3


# ------------------------------------------------------------------------------------------------------------------
# generation
# ------------------------------------------------------------------------------------------------------------------

def outside_names(model, name, c):
    inside = set(c["inputs"]) | set(c["decisions"]) | set(c["knowledge"]) | set(c["inner"]) | set(c["params"]) | {name}
    return [n for n in DG.all_names(model) if n not in inside] + [n for n in DG.FRESH_NAMES if n not in inside]


def gen_case(src, **opts):
    m = DG.gen_model(src, **opts)
    names = DG.invocables(m)
    idx = DG.index(m)
    targets = []
    for name in names:
        c = DG.closure(m, name)
        outside = outside_names(m, name, c)
        inside_elems = [n for n in c["decisions"] + c["knowledge"] if n not in c["params"]]
        ins = []
        for _ in range(N_INPUTS):
            base = DG.gen_input(src, m, name)
            bi = len(ins)
            ins.append({"ctx": base, "cls": "plain", "base": None})
            forced = [n for n in c["dangling"] if n in outside]
            extra = [[n, DG.any_value(src)] for n in forced + [x for x in src.sample(outside, src.int(1, 3)) if x not in forced]]
            ins.append({"ctx": base + extra, "cls": "extra", "base": bi, "names": [n for n, _ in extra]})
            if inside_elems and src.bool(0.4):
                sh = src.choice(inside_elems)
                ins.append({"ctx": base + [[sh, DG.any_value(src)]], "cls": "shadow", "base": bi, "names": [sh]})
            if idx[name][0] == "service" and idx[name][1]["inD"] and src.bool(0.3):
                drop = src.choice(idx[name][1]["inD"])
                ins.append({"ctx": [e for e in base if e[0] != drop], "cls": "param-absent", "base": bi, "names": [drop]})
            if idx[name][0] == "bkm" and len(idx[name][1]["params"]) >= 2 and src.bool(0.3):
                # a knowledge model invoked by name with an input context that lacks one of its parameters (an earlier one more often than the
                # last): that parameter is null, the others are bound to what was supplied
                ps = [p for p, _ in idx[name][1]["params"]]
                drop = src.choice(ps[:-1]) if src.bool(0.7) else ps[-1]
                ins.append({"ctx": [e for e in base if e[0] != drop], "cls": "partial", "base": bi, "names": [drop]})
        targets.append({"name": name, "inputs": ins})
    return {"model": m, "xml": DG.to_xml(m), "names": names, "targets": targets}


def gen_shape(shape):
    def g(src):
        return gen_case(src, shape=shape)
    return g


def flat_inputs(case):
    return [i["ctx"] for t in case["targets"] for i in t["inputs"]]


def reqs_model(case):
    return [{"op": "probe", "xml": case["xml"], "inputs": flat_inputs(case)}]


# ------------------------------------------------------------------------------------------------------------------
# judging
# ------------------------------------------------------------------------------------------------------------------

def has_fd(L, with_params=False):
    if L[0] == "fd":
        return True if not with_params else (bool(L[1]) or has_fd(L[2], True))
    if L[0] == "ctx":
        return any(has_fd(sub, with_params) for _, sub in L[1]) or (L[2] is not None and has_fd(L[2], with_params))
    if L[0] == "inv":
        return any(has_fd(sub, with_params) for _, sub in L[2])
    return False


def model_has_fd(m, with_params=False):
    return any(has_fd(x["logic"], with_params) for x in m["decisions"] + m["bkms"])


def ref_ctx(wire_ctx):
    return {n: GEN.wire_to_ref(w) for n, w in wire_ctx}


def reference(model, name, ctx, overrides=None, dev=()):
    """-> ("ok", value, fired) | ("unspecified", reason, fired)"""
    try:
        v, fired = DR.evaluate(model, name, ctx, overrides, dev)
        return "ok", DR.norm(v), fired
    except F.Unspecified as e:
        return "unspecified", str(e), getattr(e, "fired", set())


def element_labels(model, idx, name):
    kind, x = idx[name]
    if kind == "service":
        form = "service:%s" % ("1out" if len(x["out"]) == 1 else "n-out")
    else:
        form = "%s:%s" % (kind, x["logic"][0])
    return kind, form


def nontrivial(c):
    kinds = set()
    n = 1
    for key, k in (("inputs", "input"), ("decisions", "decision"), ("knowledge", "knowledge"), ("inner", "inner")):
        if c[key]:
            kinds.add(k)
            n += len(c[key])
    return n >= 3 and len(kinds) >= 2


def model_labels(m):
    out = ["shape:" + m["shape"]]
    for x in m["decisions"]:
        out.append("has:decision:" + x["logic"][0])
        if x["reqK"]:
            out.append("has:decision-requires-knowledge")
    for x in m["bkms"]:
        out.append("has:bkm:" + x["logic"][0])
        if x["reqK"]:
            out.append("has:bkm-requires-knowledge")
    for x in m["services"]:
        out.append("has:service:%s%s%s" % ("in," if x["inD"] else "", "enc," if x["enc"] else "", "%dout" % min(len(x["out"]), 2)))
    return sorted(set(out))


def judge_model(ctx, case, resp):
    m, names = case["model"], case["names"]
    r = resp[0]
    mh = h(case["xml"])
    for l in model_labels(m):
        ctx.classes[l] += 1
    if "timeout" in r and "panic" not in r and "died" not in r:
        # a generated model can be legitimately slow (a decision's list result fed into a service that iterates over it again: the
        # iteration domains multiply); totality and hangs are C05's / C12's subject: counted, not judged
        ctx.note(key=mh, labels=["timeout: not judged (slow generated model; hangs are C05/C12's subject)"])
        return None
    if "panic" in r or "died" in r:
        ctx.note(key=mh, labels=["crash(C05/C12)"])
        return Fail("C04/crash@%s" % r.get("location", "?"), "model evaluation crashed: %r\n%s" % (r, case["xml"]))
    if "parse_err" in r or "error" in r:
        ctx.note(key=mh, labels=["model-rejected"])
        return Fail("C04/model-rejected", "well-formed model rejected: %r\n%s" % (r, case["xml"]))
    if "build_err" in r:
        ctx.note(key=mh, labels=["model-not-built"])
        if model_has_fd(m, with_params=True):
            # the formal parameters of a boxed function definition are neither accepted without a value expression nor
            # known to the parsing scope of its body: any build failure of such a model is attributed to that defect
            return Fail("C04/boxed-function-definition", "model with a boxed function definition that has formal parameters is not built: %s\n%s" % (
                r["build_err"], case["xml"]))
        return Fail("C04/model-not-built", "well-formed model is not built: %s\n%s" % (r["build_err"], case["xml"]))
    if r.get("invocables") != names:
        ctx.note(key=mh, labels=["invocables-differ"])
        return Fail("C04/invocables-differ", "invocables %r, expected %r\n%s" % (r.get("invocables"), names, case["xml"]))
    results = r["results"]
    n_in = len(flat_inputs(case))
    idx = DG.index(m)
    fail = None
    pos = 0
    for ti, t in enumerate(case["targets"]):
        name = t["name"]
        c = DG.closure(m, name)
        nt = nontrivial(c)
        kind, form = element_labels(m, idx, name)
        got_of = []
        for ii, inp in enumerate(t["inputs"]):
            wire = results[ti * (1 + n_in) + 1 + pos + ii]
            got = val.from_wire(wire)
            got_of.append(got)
            cls = inp["cls"]
            labels = [cls, form] + (["dangling-reference"] if c["dangling"] else [])
            f = None
            rc = ref_ctx(inp["ctx"])
            if cls in ("plain", "partial"):
                st, want, fired = reference(m, name, rc)
                if st == "unspecified":
                    labels.append("unspecified")
                    ctx.classes["unspecified: " + want] += 1
                elif not val.same(got, want):
                    f = diagnose(ctx, case, name, inp, got, want, kind, form, labels)
                else:
                    labels.append("value:" + F.kind(want) if not isinstance(want, val.Fn) else "value:fn")
            elif cls == "extra":
                base = got_of[inp["base"]]
                if not val.same(got, base):
                    f = Fail("C04/extra-input-influences-result",
                             "%s %r: input entries %r are outside its requirement closure but change the result\n  without: %s -> %s\n  with:    %s -> %s\n%s" % (
                                 kind, name, inp["names"], t["inputs"][inp["base"]]["ctx"], val.show(base), inp["ctx"], val.show(got), case["xml"]))
            else:
                labels.append(describe_unasserted(m, idx, name, inp, rc, got))
                show_case(labels[-1], case, name, inp, got)
            ctx.note(key=[mh, name, inp["ctx"]], nontrivial=nt and cls in ("plain", "extra", "partial"), labels=labels,
                     sample={"model": case["xml"], "invocable": name, "input": inp["ctx"], "class": cls, "actual": val.show(got)} if nt else None)
            if f is not None and fail is None:
                fail = f
        pos += len(t["inputs"])
    return fail


# only OPEN findings take part in explaining a value (the models of the repaired ones - bkm_service_value 2513f87, ctx_flat 45f37e2 - could,
# combined with an open one, "explain" a value the open one alone leaves undetermined; a regression of a repaired defect shows as wrong-value)
DEVIATIONS = [("fd_null", "C04/boxed-function-definition", lambda m: model_has_fd(m)),
              ("fd_dynamic", "C04/boxed-function-definition", lambda m: model_has_fd(m)),
              ("inv_omitted", "C04/knowledge-model-sees-the-invoking-scope", lambda m: True)]


def diagnose(ctx, case, name, inp, got, want, kind, form, labels):
    """A disagreement with the reference gets the signature of documented defects only when the reference *with exactly
    those deviations* was actually driven through every deviating step (fired == the set) and then predicts the SUT's value."""
    import itertools
    m = case["model"]
    rc = ref_ctx(inp["ctx"])
    msg = "%s %r with input %r\n  expected %s\n  actual   %s\n%s" % (kind, name, inp["ctx"], val.show(want), val.show(got), case["xml"])
    undetermined = False
    flags = [(flag, sig) for flag, sig, applicable in DEVIATIONS if applicable(m)] + [("null_left_eq", None), ("inv_whole_null", None)]
    for r in range(1, len(flags) + 1):
        for combo in itertools.combinations(flags, r):
            dev = tuple(f for f, _ in combo)
            if "fd_null" in dev and "fd_dynamic" in dev:
                continue
            st, v, fired = reference(m, name, rc, dev=dev)
            if fired != set(dev):
                continue
            if st == "unspecified":
                undetermined = True
                continue
            if val.same(got, v):
                sigs = sorted({sig.split("/")[1] for _, sig in combo if sig})
                if not sigs:
                    labels.append("accepted-reading:" + "+".join(dev))      # null = x is null (C01/C09); unbound parameter -> null invocation
                    return None
                for x in sigs:
                    labels.append("known:" + x)
                return Fail("C04/" + "+".join(sigs), msg)
    if undetermined:
        # behind a documented defect the DMN text no longer decides the value: nothing is asserted for this case
        labels.append("undetermined-behind-known-finding")
        return None
    return Fail("C04/wrong-value:" + form, msg)


SHOWN = {}


def show_case(label, case, name, inp, got):
    """triage aid: C04_SHOW=<label substring> prints the first cases carrying that label"""
    import os
    want = os.environ.get("C04_SHOW")
    if want and want in label and SHOWN.get(label, 0) < int(os.environ.get("C04_SHOW_N", "2")):
        SHOWN[label] = SHOWN.get(label, 0) + 1
        print("SHOW %s: %r input %r -> %s\n%s" % (label, name, inp["ctx"], val.show(got), case["xml"]), flush=True)


def idx_kind(m, name):
    return "service" if any(s["name"] == name for s in m["services"]) else "other"


def describe_unasserted(m, idx, name, inp, rc, got):
    """which reading explains the SUT's answer for a `shadow` / `param-absent` input (labelled, never asserted)"""
    if inp["cls"] == "param-absent":
        st, v, _ = reference(m, name, rc)
        if st == "ok" and val.same(got, v):
            return "param-absent=null-parameter"
        sv = idx[name][1]
        # other reading: the input decision is evaluated when no value is supplied
        try:
            own = DR.Evaluation(m)
            ctx2 = dict(rc)
            ctx2[inp["names"][0]] = own.decision(inp["names"][0], rc, {}, {})
            st2, v2, _ = reference(m, name, ctx2)
            if st2 == "ok" and val.same(got, v2):
                return "param-absent=decision-evaluated"
        except F.Unspecified:
            pass
        return "param-absent=other"
    sh = inp["names"][0]
    base = {n: v for n, v in rc.items() if n != sh}
    st1, own, _ = reference(m, name, base)
    st2, over, _ = reference(m, name, base, overrides={sh: rc[sh]})
    a = st1 == "ok" and val.same(got, own)
    b = st2 == "ok" and val.same(got, over)
    kind = idx[sh][0]
    if a and b:
        return "shadow(%s)=indistinguishable" % kind
    if a:
        return "shadow(%s)=own-value-kept" % kind
    if b:
        return "shadow(%s)=input-entry-overrides" % kind
    if st1 == "unspecified" or st2 == "unspecified":
        return "shadow(%s)=unspecified" % kind
    return "shadow(%s)=neither" % kind


def setup(ctx):
    ctx.rule = ("generated acyclic DRGs (1..4 input data, 1..6 decisions of every boxed kind, 0..3 BKMs invoked by literal call and by boxed "
                "invocation, BKM requiring BKM, 0..2 decision services with input/encapsulated/output decisions; forced shapes: diamond, decision "
                "required directly and through a service, BKM chain, several output decisions, layered services, function definition); every "
                "invocable x 3 input contexts (+ variants with entries outside the requirement closure); oracle: reference DRG evaluator "
                "+ metamorphic invariance under extra entries; non-trivial: the closure of the invoked element has >= 3 elements of >= 2 kinds; "
                "distinct by (model, invocable, input)")
    ctx.assumptions = ["pbt/oracles/drg_ref.py implements DMN 1.3 10.4 (decision = logic over information/knowledge requirements, BKM = function of "
                       "its encapsulated logic, decision service = function of its input data and input decisions returning its output decisions)",
                       "decision logic is generated inside the FEEL fragment where the C01 reference and the SUT agree; cases that trigger the "
                       "C01/C09 null-left-equality defect are labelled and not asserted",
                       "input entries named like an element inside the closure (shadow) and absent service parameters are not asserted"]
    ctx.p_any = ctx.register(Part("drg", gen_case, reqs_model, judge_model))
    ctx.p_shapes = {}
    for shp in DG.SHAPES:
        ctx.p_shapes[shp] = ctx.register(Part("drg-" + shp, gen_shape(shp), reqs_model, judge_model))


def run(ctx):
    ctx.forall(ctx.p_any, ctx.scale(7200, 200000), batch=50)
    for shp in DG.SHAPES:
        ctx.forall(ctx.p_shapes[shp], ctx.scale(300, 12500), batch=30)


if __name__ == "__main__":
    sys.exit(main(sys.modules[__name__]))
