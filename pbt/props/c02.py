"""C02 — FEEL numbers compute as IEEE 754-2008 decimal128 (34 digits, half-even); undefined/out-of-range -> null; never Infinity/NaN.

Every operand tuple goes through both entrances of the SUT:
  * `num`  : the public FeelNumber API (operators return numbers, pow/sqrt/ln return Option) -- finite results are compared
             digit for digit; a non-finite operator result is not judged there (the operators have no way to say null);
  * `eval` : the same operation as a FEEL expression with the operands bound by name -- here "undefined or out of range
             yields null" and "no evaluation ever produces an infinite or NaN value" are judged.
The oracle is pbt/oracles/c02_ref.py (CPython decimal as decimal128, exact rationals, 80-digit references)."""
import decimal
import json
import os
import re
import sys
from decimal import Decimal

from ..engine import Part, Fail, Inconclusive, main
from .. import dec
from ..oracles import c02_ref as R

PROP = "C02"

ETINY, ETOP, PREC = dec.ETINY, dec.ETOP, dec.PREC
SPECIAL = ("Infinity", "-Infinity", "NaN", "-NaN", "sNaN", "-sNaN")

BINARY = ("add", "sub", "mul", "div", "pow", "modulo", "decimal", "cmp")
UNARY = ("neg", "abs", "floor", "ceiling", "sqrt", "exp", "log", "odd", "even")
NUM_F = {"add": "add", "sub": "sub", "mul": "mul", "div": "div", "pow": "pow", "modulo": "rem", "decimal": "round",
         "neg": "neg", "abs": "abs", "floor": "floor", "ceiling": "ceiling", "sqrt": "sqrt", "exp": "exp", "log": "ln",
         "odd": "odd", "even": "even"}
NUM_OPTION = ("pow", "sqrt", "ln")          # FeelNumber methods that return Option (None = the API's null)
FEEL = {"add": "a + b", "sub": "a - b", "mul": "a * b", "div": "a / b", "pow": "a ** b", "modulo": "modulo(a, b)",
        "decimal": "decimal(a, b)", "cmp": "[a = b, a != b, a < b, a <= b, a > b, a >= b]",
        "neg": "-a", "abs": "abs(a)", "floor": "floor(a)", "ceiling": "ceiling(a)", "sqrt": "sqrt(a)", "exp": "exp(a)",
        "log": "log(a)", "odd": "odd(a)", "even": "even(a)"}
CMP_NUM = ("eq", "lt", "le", "gt", "ge")
CMP_FEEL = ("eq", "ne", "lt", "le", "gt", "ge")


def T(text):
    """triple [sign, coeff, exp] of a decimal text."""
    s, digits, e = Decimal(text).as_tuple()
    return ["-" if s else "", "".join(map(str, digits)), e]


def val(t):
    return Decimal(dec.sci(t))


def clip_exp(e, ncoeff=1):
    return max(ETINY, min(ETOP, e))


# ------------------------------------------------------------------------------------------------
# requests
# ------------------------------------------------------------------------------------------------

def reqs_case(case):
    op, a, b = case["op"], dec.sci(case["a"]), (dec.sci(case["b"]) if case.get("b") is not None else None)
    out = []
    if op == "cmp":
        for f in CMP_NUM:
            out.append({"op": "num", "f": f, "a": [a, b]})
    else:
        out.append({"op": "num", "f": NUM_F[op], "a": [a] + ([b] if b is not None else [])})
    binds = [["a", {"n": a}]] + ([["b", {"n": b}]] if b is not None else [])
    out.append({"op": "eval", "text": FEEL[op], "scope": [binds]})
    return out


# ------------------------------------------------------------------------------------------------
# reading SUT answers
# ------------------------------------------------------------------------------------------------

def infra(r):
    if isinstance(r, dict) and (r.get("timeout") or "died" in r):
        raise Inconclusive("driver %r" % r)


def got_num(r):
    """answer of a `num` request -> ('num', Decimal) | ('special', text) | ('null',) | ('bool', b) | ('bad', r)."""
    infra(r)
    if "panic" in r:
        return ("panic", r)
    if "b" in r:
        return ("bool", r["b"])
    if r.get("none"):
        return ("null",)
    if "d" in r:
        return ("special", r["d"]) if r["d"] in SPECIAL else ("num", Decimal(r["d"]))
    return ("bad", r)


def got_value(v):
    """a FEEL value on the wire -> same tagging."""
    if v is None or (isinstance(v, dict) and "N" in v):
        return ("null",)
    if isinstance(v, bool):
        return ("bool", v)
    if isinstance(v, dict) and "d" in v:
        return ("special", v["d"]) if v["d"] in SPECIAL else ("num", Decimal(v["d"]))
    return ("bad", v)


def got_eval(r):
    infra(r)
    if "panic" in r:
        return ("panic", r)
    if "values" not in r:
        return ("bad", r)
    return r["values"][0]


def show(g):
    if g[0] == "null":
        return "null"
    if g[0] == "num":
        return "number %s" % g[1]
    if g[0] == "special":
        return "number %s" % g[1]
    if g[0] == "bool":
        return str(g[1]).lower()
    return repr(g[1])[:300]


# ------------------------------------------------------------------------------------------------
# diagnosis: a failure gets a narrow signature only when the case is in the defect's trigger set AND the
# SUT's answer is what that defect predicts; everything else is "C02/<path>/<op>/..." and will be a VIOLATION
# ------------------------------------------------------------------------------------------------

def diagnose(op, path, a, b, ex, g):
    if g[0] == "panic":
        return "C02/panic"
    if path == "eval":
        # overflow of an operator without a finite check -> the infinity of the right sign
        if op in ("add", "sub", "mul", "div", "exp") and ex.kind == "null" and "overflow" in ex.labels and g[0] == "special":
            if op == "exp":
                want = "Infinity"
            else:
                c = dec.ctx128()
                want = str({"add": c.add, "sub": c.subtract, "mul": c.multiply, "div": c.divide}[op](a, b))
            if g[1] == want:
                return "C02/overflow-yields-infinity/op=%s" % op
        if op == "decimal" and "decimal-needs-35+-digits" in ex.labels and g == ("special", "NaN"):
            return "C02/decimal-yields-nan"
    if op == "decimal" and path == "num" and "decimal-needs-35+-digits" in ex.labels and g == ("special", "NaN"):
        return "C02/decimal-yields-nan"
    if op == "modulo" and ex.kind == "num" and g[0] in ("num", "special"):
        m = R.model_modulo_three_steps(a, b)
        if not m.is_finite():
            if g[0] == "special" and g[1] == str(m):
                return "C02/modulo-via-rounded-quotient/non-finite"
        elif g[0] == "num" and g[1] == m and m != ex.value:
            return "C02/modulo-via-rounded-quotient/wrong-value"
    if op == "even" and ex.kind == "bool" and ex.value is True and "integer-35+-digits" in ex.labels and g == ("bool", False):
        return "C02/even-false-for-35+-digit-integers"
    if op == "pow" and ex.kind == "null" and "overflow" in ex.labels and "pow-neg-exp" in ex.labels and g[0] == "num" \
            and int(b) >= -1999999997:      # decGetInt hands negative integers down to -1999999997 to the integer path
        c = dec.ctx128()
        c.divide(Decimal(1), a)
        if c.flags[decimal.Overflow] and g[1] == (Decimal(-1) if (a < 0 and int(b) % 2 == 1) else Decimal(1)):
            return "C02/pow-reciprocal-overflow-yields-one"
    if op == "odd" and ex.kind == "bool" and ex.value is True and "integer-with-fraction-zeros" in ex.labels and g == ("bool", False):
        return "C02/odd-false-for-integers-with-fraction-zeros"
    if op == "pow" and ex.kind == "num" and "pow-neg-base" in ex.labels and "pow-exponent-beyond-9-digits" in ex.labels and g == ("null",):
        return "C02/pow-negative-base-exponent-beyond-9-digits-null"
    return "C02/%s/%s/%s" % (path, op, "non-finite" if g[0] == "special" else "wrong-" + g[0])


def check_one(op, path, a, b, ex, g):
    """compare one SUT answer with the expectation; returns None or (signature, message)."""
    ok = False
    if g[0] == "special":
        ok = False                          # never acceptable, whatever was expected
    elif ex.kind == "null":
        ok = g[0] == "null"
        if not ok and g[0] == "num" and ex.tol and ex.ref is not None:
            ok = R.err_ulps_le(g[1], ex.ref, ex.ulp, ex.tol)      # 2 ulp below an overflowing reference
    elif ex.kind == "bool":
        ok = g == ("bool", ex.value)
    elif ex.kind == "num":
        if ex.value is None:                # unspecified: any finite number or null
            ok = g[0] in ("num", "null")
        elif g[0] == "num":
            ok = R.within(g[1], ex)
        elif g[0] == "null" and ex.tol and ex.ref is not None and not isinstance(ex.ref, tuple):
            # a 2-ulp-high result of a value next to the largest finite number overflows legitimately
            ok = R.BIG.add(ex.ref, R.BIG.multiply(Decimal(2), ex.ulp)) > R.BIG.add(R.MAXV, R.BIG.multiply(Decimal("0.5"), ex.ulp))
    if not ok:
        for alt in ex.alt:
            if alt == "null" and g[0] == "null":
                ok = True
            elif isinstance(alt, bool) and g == ("bool", alt):
                ok = True
            elif isinstance(alt, Decimal) and g[0] == "num" and g[1] == alt:
                ok = True
    if ok:
        return None
    sig = diagnose(op, path, a, b, ex, g)
    what = FEEL[op] if path == "eval" else "FeelNumber::%s" % NUM_F.get(op, op)
    msg = "%s with a=%s%s: got %s, expected %s" % (what, a, (", b=%s" % b) if b is not None else "", show(g), ex.show())
    return sig, msg


# ------------------------------------------------------------------------------------------------
# judge
# ------------------------------------------------------------------------------------------------

def edge_operand(d):
    return d != 0 and (d.adjusted() >= 6100 or d.adjusted() <= -6100)


def judge_case(ctx, case, resp):
    op = case["op"]
    a = val(case["a"])
    b = val(case["b"]) if case.get("b") is not None else None
    shape = case.get("shape", "")
    labels = [op]
    if shape:
        labels.append("shape:" + shape)
    fails = []
    if op == "cmp":
        want = R.expected("cmp", a, b)
        labels.append("cmp:" + ("equal" if want["eq"] else "different"))
        if want["eq"] and case["a"] != case["b"]:
            labels.append("equal-value-different-representation")
        for f, r in zip(CMP_NUM, resp[:5]):
            g = got_num(r)
            if g != ("bool", want[f]):
                fails.append(("C02/num/cmp/%s" % f, "FeelNumber %s with a=%s, b=%s: got %s, expected %s" % (f, a, b, show(g), want[f])))
        ev = got_eval(resp[5])
        if isinstance(ev, tuple):
            fails.append(("C02/panic" if ev[0] == "panic" else "C02/eval/cmp/bad", "%s: %r" % (FEEL[op], ev[1])))
        elif not (isinstance(ev, dict) and "l" in ev and len(ev["l"]) == 6):
            fails.append(("C02/eval/cmp/bad", "%s with a=%s, b=%s: %r" % (FEEL[op], a, b, ev)))
        else:
            for f, v in zip(CMP_FEEL, ev["l"]):
                if got_value(v) != ("bool", want[f]):
                    fails.append(("C02/eval/cmp/%s" % f, "a %s b with a=%s, b=%s: got %s, expected %s" % (
                        f, a, b, show(got_value(v)), str(want[f]).lower())))
        nontrivial = "equal-value-different-representation" in labels or edge_operand(a) or edge_operand(b) or shape in ("adjacent", "tie")
        ctx.note(key=[op, str(a), str(b)], nontrivial=nontrivial, labels=labels,
                 sample={"op": op, "a": str(a), "b": str(b), "expected": want, "eval": ev if not isinstance(ev, tuple) else repr(ev)})
        ctx.count(len(resp) - 1)
        if fails:
            return Fail(fails[0][0], fails[0][1])
        return None

    ex = R.expected(op, a, b)
    labels += ["result:" + l for l in ex.labels]
    if op in ("add", "sub", "mul", "div") and ex.kind == "num" and R.is_tie(op, a, b):
        labels.append("result:tie")
        ex.labels.append("tie")
    labels.append("expect:" + ex.kind)
    # --- num path
    gn = got_num(resp[0])
    judged_num = True
    if op == "decimal" and (ex.alt or ex.value is None or ex.kind == "null"):
        # FeelNumber::round takes any scale; range and integrality of the scale are the FEEL function's business
        judged_num = "decimal-needs-35+-digits" in ex.labels
    if ex.kind == "null" and NUM_F[op] not in NUM_OPTION:
        judged_num = False              # operators return numbers: nothing to say null with (judged on the FEEL path)
        labels.append("num-path:not-judged(null-expected)")
    if op == "log" and a <= 0 and gn[0] != "null":
        judged_num = False              # FeelNumber::ln of a non-positive number is guarded by the FEEL function
    if judged_num:
        f = check_one(op, "num", a, b, ex, gn)
        if f:
            fails.append(f)
        elif ex.kind == "num" and ex.tol and gn[0] == "num":
            labels.append("tolerance:correctly-rounded" if gn[1] == ex.value else "tolerance:off-by-1-or-2-ulp")
    # --- FEEL path
    ge = got_eval(resp[1])
    if isinstance(ge, tuple):
        fails.append(("C02/panic" if ge[0] == "panic" else "C02/eval/%s/bad" % op, "%s with a=%s, b=%s: %r" % (FEEL[op], a, b, ge[1])))
        gv = ge
    else:
        gv = got_value(ge)
        f = check_one(op, "eval", a, b, ex, gv)
        if f:
            fails.append(f)
    nontrivial = bool({"inexact", "tie", "overflow", "underflow", "underflow-to-zero", "subnormal-result", "clamped", "undefined"} & set(ex.labels)) \
        or edge_operand(a) or (b is not None and edge_operand(b)) or shape in ("tie", "cancel", "sticky")
    ctx.note(key=[op, str(a), str(b)], nontrivial=nontrivial, labels=labels,
             sample={"op": op, "a": str(a), "b": None if b is None else str(b), "expected": ex.show(), "num": show(gn), "feel": show(gv),
                     "classes": ex.labels} if nontrivial else None)
    ctx.count(len(resp) - 1)
    if fails:
        # an unexplained failure wins over a known one so that it is not hidden behind it
        for sig, msg in fails:
            if sig not in ctx.open_sigs:
                return Fail(sig, msg)
        return Fail(fails[0][0], fails[0][1])
    return None


# ------------------------------------------------------------------------------------------------
# generators (all randomness through src; first choice = simplest)
# ------------------------------------------------------------------------------------------------

def g34(src, first_lo=1, odd=False):
    c = str(src.int(first_lo, 9)) + src.digits(33)
    if odd:
        c = c[:-1] + "13579"[src.int(0, 4)]
    return c


def rand_t(src):
    return list(dec.gen_d128(src))


def near(src, t, spread=40):
    """another random value whose exponent is within `spread` of t's."""
    u = rand_t(src)
    u[2] = clip_exp(t[2] + src.int(-spread, spread))
    return u


def sgn(src, p=0.4):
    return "-" if src.bool(p) else ""


def small_int_t(src, lo=-40, hi=40):
    n = src.int(lo, hi)
    return ["-" if n < 0 else "", str(abs(n)), 0]


def gen_addsub(src, op):
    shape = src.weighted([(4, "rand"), (4, "near"), (4, "tie"), (3, "sticky"), (3, "cancel"), (3, "far"), (3, "edge"), (1, "same")])
    if shape == "rand":
        a, b = rand_t(src), rand_t(src)
    elif shape == "near":
        a = rand_t(src)
        b = near(src, a)
    elif shape in ("tie", "sticky"):
        e = src.int(ETINY + 40, ETOP) if src.bool(0.5) else src.int(-30, 30)
        s = sgn(src)
        a = [s, g34(src), e]
        same_direction = src.bool(0.5)           # magnitude grows (|a|+half) or shrinks (|a|-half)
        sb = s if (same_direction == (op == "add")) else ("" if s else "-")
        if shape == "tie":
            b = [sb, "5", e - 1]
        else:
            k = src.int(1, 30)
            b = [sb, src.choice(["5" + "0" * (k - 1) + "1", "4" + "9" * k]), e - 1 - k]
    elif shape == "cancel":
        a = [sgn(src), g34(src), dec.gen_exp(src)]
        c = int(a[1])
        d = src.choice([1, -1, 2, 10, 0])
        c2 = c + d if 10 ** 33 <= c + d < 10 ** 34 else c - abs(d)
        sb = a[0] if op == "sub" else ("" if a[0] else "-")
        b = [sb, str(c2), a[2]]
    elif shape == "far":
        a = rand_t(src)
        cb = dec.gen_coeff(src)
        gap = src.weighted([(3, 0), (3, 1), (2, 2), (2, 34), (2, 35)]) if src.bool(0.6) else src.int(0, 70)
        # b's leading digit sits `gap` places below a's last digit
        b = [sgn(src), cb, clip_exp(a[2] - gap - len(cb))]
    elif shape == "edge":
        s = sgn(src)
        a = [s, src.choice(["9" * 34, g34(src, 5), g34(src)]), ETOP - src.weighted([(6, 0), (2, 1), (2, 2)])]
        sb = s if op == "add" else ("" if s else "-")
        b = [sb, src.choice(["9" * 34, g34(src, 5), g34(src), "5", "1"]), ETOP - src.weighted([(6, 0), (2, 1), (2, 34), (2, 35)])]
        if src.bool(0.2):
            sb = "" if sb else "-"
            b[0] = sb
    else:
        a = rand_t(src)
        b = list(a)
    if src.bool(0.5) and shape not in ("rand", "same"):
        a, b = (b, a) if op == "add" else (a, b)
    return a, b, shape


def gen_mul(src):
    shape = src.weighted([(4, "rand"), (4, "near"), (4, "tie"), (3, "edge-hi"), (3, "edge-lo"), (2, "small")])
    if shape == "rand":
        return rand_t(src), rand_t(src), shape
    if shape == "near":
        a = rand_t(src)
        a[2] = src.int(-60, 60)
        b = rand_t(src)
        b[2] = src.int(-60, 60)
        return a, b, shape
    if shape == "tie":
        a = [sgn(src), g34(src, 2, odd=True), src.int(-3000, 3000)]
        b = [sgn(src), src.choice(["5", "50", "500000"]), src.int(-3000, 3000)]
        return (a, b, shape) if src.bool(0.5) else (b, a, shape)
    if shape in ("edge-hi", "edge-lo"):
        a = rand_t(src)
        cb = dec.gen_coeff(src)
        if a[1] == "0" or cb == "0":
            return a, [sgn(src), cb, dec.gen_exp(src)], shape
        if shape == "edge-hi":
            a[2] = src.int(0, 6000 - len(a[1]))
            target = 6144 + src.int(-3, 3)
        else:
            a[2] = -src.int(len(a[1]), 6000)
            target = src.choice([-6143, -6176, -6177, -6160, -6178, -6210]) + src.int(-1, 1)
        adj_a = a[2] + len(a[1]) - 1
        b = [sgn(src), cb, clip_exp(target - adj_a - (len(cb) - 1))]
        return a, b, shape
    return small_int_t(src), small_int_t(src), shape


_UNITS = None
UNIT_EDGES = [0, 1, 250000000, 500000000, 750000000, 999999999, 1000000, 100000000, 1000001, 249999999, 250000001, 499999999, 500000001,
              749999999, 750000001, 999999998, 2]


def unit_dictionary():
    """base-10^9 units for coefficients built unit by unit (the library computes in such units): every number of 4..9 digits written
    in the arithmetic sources of the C library (the quarter steps 250000000/500000000/750000000 of the divide estimate, ...), each with
    its neighbours, plus the generic edges. Falls back to the generic edges when the sources cannot be read."""
    global _UNITS
    if _UNITS is None:
        found = set()
        base = os.path.join(os.environ.get("VERIF_REPO", "/repo"), "feel-number", "decnumber")
        for fn in ("decBasic.c", "decNumber.c", "decCommon.c", "decNumberLocal.h"):
            try:
                with open(os.path.join(base, fn), errors="replace") as f:
                    text = f.read()
            except OSError:
                continue
            for m in re.finditer(r"(?<![0-9A-Za-z_.])([1-9][0-9]{3,8})(?![0-9A-Za-z_.])", text):
                found.add(int(m.group(1)))
        generic = {0, 1, 2, 9, 10, 999, 1000, 999999, 1000000, 1000001, 99999999, 100000000, 250000000, 500000000, 750000000, 999999998, 999999999}
        units = set(generic)
        for v in found:
            if v <= 999999999:
                units.update(x for x in (v - 1, v, v + 1) if 0 <= x <= 999999999)
        _UNITS = sorted(units)
    return _UNITS


def unit_coeff(src, nunits=None):
    """coefficient text (<= 34 digits) made of 2..4 base-10^9 units drawn from the dictionary (or random)"""
    d = unit_dictionary()
    n = nunits or src.int(2, 4)
    units = []
    for i in range(n):
        k = src.weighted([(5, "edge"), (3, "source"), (2, "random")])
        u = src.choice(UNIT_EDGES) if k == "edge" else d[src.int(0, len(d) - 1)] if k == "source" else src.int(0, 999999999)
        units.append(u)
    if units[0] == 0:
        units[0] = src.choice([1, 1000000, 250000000, 999999999])
    if n == 4 and units[0] > 9999999:
        units[0] = units[0] % 10000000 or 1            # 34 digits = 7 + 27
    text = str(units[0]) + "".join("%09d" % u for u in units[1:])
    return text, units


def gen_units_pair(src):
    """divisor built from dictionary units; dividend = a prefix of the divisor's digits (optionally +-1 in its last place, padded with
    zeros or followed by dictionary units): quotients sitting exactly at the edge of a quotient-unit estimate"""
    cb, units = unit_coeff(src)
    how = src.weighted([(5, "prefix"), (2, "prefix+-1"), (2, "units"), (1, "multiple")])
    if how in ("prefix", "prefix+-1"):
        cut = src.choice([len(str(units[0])) + 9 * k for k in range(len(units))] + [src.int(1, len(cb))])
        cut = max(1, min(cut, len(cb)))
        v = int(cb[:cut])
        if how == "prefix+-1":
            v = max(1, v + src.choice([1, -1]))
        ca = str(v) + "0" * src.choice([0, 0, 9, 18, src.int(0, 34 - len(str(v)))])
    elif how == "units":
        ca, _ = unit_coeff(src)
    else:
        ca = str(int(cb) * src.int(1, 10 ** 9))
    ca = ca[:34]
    e = src.int(-40, 40)
    return [sgn(src), ca, e + src.int(-40, 40)], [sgn(src), cb, e]


def gen_div(src):
    shape = src.weighted([(4, "rand"), (4, "near"), (4, "tie"), (3, "exact"), (3, "edge-hi"), (3, "edge-lo"), (2, "by-zero"), (2, "small"), (5, "units")])
    if shape == "units":
        a, b = gen_units_pair(src)
        return a, b, shape
    if shape == "rand":
        return rand_t(src), rand_t(src), shape
    if shape == "near":
        a = rand_t(src)
        return a, near(src, a), shape
    if shape == "tie":
        a = [sgn(src), g34(src, 2, odd=True), src.int(-3000, 3000)]
        b = [sgn(src), src.choice(["2", "20", "2000000"]), src.int(-3000, 3000)]
        return a, b, shape
    if shape == "exact":
        cb = dec.gen_coeff(src, 17)
        k = dec.gen_coeff(src, 17)
        a = [sgn(src), str(int(cb) * int(k)), src.int(-100, 100)]
        if len(a[1]) > 34:
            a[1] = a[1][:34]
        return a, [sgn(src), cb, src.int(-100, 100)], shape
    if shape in ("edge-hi", "edge-lo"):
        a = rand_t(src)
        cb = dec.gen_coeff(src)
        if a[1] == "0" or cb == "0":
            return a, [sgn(src), cb, dec.gen_exp(src)], shape
        if shape == "edge-hi":
            a[2] = src.int(0, 6000 - len(a[1]))
            target = 6144 + src.int(-3, 3)
        else:
            a[2] = -src.int(len(a[1]), 6000)
            target = src.choice([-6143, -6176, -6177, -6160, -6178, -6210]) + src.int(-1, 1)
        adj_a = a[2] + len(a[1]) - 1
        b = [sgn(src), cb, clip_exp(adj_a - target - (len(cb) - 1))]
        return a, b, shape
    if shape == "by-zero":
        a = rand_t(src) if src.bool(0.7) else ["", "0", src.int(-10, 10)]
        return a, [sgn(src), "0", src.choice([0, 0, -6176, 6111, src.int(-50, 50)])], shape
    return small_int_t(src), small_int_t(src), shape


def gen_pow_edge(src):
    """integer power constructed to land at the underflow or overflow edge: the square-and-multiply loop then runs with
    subnormal (or nearly overflowing) intermediates, where its early exits and the final rounding are decided"""
    n = src.weighted([(4, src.int(2, 9)), (4, src.int(10, 200)), (3, src.int(201, 20000)), (1, src.int(20001, 400000))])
    if src.bool(0.5):
        n |= 1     # odd exponents leave a multiplication after the last squaring
    # at the edge, and far beyond it: a power that underflows completely still passes through subnormal intermediates
    target = src.weighted([(4, src.int(-6200, -6140)), (5, src.int(-40000, -6200)), (1, src.int(-6150, -6100)), (2, src.int(6100, 6160)),
                           (1, src.int(6160, 20000))])
    digits = src.int(2, 9)
    coeff = str(src.int(1, 9)) + src.digits(digits - 1)
    e_base = target // n
    neg_exp = src.bool(0.35)
    if neg_exp:
        e_base = -e_base
    a = [sgn(src, 0.15), coeff, e_base - (digits - 1)]
    if not (dec.ETINY <= a[2] <= dec.ETOP):
        a[2] = max(dec.ETINY, min(dec.ETOP, a[2]))
    b = ["-" if neg_exp else "", str(n), 0]
    return a, b, "edge/int"


def gen_pow(src):
    if src.bool(0.3):
        return gen_pow_edge(src)
    bshape = src.weighted([(6, "int-small"), (3, "half"), (3, "real-small"), (2, "int-mid"), (2, "int-9digits"), (1, "int-huge"), (1, "real-any"), (1, "zero")])
    ashape = src.weighted([(5, "small"), (3, "rand-mid"), (3, "near-one"), (2, "rand"), (2, "pow10"), (1, "zero")])
    if ashape == "small":
        a = [sgn(src, 0.3), dec.gen_coeff(src, 6), src.int(-6, 3)]
    elif ashape == "rand-mid":
        a = [sgn(src, 0.3), dec.gen_coeff(src), src.int(-60, 30)]
    elif ashape == "near-one":
        k = src.int(1, 33)
        d = str(src.int(1, 9)) + src.digits(33 - k)
        a = ["", "1" + "0" * (k - 1) + d, -33] if src.bool(0.5) else ["", "9" * k + d, -34]
        if src.bool(0.2):
            a[0] = "-"
    elif ashape == "rand":
        a = rand_t(src)
    elif ashape == "pow10":
        a = [sgn(src, 0.3), "1" + "0" * src.int(0, 5), src.int(-400, 400)]
    else:
        a = [sgn(src), "0", src.int(-5, 5)]
    if bshape == "int-small":
        b = small_int_t(src, -12, 40)
    elif bshape == "half":
        n = src.int(-41, 41)
        b = ["-" if n < 0 else "", str(abs(n) * 5), -1] if src.bool(0.7) else ["-" if n < 0 else "", str(abs(n) * 25), -2]
    elif bshape == "real-small":
        b = [sgn(src), dec.gen_coeff(src, 12), -src.int(1, 12)]
    elif bshape == "int-mid":
        b = [sgn(src), str(src.int(41, 20000)), 0]
    elif bshape == "int-9digits":
        b = [sgn(src), src.choice(["999999999", "1000000000", "1000000001", "2147483647", "2147483648", "4294967296", "999999998", "1", "1"]), src.choice([0, 0, 0, 9, 1])]
    elif bshape == "int-huge":
        b = [sgn(src), dec.gen_coeff(src), src.int(0, 6111)]
    elif bshape == "real-any":
        b = rand_t(src)
    else:
        b = [sgn(src), "0", src.int(-5, 5)]
    return a, b, ashape + "/" + bshape


def gen_modulo(src):
    shape = src.weighted([(4, "small"), (4, "near"), (3, "rand"), (3, "quotient-cross"), (3, "quotient-big"), (2, "tiny-dividend"), (2, "by-zero"), (2, "multiple"),
                          (4, "units")])
    if shape == "units":
        a, b = gen_units_pair(src)
    elif shape == "small":
        a = [sgn(src), dec.gen_coeff(src, 6), src.int(-3, 2)]
        b = [sgn(src), dec.gen_coeff(src, 4), src.int(-3, 2)]
    elif shape == "near":
        a = rand_t(src)
        b = near(src, a, 36)
    elif shape == "rand":
        a, b = rand_t(src), rand_t(src)
    elif shape == "quotient-cross":
        # a = N*B - d: the exact quotient lies just below the integer N and rounds up to it in 34 digits
        kb = src.int(2, 20)
        B = int(str(src.int(1, 9)) + src.digits(kb - 1))
        kn = src.int(34 - kb - 1, 34 - kb)
        N = int(str(src.int(2, 9)) + src.digits(max(kn - 1, 0)))
        A = N * B - src.choice([1, 1, 2, 3])
        if A <= 0 or len(str(A)) > 34:
            A = N * B // 10 + 1
        e = src.int(-20, 20)
        a = [sgn(src, 0.3), str(A), e]
        b = [sgn(src, 0.3), str(B), e]
    elif shape == "quotient-big":
        a = rand_t(src)
        if src.bool(0.5):
            a[1] = dec.gen_coeff_declets(src)      # the reduction of a huge quotient goes by the digit count of the dividend
        b = [sgn(src), dec.gen_coeff(src), clip_exp(a[2] + len(a[1]) - src.int(30, 80))]
    elif shape == "tiny-dividend":
        b = rand_t(src)
        a = [sgn(src, 0.5), dec.gen_coeff(src), clip_exp(b[2] - src.int(0, 80))]
    elif shape == "by-zero":
        a = rand_t(src)
        b = [sgn(src), "0", src.choice([0, -6176, 6111, src.int(-40, 40)])]
    else:
        b = [sgn(src), dec.gen_coeff(src, 10), src.int(-10, 10)]
        k = src.int(0, 10 ** 12)
        a = [sgn(src), str(int(b[1]) * k), b[2]]
    return a, b, shape


def gen_decimal(src):
    shape = src.weighted([(5, "cut"), (4, "tie"), (3, "scale-extreme"), (2, "needs-35"), (2, "coarser"), (1, "non-integer-scale"), (1, "rand")])
    n = [sgn(src), dec.gen_coeff(src), src.int(-40, 10)]
    if shape == "cut":
        s = -n[2] - src.int(0, max(len(n[1]), 1) + 1)
    elif shape == "tie":
        k = src.int(0, 33)
        head = (str(src.int(1, 9)) + src.digits(k)) if k else str(src.int(0, 9))
        n = [sgn(src), head + "5" + "0" * src.int(0, 33 - k if 33 - k < 5 else 5), src.int(-40, 10)]
        s = -(n[2] + len(n[1]) - len(head))
    elif shape == "scale-extreme":
        s = src.choice([6175, 6176, 6177, -6111, -6112, 6174, -6110, 34, 35, -34, 0])
        if src.bool(0.5):
            n = rand_t(src)
    elif shape == "needs-35":
        n = [sgn(src), dec.gen_coeff(src), src.int(-10, 60)]
        s = 35 - (n[2] + len(n[1])) + src.int(0, 10)
    elif shape == "coarser":
        s = -n[2] + src.int(0, 20)
    elif shape == "non-integer-scale":
        s = None
    else:
        n = rand_t(src)
        s = src.int(-6111, 6175)
    if s is None:
        b = [sgn(src), str(src.int(1, 99)), -1]
    else:
        b = ["-" if s < 0 else "", str(abs(s)), 0]
        if src.bool(0.1) and s % 10 == 0 and s != 0:
            b = [b[0], str(abs(s) // 10), 1]          # the same scale written as d E+1
    return n, b, shape


def gen_cmp(src):
    shape = src.weighted([(3, "rand"), (5, "equal-scale"), (4, "adjacent"), (2, "near"), (2, "zeros"), (1, "same")])
    if shape == "rand":
        return rand_t(src), rand_t(src), shape
    if shape == "equal-scale":
        k = src.int(1, 33)
        c = dec.gen_coeff(src, 34 - k)
        e = clip_exp(dec.gen_exp(src) + k) if True else 0
        a = [sgn(src), c, e]
        b = [a[0], c + "0" * k if c != "0" else "0", e - k]
        if b[2] < ETINY:
            a[2] += ETINY - b[2]
            b[2] = ETINY
        return (a, b, shape) if src.bool(0.5) else (b, a, shape)
    if shape == "adjacent":
        a = [sgn(src), g34(src), dec.gen_exp(src)]
        c = int(a[1]) + src.choice([1, -1])
        if not (10 ** 33 <= c < 10 ** 34):
            c = int(a[1])
        b = [a[0] if src.bool(0.9) else ("" if a[0] else "-"), str(c), a[2]]
        return a, b, shape
    if shape == "near":
        a = rand_t(src)
        return a, near(src, a, 3), shape
    if shape == "zeros":
        return [sgn(src), "0", dec.gen_exp(src)], [sgn(src), src.choice(["0", "0", "1"]), dec.gen_exp(src)], shape
    a = rand_t(src)
    return a, list(a), shape


def gen_unary(src, op):
    if op in ("neg", "abs"):
        return rand_t(src), "rand"
    if op in ("floor", "ceiling"):
        shape = src.weighted([(6, "fraction"), (2, "tiny"), (2, "integer"), (2, "rand"), (1, "half")])
        if shape == "fraction":
            c = dec.gen_coeff(src)
            return [sgn(src, 0.5), c, -src.int(1, max(len(c), 1) + 2)], shape
        if shape == "tiny":
            return [sgn(src, 0.5), dec.gen_coeff(src), src.choice([ETINY, -6143, -100, -35, -34])], shape
        if shape == "integer":
            k = src.int(0, 10)
            c = dec.gen_coeff(src, 34 - k)
            return [sgn(src, 0.5), c + "0" * k if c != "0" else "0", -k], shape
        if shape == "half":
            return [sgn(src, 0.5), str(src.int(0, 99)) + "5", -1], shape
        return rand_t(src), shape
    if op == "sqrt":
        shape = src.weighted([(5, "rand"), (3, "square"), (2, "edge"), (2, "negative"), (1, "zero")])
        if shape == "rand":
            return ["", dec.gen_coeff(src), dec.gen_exp(src)], shape
        if shape == "square":
            r = int(dec.gen_coeff(src, 17))
            return ["", str(r * r), 2 * src.int(-3000, 3000)], shape
        if shape == "edge":
            return ["", dec.gen_coeff(src), src.choice([ETINY, ETINY + 1, ETOP, ETOP - 1, -6143, -6144])], shape
        if shape == "negative":
            return ["-", dec.gen_coeff(src), dec.gen_exp(src)], shape
        return [sgn(src), "0", dec.gen_exp(src)], shape
    if op == "exp":
        shape = src.weighted([(5, "moderate"), (3, "tiny"), (3, "large"), (3, "threshold"), (3, "threshold-multiple"), (2, "rand"), (1, "zero")])
        if shape == "threshold-multiple":
            # far beyond the thresholds, at 2^k times the argument where the result leaves the range (the library raises e^(x / 2^k) to the
            # power 2^k by squaring: intermediate results cross the edge of the range there) and a little to either side
            base = src.choice([14149385, 14220766, 14221459])        # thousandths
            k = src.int(1, 12)
            x = base * 2 ** k * (10000 + src.int(-150, 150)) // 10000
            return ["" if base == 14149385 and src.bool(0.7) else "-", str(x), -3], shape
        if shape == "moderate":
            return [sgn(src, 0.5), dec.gen_coeff(src), -src.int(0, 36)], shape
        if shape == "tiny":
            return [sgn(src, 0.5), dec.gen_coeff(src), -src.int(30, 120)], shape
        if shape == "large":
            c = dec.gen_coeff(src, 8)
            return [sgn(src, 0.5), c, src.int(-len(c) + 1, -len(c) + 5)], shape      # 1 .. 99999
        if shape == "threshold":
            base = src.choice(["14149.38539644841072829055748903541", "14220.76553433122614449511522413063", "14221.4586815117860", "14142", "14150"])
            t = T(base)
            t[0] = "-" if base.startswith("1422") else ""
            c = int(t[1]) + src.int(-5000, 5000)
            return [t[0], str(c), t[2]], shape
        if shape == "zero":
            return [sgn(src), "0", src.int(-5, 5)], shape
        return rand_t(src), shape
    if op == "log":
        shape = src.weighted([(5, "rand"), (3, "near-one"), (2, "small"), (2, "edge"), (2, "non-positive")])
        if shape == "rand":
            return ["", dec.gen_coeff(src), dec.gen_exp(src)], shape
        if shape == "near-one":
            k = src.int(1, 33)
            d = str(src.int(1, 9)) + src.digits(33 - k)
            return (["", "1" + "0" * (k - 1) + d, -33] if src.bool(0.5) else ["", "9" * k + d, -34]), shape
        if shape == "small":
            return ["", dec.gen_coeff(src, 6), src.int(-6, 3)], shape
        if shape == "edge":
            return ["", dec.gen_coeff(src), src.choice([ETINY, ETOP, -6143, ETOP - 1])], shape
        return [src.choice(["-", "-", ""]), dec.gen_coeff(src), dec.gen_exp(src)] if src.bool(0.7) else [sgn(src), "0", src.int(-5, 5)], shape
    # odd / even
    shape = src.weighted([(5, "integer"), (3, "positive-exponent"), (3, "fraction"), (2, "trailing-fraction-zeros"), (2, "35+digits"), (1, "zero")])
    if shape == "integer":
        return [sgn(src), dec.gen_coeff(src), 0], shape
    if shape == "positive-exponent":
        c = dec.gen_coeff(src)
        return [sgn(src), c, src.int(1, max(34 - len(c), 1))], shape
    if shape == "fraction":
        return [sgn(src), dec.gen_coeff(src), -src.int(1, 40)], shape
    if shape == "trailing-fraction-zeros":
        k = src.int(1, 10)
        c = dec.gen_coeff(src, 34 - k)
        return [sgn(src), c + "0" * k if c != "0" else "0", -k], shape
    if shape == "35+digits":
        c = dec.gen_coeff_declets(src) if src.bool(0.5) else dec.gen_coeff(src)
        return [sgn(src), c, src.int(35 - len(c), 35 - len(c) + 40) if src.bool(0.7) else src.int(1, ETOP)], shape
    return [sgn(src), "0", src.int(-10, 10)], shape


OP_WEIGHTS = [(5, "add"), (4, "sub"), (5, "mul"), (5, "div"), (5, "pow"), (4, "modulo"), (4, "decimal"), (4, "cmp"),
              (1, "neg"), (1, "abs"), (2, "floor"), (2, "ceiling"), (3, "sqrt"), (3, "exp"), (3, "log"), (2, "odd"), (2, "even")]


def fix_t(t):
    """keep triples inside the quantifier: coefficient 1..34 digits without leading zeros, exponent -6176..6111."""
    c = t[1].lstrip("0") or "0"
    if len(c) > 34:
        c = c[:34]
    return [t[0], c, clip_exp(t[2])]


def gen_case(src):
    op = src.weighted(OP_WEIGHTS)
    if op in ("add", "sub"):
        a, b, shape = gen_addsub(src, op)
    elif op == "mul":
        a, b, shape = gen_mul(src)
    elif op == "div":
        a, b, shape = gen_div(src)
    elif op == "pow":
        a, b, shape = gen_pow(src)
    elif op == "modulo":
        a, b, shape = gen_modulo(src)
    elif op == "decimal":
        a, b, shape = gen_decimal(src)
    elif op == "cmp":
        a, b, shape = gen_cmp(src)
    else:
        a, shape = gen_unary(src, op)
        return {"op": op, "a": fix_t(a), "b": None, "shape": shape}
    return {"op": op, "a": fix_t(a), "b": fix_t(b), "shape": shape}


def gen_units_case(src):
    a, b = gen_units_pair(src)
    return {"op": src.choice(["div", "div", "modulo", "mul"]), "a": fix_t(a), "b": fix_t(b), "shape": "units"}


# ---- part: the result of an operation does not depend on what other threads compute at that moment ---------------------------------

def gen_concurrent(src):
    """24..60 FeelNumber operations (every one also judged alone by the other parts): rounding-sensitive inexact operations next to
    floor / ceiling / trunc / fract / round, evaluated alone, by 2..12 threads at once, and alone again afterwards"""
    cases = []
    for _ in range(src.int(24, 60)):
        k = src.weighted([(4, "inexact"), (4, "integral"), (2, "any")])
        if k == "integral":
            op = src.choice(["floor", "ceiling", "trunc", "fract", "decimal"])
            if op == "decimal":
                a, b, _ = gen_decimal(src)
                c = {"op": op, "a": fix_t(a), "b": fix_t(b)}
            else:
                a, _ = gen_unary(src, op) if op in ("floor", "ceiling") else (rand_t(src), None)
                c = {"op": op, "a": fix_t(a), "b": None}
        elif k == "inexact":
            op = src.choice(["div", "div", "add", "sub", "mul", "sqrt", "exp"])
            if op == "div":
                c = {"op": op, "a": fix_t(small_int_t(src, 1, 40)), "b": fix_t(src.choice([["", "3", 0], ["", "7", 0], ["", "9", 0], ["-", "3", 0], ["", "11", 0]]))}
            elif op in ("add", "sub"):
                a, b, _ = gen_addsub(src, op)
                c = {"op": op, "a": fix_t(a), "b": fix_t(b)}
            elif op == "mul":
                a, b, _ = gen_mul(src)
                c = {"op": op, "a": fix_t(a), "b": fix_t(b)}
            else:
                c = {"op": op, "a": fix_t(small_int_t(src, 2, 30)), "b": None}
        else:
            c = gen_case(src)
            if c["op"] == "cmp":
                c = {"op": "div", "a": fix_t(small_int_t(src, 1, 40)), "b": fix_t(["", "3", 0])}
        if c["op"] in NUM_F:
            cases.append(c)
    return {"cases": cases, "threads": src.choice([2, 3, 4, 8, 12]), "rounds": src.choice([20, 50, 100])}


def reqs_concurrent(case):
    reqs = []
    for c in case["cases"]:
        a, b = dec.sci(c["a"]), (dec.sci(c["b"]) if c.get("b") is not None else None)
        reqs.append({"op": "num", "f": NUM_F[c["op"]], "a": [a] + ([b] if b is not None else [])})
    return [{"op": "numpar", "reqs": reqs, "threads": case["threads"], "rounds": case["rounds"]}]


def judge_concurrent(ctx, case, resp):
    r = resp[0]
    infra(r)
    if not isinstance(r, dict) or "mismatches" not in r:
        raise Inconclusive("numpar answered %r" % (r,))
    ctx.note(key=[case["threads"], [(c["op"], str(c["a"]), str(c["b"])) for c in case["cases"]]], nontrivial=case["threads"] >= 4,
             labels=["concurrent", "threads=%d" % case["threads"]], sample=None)
    ctx.count(int(r.get("evaluations", 0)))
    if r["mismatches"]:
        m = r["mismatches"][0]
        c = case["cases"][m["i"]]
        what = "%s(%s%s)" % (NUM_F[c["op"]], dec.sci(c["a"]), ", " + dec.sci(c["b"]) if c.get("b") is not None else "")
        if "concurrent" in m:
            return Fail("C02/result-depends-on-other-threads", "%s evaluated alone gives %s, evaluated while %d threads compute other numbers it gives %s "
                        "(%d such results among %d operations)" % (what, m["alone"], case["threads"], m["concurrent"], len(r["mismatches"]), len(case["cases"])))
        return Fail("C02/result-changes-after-concurrent-use", "%s evaluated alone gives %s before and %s after %d threads computed numbers" % (
            what, m["alone"], m["alone_afterwards"], case["threads"]))
    return None


def gen_pow_edge_case(src):
    a, b, shape = gen_pow_edge(src)
    return {"op": "pow", "a": fix_t(a), "b": fix_t(b), "shape": shape}


# ------------------------------------------------------------------------------------------------
# deterministic boundary grid: every op x every (ordered) pair of the boundary alphabet
# ------------------------------------------------------------------------------------------------

BOUNDARY = [
    "0", "-0", "0E+6111", "0E-6176",
    "1", "-1", "2", "-2", "3", "4", "7", "10", "100", "0.5", "-0.5", "1.5", "2.5", "-2.5", "0.1", "0.25", "1.0", "1.00",
    "9999999999999999999999999999999999", "1000000000000000000000000000000000", "1E+33", "1E+34", "2E+34", "1E+35", "1E+40",
    "1234567890123456789012345678901235", "5999999999999999999999999999999999", "300000000000000",
    "0.3333333333333333333333333333333333", "0.9999999999999999999999999999999999",
    "1.000000000000000000000000000000001", "-1.000000000000000000000000000000001",
    "1E-34", "5E-35", "1E-6176", "-1E-6176", "9E-6176", "1E-6143", "999999999999999999999999999999999E-6176",
    "1000000000000000000000000000000001E-6176",
    "9999999999999999999999999999999999E+6111", "-9999999999999999999999999999999999E+6111",
    "1000000000000000000000000000000000E+6111", "5000000000000000000000000000000000E+6111", "1E+6111",
    "1E+3072", "1E+3073", "1E-3088", "3162277660168379331998893544432718E+3039",
    "2.718281828459045235360287471352662", "14149", "14150", "-14220", "-14222",
    "34", "35", "6144", "6145", "-6176", "6175", "6176", "-6111", "-6112",
    "999999999", "1000000000", "1000000001", "-1000000001", "2147483648",
]


def grid_cases(ctx):
    vals = [T(v) for v in BOUNDARY]
    for t in vals:
        assert len(t[1]) <= 34 and ETINY <= t[2] <= ETOP, t
    for op in UNARY:
        for a in vals:
            yield {"op": op, "a": a, "b": None, "shape": "grid"}
    for a in vals:
        for b in vals:
            for op in BINARY:
                yield {"op": op, "a": a, "b": b, "shape": "grid"}


# ------------------------------------------------------------------------------------------------

# ------------------------------------------------------------------------------------------------------------------
# part: "no evaluation ever produces an infinite or not-a-number value" where several operations are chained inside the evaluator:
# the numeric aggregates and expressions over their results
# ------------------------------------------------------------------------------------------------------------------

CTX = dec.ctx128()
D = dec.D

AGG_TEXT = ("[sum(L), mean(L), median(L), stddev(L), min(L), max(L), sum(L) + max(L), sum(L) * 2, abs(sum(L)), floor(mean(L)), sum(L) - sum(L), "
            "mean(L) / min(L), modulo(sum(L), 7), even(sum(L)), odd(sum(L)), string(sum(L)), sqrt(sum(L)), sum(L) ** 2, -sum(L), count(L)]")
_NONFINITE = re.compile(r"Infinity|Inf\b|NaN")


def gen_agg(src):
    n = src.int(1, 4)
    items = []
    edge = src.bool(0.6)
    for _ in range(n):
        if edge and src.bool(0.7):
            sign = "-" if src.bool(0.3) else ""
            items.append(sign + src.choice(["9E+6144", "5E+6144", "1E+6144", "9.999999999999999999999999999999999E+6144", "4.999999999999999999999999999999999E+6144",
                                            "5.000000000000000000000000000000000E+6144", "9E+6143", "1E+6111", "3E+6144", "9999999999999999999999999999999999E+6111"]))
        else:
            items.append(dec.sci(dec.gen_d128(src)))
    return {"items": items}


def reqs_agg(case):
    return [{"op": "eval", "text": AGG_TEXT, "scope": [[["L", {"l": [{"n": x} for x in case["items"]]}]]]}]


def judge_agg(ctx, case, resp):
    r = resp[0]
    items = [D(x) for x in case["items"]]
    if "values" not in r:
        ctx.note(key=["agg", case["items"]], nontrivial=False, labels=["aggregates", "aggregates:not-evaluated"])
        return Fail("C02/aggregates/not-evaluated", "%s over L = %s: %r" % (AGG_TEXT[:60], case["items"], r))
    v = r["values"][0]
    text = json.dumps(v)
    t = D(0)
    over = False
    for x in items:
        t = CTX.add(t, x)
        over = over or not t.is_finite()
    ctx.note(key=["agg", case["items"]], nontrivial=over, labels=["aggregates", "aggregates:sum-out-of-range" if over else "aggregates:sum-in-range", "items:%d" % len(items)],
             sample={"L": case["items"], "sum": (v.get("l") or [None])[0] if isinstance(v, dict) else None})
    if _NONFINITE.search(text):
        return Fail("C02/aggregates/non-finite-number", "with L = [%s]\n  %s\n  evaluates to %s\n  an infinite or not-a-number value (out of range is null)" % (
            ", ".join(case["items"]), AGG_TEXT, text[:600]))
    got = v.get("l") if isinstance(v, dict) else None
    if not got or len(got) != 20:
        return Fail("C02/aggregates/not-evaluated", "L = %s: %r" % (case["items"], v))
    if not over:
        # the sum taken left to right with correctly rounded additions, and the mean derived from it
        for idx, name, want in ((0, "sum", t), (1, "mean", CTX.divide(t, D(len(items))))):
            g = got[idx]
            if not (isinstance(g, dict) and "d" in g) or D(g["d"]).compare(want) != 0 and not (D(g["d"]) == want):
                return Fail("C02/aggregates/%s-wrong" % name, "%s(L) with L = [%s] is %r, the correctly rounded additions give %s" % (name, ", ".join(case["items"]), g, want))
    return None


def setup(ctx):
    decimal.getcontext().prec = 25000          # guard: a stray Decimal operator must never round to 28 digits
    decimal.getcontext().traps = dict.fromkeys(decimal.getcontext().traps, False)
    decimal.getcontext().Emax = decimal.MAX_EMAX
    decimal.getcontext().Emin = decimal.MIN_EMIN
    if hasattr(sys, "set_int_max_str_digits"):
        sys.set_int_max_str_digits(0)
    ctx.rule = ("cases: (op, a[, b]) with finite decimal128 operands as (sign, coefficient 1..34 digits, exponent -6176..6111) triples: random "
                "triples plus constructed exact ties at digit 35, sticky digits behind a tie, cancellation, operands 34+ orders apart, products/"
                "quotients at the overflow and subnormal edges, quotients that round to an integer, scales cutting inside the coefficient; and the "
                "full grid op x ordered pairs of a %d-value boundary alphabet. Each case runs through the FeelNumber API and through a FEEL expression "
                "with the operands bound by name. Oracle: CPython decimal as decimal128 / exact rationals rounded once / 80-digit references (2 ulp for "
                "exp, log, inexact powers). non-trivial: the reference result is inexact, a tie, an overflow, underflow, subnormal or undefined, or an "
                "operand lies within 44 orders of a range end, or the case is a constructed tie/sticky/cancellation/equal-value pair; distinct by "
                "(op, operand values)" % len(BOUNDARY))
    ctx.assumptions = ["CPython decimal (libmpdec 2.5.1) add/subtract/multiply/divide/sqrt/exp/ln are correctly rounded; its 80/110-digit exp, ln and "
                       "power are exact to far below one decimal128 ulp",
                       "the library's Debug text (decQuadToString of the reduced value) names the stored value; operands given as scientific text are "
                       "read exactly (at most 34 digits, exponent in range)",
                       "decimal(n, s) whose result at scale s needs more than 34 digits: the value n itself or null are both accepted (NaN is not); "
                       "scale 6176, scales outside -6111..6176 and non-integer scales are labelled unspecified (finite number or null accepted); "
                       "odd/even of a non-integer: false or null accepted"]
    ctx.p_rand = ctx.register(Part("tuples", gen_case, reqs_case, judge_case))
    ctx.p_powedge = ctx.register(Part("pow-edge", gen_pow_edge_case, reqs_case, judge_case))
    ctx.p_units = ctx.register(Part("units", gen_units_case, reqs_case, judge_case))
    ctx.p_conc = ctx.register(Part("concurrent", gen_concurrent, reqs_concurrent, judge_concurrent))
    ctx.p_grid = ctx.register(Part("grid", None, reqs_case, judge_case))
    ctx.p_agg = ctx.register(Part("aggregates", gen_agg, reqs_agg, judge_agg))


def run(ctx):
    ctx.enumerate(ctx.p_grid, grid_cases(ctx), batch=300, name="every op x ordered pairs of the boundary alphabet (%d values)" % len(BOUNDARY),
                  exhaustive=True)
    ctx.forall(ctx.p_rand, ctx.scale(45000, 3000000), batch=300)
    ctx.forall(ctx.p_powedge, ctx.scale(60000, 3000000), batch=300)
    ctx.forall(ctx.p_units, ctx.scale(40000, 3000000), batch=300)
    ctx.forall(ctx.p_agg, ctx.scale(8000, 1500000), batch=300)
    ctx.forall(ctx.p_conc, ctx.scale(60, 3000), batch=1)


if __name__ == "__main__":
    sys.exit(main(sys.modules[__name__]))
