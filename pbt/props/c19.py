"""C19 — a decision table drawn as Unicode box-drawing text is recognised exactly as drawn, evaluates like the same table
loaded from DMN XML, and arbitrary text is recognised or rejected with an error, never with a panic."""
import re
import sys

from ..engine import Part, Fail, Src, main
from ..oracles import dtable_model as M
from ..oracles import dtable_draw as D
from ..oracles import dtable_ref as R
from ..oracles import dmn_xml as X
from . import c03

PROP = "C19"
GALLERY_FILE = "/repo/examples/src/examples/valid.rs"


# ---- shared helpers ------------------------------------------------------------------------------------------------

def crash(r):
    """Signature for a response that is neither a table nor an error."""
    if not isinstance(r, dict):
        return "C19/bad-response"
    if "panic" in r:
        loc = r.get("location", "")
        m = re.search(r"([A-Za-z0-9_\-]+/src/[^:]+):(\d+)$", loc)
        return "C19/panic@%s:%s" % (m.group(1), m.group(2)) if m else "C19/panic@" + loc[-40:]
    if "died" in r:
        return "C19/process-died"
    if "timeout" in r:
        return "C19/hang"
    return None


def outcome(ctx, r, text, profile="release"):
    """None when r is a table or an error; Fail for panic/death; hangs are confirmed with a long timeout first."""
    sig = crash(r)
    if sig is None:
        if "table" in r or "err" in r:
            return None
        return Fail("C19/bad-response", "unexpected driver answer %r" % (r,))
    if sig == "C19/hang":
        r2 = ctx.driver(profile).safe({"op": "dtable", "text": text}, timeout=90)
        if "timeout" not in r2:
            return outcome(ctx, r2, text, profile) if crash(r2) else None
        return Fail(sig, "recognition does not terminate within 90 s for:\n%s" % text)
    return Fail(sig, "%s at %s for:\n%s" % (r.get("panic", r), r.get("location", "?"), text))


C03_OPEN = ("C03/negated-interval-or-boolean-never-matches", "C03/priority-from-concatenated-output-values")


# ---- part 1: the gallery re-drawn by the renderer ---------------------------------------------------------------------

def gallery():
    with open(GALLERY_FILE, encoding="utf-8") as f:
        src = f.read()
    return re.findall(r'pub const (EX_\d+): &str = r#"(.*?)"#;', src, re.S)


def gallery_cases(ctx):
    for name, text in gallery():
        if not text.strip():
            continue
        for k in range(ctx.scale(4, 24)):
            yield {"name": name, "text": text, "variant": k}


def reqs_gallery(case):
    return [{"op": "dtable", "text": case["text"]}]


def judge_gallery(ctx, case, resp):
    r = resp[0]
    f = outcome(ctx, r, case["text"])
    if f:
        return f
    if "err" in r:
        ctx.note(key=[case["name"], case["variant"]], nontrivial=False, labels=["gallery-rejected(crosstab)"])
        return None
    rec1 = D.normalised(r["table"])
    spec = D.spec_of_recognised(r["table"])
    k = case["variant"]
    src = Src(ctx.rng("gallery/%s/%d" % (case["name"], k))) if k >= 2 else Src(prefix=[])
    same_orientation = (k % 2 == 0)
    vertical = (rec1["orientation"] == "Rule-as-Column") == same_orientation
    d = D.render(spec, src, vertical=vertical, plain=(k < 2))
    r2 = ctx.driver().safe({"op": "dtable", "text": d["text"]})
    f = outcome(ctx, r2, d["text"])
    if f:
        return f
    ctx.note(key=d["text"], nontrivial=True, labels=["gallery-redrawn"] + d["features"],
             sample={"gallery": case["name"], "redrawn": d["text"]} if k == 3 else None)
    if "err" in r2:
        return Fail("C19/redrawn-gallery-rejected", "%s re-drawn (variant %d) is rejected: %s\n%s" % (case["name"], k, r2["err"], d["text"]))
    rec2 = D.normalised(r2["table"])
    exp = dict(rec1)
    exp["orientation"] = "Rule-as-Column" if vertical else "Rule-as-Row"
    df = D.diff(exp, rec2)
    if df:
        return Fail("C19/redrawn-gallery-differs", "%s re-drawn (variant %d): %s expected %r, recognised %r\n%s" % (
            case["name"], k, df[0], df[1], df[2], d["text"]))
    return None


# ---- part 2: generated tables, round trip + evaluation ------------------------------------------------------------------

def gen_roundtrip(src):
    T = M.gen_table(src, max_inputs=5, max_outputs=3, min_rules=1, max_rules=8, max_annotations=2, drawable=True,
                    neg_endpoint_rate=0.0)
    d = D.render(D.spec_of_table(T), src)
    return {"table": T, "text": d["text"], "vertical": d["vertical"], "features": d["features"], "tuples": R.derive_tuples(src, T, 3)}


def xml_of(T):
    return X.single_table_model(M.xml_table(T), [(c["expr"], M.TYPE_REF[c["kind"]]) for c in T["inputs"]], decision_name="D")


def reqs_roundtrip(case):
    T = case["table"]
    ctxs = [M.context_of(T, t) for t in case["tuples"]]
    return [{"op": "dtable", "text": case["text"], "inputs": [[c] for c in ctxs]},
            {"op": "probe", "xml": xml_of(T), "inputs": ctxs}]


OPTIONAL_PARTS = ("information-item-name", "allowed-values", "output-label", "output-label-row", "several-outputs", "annotations")


def judge_roundtrip(ctx, case, resp):
    T, text = case["table"], case["text"]
    r, px = resp
    f = outcome(ctx, r, text)
    if f:
        return f
    feats = case["features"]
    nopt = sum(1 for x in OPTIONAL_PARTS if x in feats)
    nontrivial = nopt >= 2 or "multi-line-cells" in feats or "vertical" in feats
    ctx.note(key=text, nontrivial=nontrivial, labels=["roundtrip", "hp=" + T["hp"], "inputs=%d" % len(T["inputs"]),
                                                   "outputs=%d" % len(T["outputs"]), "rules=%d" % len(T["rules"]),
                                                   "annotations=%d" % len(T["annotations"])] + feats,
             sample={"drawing": text})
    if "err" in r:
        return Fail("C19/valid-drawing-rejected", "the drawing is rejected: %s\n%s" % (r["err"], text))
    exp = D.expected(D.spec_of_table(T), case["vertical"])
    got = D.normalised(r["table"])
    df = D.diff(exp, got)
    if df:
        where = re.sub(r"/\d+", "/*", df[0])
        return Fail("C19/field-differs:" + where, "%s: drawn %r, recognised %r\n%s" % (df[0], df[1], df[2], text))
    # evaluation: drawn text vs DMN XML (the statement), plus the reference evaluator where C03's open findings do not apply
    if "results" not in px:
        return Fail("C19/xml-model-rejected", "the same table as DMN XML is not built: %r" % (px,))
    xml_vals = px["results"][1:]
    for tup, dv, xv in zip(case["tuples"], r.get("values", []), xml_vals):
        if "value" not in dv:
            return Fail("C19/drawn-table-not-evaluable", "evaluator of the recognised table is not built: %r\n%s" % (dv, text))
        if dv["value"] != dv["again"] or not dv["scope_same"]:
            return Fail("C19/evaluation-not-repeatable", "%r then %r (scope unchanged: %s)\n%s" % (dv["value"], dv["again"], dv["scope_same"], text))
        try:
            a, b = R.from_wire(dv["value"]), R.from_wire(xv)
        except ValueError as e:
            return Fail("C19/unexpected-value", "%s\n%s" % (e, text))
        if not R.same(a, b):
            return Fail("C19/drawn-vs-xml", "inputs %r: drawn table gives %s, the same table from XML gives %s\n%s" % (
                tup, R.show(a), R.show(b), text))
        ref, info = R.evaluate(T, tup)
        if ref is R.UNSPEC:
            ctx.classes["eval:unspecified(%s)" % info["unspec"]] += 1
            continue
        ctx.classes["eval:" + info["pattern"]] += 1
        if not R.same(a, ref):
            sig = c03.diagnose(T, tup, a, ref, info)
            if sig in C03_OPEN:
                ctx.classes["eval:differs-by-open-C03-finding(%s)" % sig[4:]] += 1      # reported under C03, not a C19 matter
                continue
            return Fail("C19/drawn-vs-reference", "inputs %r: drawn table gives %s, reference %s (matching rules %s)\n%s" % (
                tup, R.show(a), R.show(ref), [i + 1 for i in info["matches"]], text))
    return None


# ---- part 3: single-character corruptions ------------------------------------------------------------------------------

SUBSTITUTES = ["", " "] + D.BOX_GLYPHS


def corruption_bases(ctx, count, tiny):
    """Deterministic drawings (seeded by ctx) to be corrupted at every position."""
    out = []
    for i in range(count):
        src = Src(ctx.rng("corrupt-base/%s/%d" % (tiny, i)))
        if tiny:
            T = M.gen_table(src, max_inputs=2, max_outputs=2, min_rules=1, max_rules=2, max_annotations=1, drawable=True, neg_endpoint_rate=0.0)
            if i % 3 == 0:
                T["name"] = T["name"] or "Fee"
            d = D.render(D.spec_of_table(T), src, vertical=(i % 2 == 1), plain=True, decorate=False)
        else:
            T = M.gen_table(src, max_inputs=3, max_outputs=3, min_rules=1, max_rules=4, max_annotations=2, drawable=True, neg_endpoint_rate=0.0)
            d = D.render(D.spec_of_table(T), src, decorate=False)
        out.append(d["text"])
    return out


def corrupt(base, pos, rep):
    return base[:pos] + rep + base[pos + 1:]


def single_corruptions(bases):
    for bi, base in enumerate(bases):
        for pos, ch in enumerate(base):
            if ch == "\n":
                continue
            for rep in SUBSTITUTES:
                if rep != ch:
                    yield {"base": base, "pos": pos, "rep": rep}


def reqs_corrupt(case):
    return [{"op": "dtable", "text": corrupt(case["base"], case["pos"], case["rep"])}]


def judge_corrupt(ctx, case, resp, profile="release"):
    r = resp[0]
    text = corrupt(case["base"], case["pos"], case["rep"])
    ch = case["base"][case["pos"]]
    kind = "on-line-glyph" if ch in D.BOX_GLYPHS else ("on-blank" if ch == " " else "on-text")
    how = "delete" if case["rep"] == "" else ("blank" if case["rep"] == " " else "glyph")
    res = "recognised" if "table" in r else ("rejected" if "err" in r else "crash")
    ctx.note(key=text, nontrivial=(kind == "on-line-glyph" or how == "glyph"), labels=["corruption", kind + "/" + how + "/" + res],
             sample={"corrupted": text, "result": res} if how == "glyph" else None)
    return outcome(ctx, r, text, profile)


def gen_sampled(src):
    T = M.gen_table(src, max_inputs=4, max_outputs=3, min_rules=1, max_rules=5, max_annotations=2, drawable=True, neg_endpoint_rate=0.0)
    base = D.render(D.spec_of_table(T), src)["text"]
    glyphs = [i for i, ch in enumerate(base) if ch in D.BOX_GLYPHS]
    hits = []
    for _ in range(20):
        pos = src.choice(glyphs) if src.bool(0.7) else src.int(0, len(base) - 1)
        rep = src.choice(SUBSTITUTES)
        if base[pos] != "\n" and rep != base[pos]:
            hits.append([pos, rep])
    return {"base": base, "hits": hits}


def reqs_sampled(case):
    return [{"op": "dtable", "text": corrupt(case["base"], p, r)} for p, r in case["hits"]]


def judge_sampled(ctx, case, resp, profile="release"):
    for (p, rep), r in zip(case["hits"], resp):
        f = judge_corrupt(ctx, {"base": case["base"], "pos": p, "rep": rep}, [r], profile)
        if f:
            return f
    return None


# ---- part 4: heavier damage (several characters, lines, columns) ---------------------------------------------------------

def gen_damage(src):
    T = M.gen_table(src, max_inputs=3, max_outputs=3, min_rules=1, max_rules=4, max_annotations=2, drawable=True, neg_endpoint_rate=0.0)
    text = D.render(D.spec_of_table(T), src)["text"]
    ops = []
    for _ in range(src.int(1, 2)):
        lines = text.split("\n")
        op = src.weighted([(10, "chars"), (2, "drop-line"), (2, "dup-line"), (2, "drop-column"), (1, "truncate"), (1, "swap-lines"), (1, "shift-line")])
        ops.append(op)
        if op == "chars":
            glyph_pos = [i for i, ch in enumerate(text) if ch in D.BOX_GLYPHS]
            for _ in range(src.int(2, 4)):
                if not text:
                    break
                if glyph_pos and src.bool(0.8):
                    p = src.choice(glyph_pos)
                    rep = src.choice(D.BOX_GLYPHS) if src.bool(0.8) else src.choice(["", " "])
                else:
                    p = src.int(0, len(text) - 1)
                    rep = src.choice(SUBSTITUTES)
                if text[p] != "\n":
                    text = corrupt(text, p, rep)
                    if rep == "":
                        glyph_pos = [i for i, ch in enumerate(text) if ch in D.BOX_GLYPHS]
            continue
        if op == "truncate":
            text = text[:src.int(0, len(text))]
            continue
        i = src.int(0, len(lines) - 1)
        if op == "drop-line":
            del lines[i]
        elif op == "dup-line":
            lines.insert(i, lines[i])
        elif op == "swap-lines" and len(lines) > 1:
            j = src.int(0, len(lines) - 1)
            lines[i], lines[j] = lines[j], lines[i]
        elif op == "shift-line":
            lines[i] = " " * src.int(1, 3) + "│" + lines[i] if src.bool(0.5) else lines[i][src.int(0, 3):]
        elif op == "drop-column":
            x = src.int(0, max(len(l) for l in lines))
            lines = [l[:x] + l[x + 1:] for l in lines]
        text = "\n".join(lines)
    return {"text": text, "ops": ops}


def reqs_damage(case):
    return [{"op": "dtable", "text": case["text"]}]


def judge_damage(ctx, case, resp):
    r = resp[0]
    res = "recognised" if "table" in r else ("rejected" if "err" in r else "crash")
    ctx.note(key=case["text"], nontrivial=True, labels=["damage", "damage/" + res] + ["damage:" + o for o in case["ops"]])
    return outcome(ctx, r, case["text"])


def setup(ctx):
    ctx.rule = ("cases: generated tables (1..5 inputs, 1..3 outputs, 0..2 annotations, 1..8 rules, all 11 hit policy markers) drawn by an independent "
                "renderer in both orientations with generated optional parts (name box, allowed values, label, components, annotations), cell widths, "
                "padding, alignment, multi-line cells, merged entries, indentation, preamble/trailer/blank lines; oracle: field-by-field equality after "
                "whitespace normalisation, drawn-vs-XML evaluation equality, reference evaluator; the gallery re-drawn through the renderer; every "
                "single-character corruption (delete, blank, each of %d box glyphs) of generated drawings and heavier damage must give a table or an "
                "error. non-trivial: drawing with >=2 optional parts or multi-line cells or vertical orientation (distinct by drawing text); corruption "
                "of a line glyph or by a line glyph") % len(D.BOX_GLYPHS)
    ctx.assumptions = ["cell texts are compared after collapsing white space (padding and line breaks inside a cell are layout, not content)",
                       "input expressions never spell a hit policy marker (DESIGN section 6 item 44: unspecified)",
                       "evaluation agreement with the reference evaluator is asserted only outside the trigger sets of C03's open findings"]
    ctx.p_gallery = ctx.register(Part("gallery", None, reqs_gallery, judge_gallery))
    ctx.p_round = ctx.register(Part("roundtrip", gen_roundtrip, reqs_roundtrip, judge_roundtrip))
    ctx.p_corrupt = ctx.register(Part("corrupt", None, reqs_corrupt, judge_corrupt, profile="both"))
    ctx.p_sampled = ctx.register(Part("corrupt-sampled", gen_sampled, reqs_sampled, judge_sampled, profile="both"))
    ctx.p_damage = ctx.register(Part("damage", gen_damage, reqs_damage, judge_damage))


def run(ctx):
    ctx.enumerate(ctx.p_gallery, gallery_cases(ctx), batch=50, name="gallery drawings re-drawn by the renderer (layout variants)")
    ctx.forall(ctx.p_round, ctx.scale(4000, 300000), batch=200)
    bases = corruption_bases(ctx, ctx.scale(6, 60), True) + corruption_bases(ctx, ctx.scale(0, 20), False)
    ctx.enumerate(ctx.p_corrupt, single_corruptions(bases), batch=1000,
                  name="every position x {delete, blank, each box glyph} of generated drawings, both builds", exhaustive=True)
    ctx.forall(ctx.p_sampled, ctx.scale(1500, 40000), batch=50)
    ctx.forall(ctx.p_damage, ctx.scale(4000, 600000), batch=500)
    if ctx.thorough() and ctx.w == 0:
        fuzz_phase(ctx)


def fuzz_phase(ctx):
    """coverage-guided campaign on the dtable_any target (arbitrary text is recognised or rejected, never a panic), seeded with the
    gallery and with generated drawings; a crashing input is a violation unless its panic location is an open finding"""
    import os
    import shutil
    from .. import fuzzrun
    from ..engine import Src
    if not fuzzrun.build(ctx.log):
        ctx.extra["fuzz"] = {"skipped": "fuzz targets could not be built (tooling), no verdict from this phase"}
        return
    seeds = os.path.join(fuzzrun.TARGET, "fuzz-seeds-dtable")
    shutil.rmtree(seeds, ignore_errors=True)
    os.makedirs(seeds)
    n = 0
    for name, text in gallery():
        with open(os.path.join(seeds, "g%04d" % n), "w", encoding="utf-8") as f:
            f.write(text)
        n += 1
    rnd = ctx.rng("fuzz-seeds")
    import random as _random
    for i in range(150):
        c = gen_roundtrip(Src(_random.Random(rnd.getrandbits(64))))
        with open(os.path.join(seeds, "r%04d" % i), "w", encoding="utf-8") as f:
            f.write(c["text"])
    all_stats = []
    for variant, globs in (("seeded", [os.path.join(seeds, "*")]), ("empty-corpus", [])):
        stats, crashes = fuzzrun.campaign(ctx, "dtable_any", PROP, globs, runs=ctx.scale(100000, 5000000) if variant == "seeded" else ctx.scale(50000, 1000000),
                                          max_len=6000, timeout_s=2 * 3600)
        stats["variant"] = variant
        all_stats.append(stats)
        fuzzrun.report_crash_only(ctx, PROP, "dtable_any", crashes)
    shutil.rmtree(seeds, ignore_errors=True)
    ctx.extra["fuzz"] = all_stats


if __name__ == "__main__":
    sys.exit(main(sys.modules[__name__]))
