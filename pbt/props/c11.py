"""C11 — typed inputs and outputs: conforming values pass unchanged, others become null.

One generated model per item-definition tree (pbt/oracles/itemdef_gen.py):
  input side   inputData `In Val` : T -> decision Echo = In Val            (the result shows what reached the logic)
  output side  BKM Id(p) : T = p; decision `Out i` : T = literal; decision service `Svc i` : T over an untyped decision
for 6 values per tree: conforming ones built from the tree and violating ones built by changing exactly one position.
Oracle: pbt/oracles/itemdef_ref.py (conformance and coercion from the property statement)."""
import itertools
import sys

from ..engine import Part, Fail, main, h
from .. import val
from ..oracles import itemdef_gen as IG
from ..oracles import itemdef_ref as IR

PROP = "C11"
QUICK_WORKERS = 4
N_VALUES = 6

IN_DEVS = [("coll_av_rejects", "allowed-values-on-collection-reject-everything"),
           ("collref_items", "collection-of-referenced-type-nulls-items")]
OUT_DEVS = [("nounwrap", "no-unwrap-to-list-target")]


# (keep extra entries, ignore allowed values of referencing definitions, a structure with a missing component is null as a whole)
READINGS = [None, None] + [(a, b, c) for a in (False, True) for b in (False, True) for c in (False, True) if a or b or c]


def reading_name(k):
    if k == 0:
        return "statement"
    if k == 1:
        return "whole-null"
    a, b, c = READINGS[k]
    return "+".join(n for n, on in (("extras-kept", a), ("own-allowed-values-ignored", b), ("structure-with-missing-component-null", c)) if on)


def gen_case(src, depth=3):
    tree = None
    for _ in range(6):
        t = IG.gen_tree(src, depth)
        if IG.feasible(t):
            tree = t
            break
    if tree is None:
        tree = {"k": "simple", "type": "number", "av": None, "coll": False}
    values = []
    for i in range(N_VALUES):
        v = IG.conforming(src, tree)
        if i < 2:
            values.append({"v": v, "m": "conforming", "at": "."})
            continue
        r = IG.violate(src, tree, v)
        if r is None:
            values.append({"v": v, "m": "conforming", "at": "."})
        else:
            values.append({"v": r[0], "m": r[1], "at": r[2]})
    # a pair (component dropped / the same component renamed): the renamed value only has one more, unrelated entry than the other one
    if src.bool(0.5):
        pr = IG.drop_and_rename(src, tree, IG.conforming(src, tree))
        if pr is not None:
            values.append({"v": pr[0], "m": "missing-component", "at": pr[2]})
            values.append({"v": pr[1], "m": "renamed-component", "at": pr[2], "pair": len(values) - 1})
    direct = src.bool(0.5)
    cands = [i for i, x in enumerate(values) if IG.multi_keys(x["v"])]
    multi = src.choice(cands) if cands and src.bool(0.85) else None
    # white space around the names inside <typeRef> elements (as XML pretty-printers write them) belongs to the markup, not to the name
    pad = src.weighted([(6, 0), (2, 1), (2, 2)])
    return {"tree": tree, "direct": direct, "values": values, "multi": multi, "pad": pad,
            "xml": IG.model_xml(tree, [x["v"] for x in values], direct, multi, pad)}


def gen_depth(d):
    def g(src):
        return gen_case(src, d)
    return g


def reqs_model(case):
    return [{"op": "probe", "xml": case["xml"], "inputs": [[[IG.INPUT_NAME, x["v"]], ["p", x["v"]]] for x in case["values"]]}]


def W(w):
    return val.from_wire(w)


def same(a, b):
    return val.same(W(a), W(b))


def show(w):
    return val.show(W(w))


def diagnose(devs, predict, got):
    """signature of the documented defects whose model (exactly those deviations, all triggered) predicts the SUT's value"""
    for r in range(1, len(devs) + 1):
        for combo in itertools.combinations(devs, r):
            flags = tuple(f for f, _ in combo)
            want, fired = predict(flags)
            if fired == set(flags) and same(got, want):
                return "C11/" + "+".join(sorted(s for _, s in combo))
    return None


def judge_model(ctx, case, resp):
    tree, values = case["tree"], case["values"]
    r = resp[0]
    shp = IG.shape(tree)
    variants = sorted(IG.variants(tree))
    for v in variants:
        ctx.classes["has:" + v] += 1
    ctx.classes["depth:%d" % IG.depth(tree)] += 1
    if "panic" in r or "died" in r or "timeout" in r:
        ctx.note(key=shp, labels=["crash(C05/C12)"])
        return Fail("C11/crash@%s" % r.get("location", "?"), "model evaluation crashed: %r\n%s" % (r, case["xml"]))
    if "results" not in r:
        ctx.note(key=shp, labels=["model-rejected"])
        return Fail("C11/model-rejected", "well-formed model rejected: %r\n%s" % ({k: r[k] for k in r if k != "invocables"}, case["xml"]))
    multi = case.get("multi")
    names = IG.invocable_names(len(values), IG.multi_keys(values[multi]["v"]) if multi is not None else None)
    if r.get("invocables") != names:
        ctx.note(key=shp, labels=["invocables-differ"])
        return Fail("C11/invocables-differ", "invocables %r, expected %r" % (r.get("invocables"), names))
    n_in = len(values)

    def result(name, i):
        return r["results"][names.index(name) * (1 + n_in) + 1 + i]

    nt_tree = IG.depth(tree) >= 2 or any("collection" in v or "allowed" in v for v in variants)
    fail = None
    for i, x in enumerate(values):
        v, m = x["v"], x["m"]
        # ---------------- input side
        got = result("Echo", i)
        want, notes, _ = IR.reaches(tree, v)
        labels = ["in:" + m] + ["in-note:" + n for n in sorted(notes)]
        f = None
        if not notes:
            if not same(got, want):
                sig = diagnose(IN_DEVS, lambda flags: IR.reaches(tree, v, dev=flags)[::2], got)
                if sig:
                    labels.append("known:" + sig.split("/")[1])
                f = Fail(sig or "C11/input:" + ("passed-although-not-conforming" if W(got) is not None and W(want) is None else
                                                  "nulled-although-conforming" if W(got) is None else "changed"),
                         "input data of type %s, value %s (%s at %s)\n  reaches the logic as %s\n  expected %s\n%s" % (
                             shp, show(v), m, x["at"], show(got), show(want), case["xml"]))
            else:
                labels.append("in=" + ("unchanged" if same(want, v) else "null" if W(want) is None else "component-nulled"))
        else:
            # the statement does not decide: the SUT's answer must still be one of the defensible readings
            readings = [want, None] + [IR.reaches(tree, v, keep_extras=a, ignore_ref_av=b, missing_nulls_structure=c)[0]
                                       for a, b, c in READINGS[2:]]
            if "null-item" in notes:
                labels.append("unspecified")
            elif not any(same(got, w) for w in readings):
                sig = None
                for a, b, c in [(False, False, False)] + READINGS[2:]:
                    sig = sig or diagnose(IN_DEVS, lambda flags: IR.reaches(tree, v, dev=flags, keep_extras=a, ignore_ref_av=b,
                                                                            missing_nulls_structure=c)[::2], got)
                if sig:
                    labels.append("known:" + sig.split("/")[1])
                f = Fail(sig or "C11/input:outside-every-reading", "input data of type %s, value %s (%s at %s; %s)\n  reaches the logic as %s\n"
                         "  which is none of the defensible readings %s\n%s" % (shp, show(v), m, x["at"], sorted(notes), show(got),
                                                                                [show(w) for w in readings], case["xml"]))
            else:
                k = [j for j, w in enumerate(readings) if same(got, w)][0]
                labels.append("in-reading:%s=%s" % ("+".join(sorted(notes)), reading_name(k)))
        ctx.note(key=[shp, "in", m, x["at"]] if m != "conforming" else [shp, "in", show(v)], nontrivial=nt_tree, labels=labels,
                 sample={"type": shp, "value": show(v), "mutation": m, "at": x["at"], "reaches": show(got)} if nt_tree else None)
        if f is not None and fail is None:
            fail = f
        # ---------------- output side
        raw = result("Raw %d" % i, i)
        if not same(raw, v):
            ctx.classes["out:literal-not-reproduced"] += 1     # the FEEL text of the value does not evaluate to it: not this property's subject
            continue
        want, rule, onotes = IR.coerced(tree, v)
        for who in ("Id", "Out %d" % i, "Svc %d" % i, "Inv %d" % i, "Call %d" % i, "Box %d" % i, "TCall %d" % i, "BCall %d" % i) + (("Multi",) if multi == i else ()):
            kind = {"Id": "bkm", "Ou": "decision", "Sv": "service", "Mu": "multi-output-service", "In": "bkm-by-boxed-invocation",
                    "Ca": "bkm-by-literal-call", "Tb": "bkm-with-table-logic", "Bo": "bkm-with-context-logic",
                    "TC": "table-bkm-by-literal-call", "BC": "context-bkm-by-literal-call"}[who[:2]]
            got = result(who, i)
            labels = ["out:" + kind, "out-rule:" + rule, "out:" + m] + ["out-note:" + n for n in sorted(onotes)]
            f = None
            if onotes:
                labels.append("unspecified")
            elif not same(got, want):
                sig = diagnose(OUT_DEVS, lambda flags: (IR.coerced(tree, v, dev=flags)[0], set(flags) if triggers_nounwrap(tree, v) else set()), got)
                if sig:
                    labels.append("known:" + sig.split("/")[1])
                f = Fail(sig or "C11/output:%s:%s" % (kind, rule), "%s %r with output variable of type %s and logic returning %s (%s at %s)\n"
                         "  result   %s\n  expected %s (%s)\n%s" % (kind, who, shp, show(v), m, x["at"], show(got), show(want), rule, case["xml"]))
            ctx.note(key=[shp, "out", kind, rule, m, x["at"]], nontrivial=nt_tree, labels=labels,
                     sample={"type": shp, "value": show(v), "who": who, "rule": rule, "result": show(got)} if nt_tree and who == "Id" else None)
            if f is not None and fail is None:
                fail = f
    # an unrelated extra entry cannot make up for a missing component: where the value without the component is refused (null), the value
    # whose component is merely renamed must be refused too (holds whichever way missing components and extra entries are read)
    for i, x in enumerate(values):
        if x.get("m") == "renamed-component" and fail is None:
            j = x["pair"]
            for who in ("Id", "Out %d", "Svc %d", "Inv %d", "Call %d"):
                a = result(who % j if "%d" in who else who, j)
                b = result(who % i if "%d" in who else who, i)
                ctx.classes["out:renamed-vs-missing:" + ("both-null" if W(a) is None and W(b) is None else "both-kept" if W(a) is not None and W(b) is not None
                                                          else "differ")] += 1
                if W(a) is None and W(b) is not None:
                    fail = Fail("C11/output:renamed-component-accepted", "%r with output variable of type %s: the value %s (component missing at %s) is "
                                "refused (null), but the same value with that component renamed, %s, is returned as %s\n%s" % (
                                    who % i if "%d" in who else who, shp, show(values[j]["v"]), x["at"], show(x["v"]), show(b), case["xml"]))
                    break
    return fail


def triggers_nounwrap(tree, v):
    """trigger set of C16/no-unwrap-to-list-target: list target, singleton list value, unwrap is the applicable rule"""
    t = IR.feel_type(tree)
    return IR.TR.kind(t) == "list" and isinstance(v, dict) and "l" in v and len(v["l"]) == 1 and IR.TR.coerce(t, v)[1] == "unwrap"


def setup(ctx):
    ctx.rule = ("generated item-definition trees to depth 3 (8 built-in types with/without allowed values; referencing, component and "
                "collection-of variants of each) used as type of an input data (echo decision) and of the output variable of a BKM, a decision "
                "and a decision service; per tree 2 conforming values and 4 values violating the type at exactly one position (wrong / "
                "neighbouring kind, outside allowed values, missing component, extra entry, scalar<->collection, singleton list, null); "
                "non-trivial: depth >= 2 or a collection or allowed values; violating cases distinct by (tree shape, mutation, position)")
    ctx.assumptions = ["pbt/oracles/itemdef_ref.py: conformance from the property statement; with isCollection the allowed values constrain the "
                       "items (DMN 1.3 7.3.2 'collections of allowed values')",
                       "not asserted (labelled): null items in collections, missing components, extra context entries, allowed values on a "
                       "referencing definition, allowed values on outputs (a FEEL type has none), wrap and unwrap both applicable",
                       "value-type conventions of types_ref.type_of (empty list = list<Null>, mixed list = list<Any>) as in C16"]
    ctx.parts_d = {}
    for d in (0, 1, 2, 3):
        ctx.parts_d[d] = ctx.register(Part("tree-d%d" % d, gen_depth(d), reqs_model, judge_model))


def run(ctx):
    ctx.forall(ctx.parts_d[0], ctx.scale(2000, 120000), batch=50)
    ctx.forall(ctx.parts_d[1], ctx.scale(4000, 180000), batch=50)
    ctx.forall(ctx.parts_d[2], ctx.scale(6000, 240000), batch=50)
    ctx.forall(ctx.parts_d[3], ctx.scale(8000, 360000), batch=50)


if __name__ == "__main__":
    sys.exit(main(sys.modules[__name__]))
