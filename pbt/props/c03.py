"""C03 — decision tables return what their hit policy prescribes over exactly the matching rules; default output entries;
several output clauses produce contexts."""
import itertools
import sys
from decimal import Decimal

from ..engine import Part, Fail, Src, main
from ..oracles import dtable_model as M
from ..oracles import dtable_draw as D
from ..oracles import dtable_ref as R
from ..oracles import dmn_xml as X

PROP = "C03"


# ---- requests ------------------------------------------------------------------------------------------------------------

def xml_of(T):
    return X.single_table_model(M.xml_table(T), [(c["expr"], M.TYPE_REF[c["kind"]]) for c in T["inputs"]], decision_name="D")


def reqs_table(case):
    T = case["table"]
    ctxs = [M.context_of(T, t) for t in case["tuples"]]
    out = [{"op": "probe", "xml": xml_of(T), "inputs": ctxs}]
    if case.get("text"):
        out.append({"op": "dtable", "text": case["text"], "inputs": [[c] for c in ctxs]})
    return out


# ---- defect models (diagnosis): used only to give a *known* wrong answer its narrow signature ---------------------------------

def without_negations(T):
    """Defect model: a rule whose entry is not(...) over an interval or a boolean never matches."""
    T2 = dict(T)
    T2["rules"] = [r for r in T["rules"] if not any(M.negation_kinds(e) & {"iv", "b"} for e in r["in"])]
    return T2


def concatenated_priority(T, tup):
    """Defect model: priority position of an output entry = its first position in the concatenation of all clauses' output values."""
    values = [M.input_value(v) for v in tup]
    ms, reason = R.matching(T, values)
    if reason or not ms:
        return R.UNSPEC
    allv = [M.lit_value(l) for c in T["outputs"] for l in (c["values"] or [])]

    def pos(v):
        for p, w in enumerate(allv):
            if R._eq(v, w):
                return p
        return None
    import functools

    def cmp(a, b):
        for x, y in zip(T["rules"][a]["out"], T["rules"][b]["out"]):
            px, py = pos(M.lit_value(x)), pos(M.lit_value(y))
            if px is not None and py is not None:
                if px != py:
                    return -1 if px < py else 1
            elif px is not None:
                return -1
            elif py is not None:
                return 1
        return 0
    order = sorted(ms, key=functools.cmp_to_key(cmp))
    outs = [R.rule_output(T, i) for i in order]
    return outs[0] if T["hp"] == "P" else outs


def diagnose(T, tup, got, ref, info):
    """Signature of a wrong answer: a known defect's signature only when the table is in its trigger set AND the answer is the
    one the defect model predicts."""
    neg = "C03/negated-interval-or-boolean-never-matches"
    pri = "C03/priority-from-concatenated-output-values"
    hit = [i for i in info["matches"] if any(M.negation_kinds(e) & {"iv", "b"} for e in T["rules"][i]["in"])]
    T1 = without_negations(T) if hit else None
    if T1 is not None:
        alt, _ = R.evaluate(T1, tup)
        # where the table without those rules has no specified result (e.g. a default of a compound output fires instead)
        # any answer is attributed to the defect
        if alt is R.UNSPEC or R.same(got, alt):
            return neg
    if T["hp"] in ("P", "O") and len(T["outputs"]) > 1:
        alt = concatenated_priority(T, tup)
        if alt is not R.UNSPEC and R.same(got, alt):
            return pri
        if T1 is not None:
            alt = concatenated_priority(T1, tup)
            if alt is not R.UNSPEC and R.same(got, alt):
                return neg
    return "C03/wrong-result:" + T["hp"]


# ---- judge ---------------------------------------------------------------------------------------------------------------

def judge_table(ctx, case, resp):
    T = case["table"]
    px = resp[0]
    dr = resp[1] if len(resp) > 1 else None
    nr, no = len(T["rules"]), len(T["outputs"])
    base_labels = ["hp=" + T["hp"], "outputs=%d" % no, "rules=%d" % nr, "inputs=%d" % len(T["inputs"])]
    if "panic" in px or "died" in px or (dr is not None and ("panic" in dr or "died" in dr)):
        ctx.note(key=[T, "crash"], nontrivial=False, labels=["crash"])
        return Fail("C03/panic", "panic while building/evaluating the table: %r %r\n%s" % (px, dr, xml_of(T)))
    if "results" not in px:
        ctx.note(key=[T, "build"], nontrivial=False, labels=["model-rejected"] + base_labels)
        if M.table_negative_endpoints(T) and "syntax error" in str(px.get("build_err", "")):
            return Fail("C03/negative-endpoint-rejected", "table with a negative number as comparison/interval end point is not built: %s" % px.get("build_err"))
        return Fail("C03/valid-table-rejected", "the model is not built: %r\n%s" % (px, xml_of(T)))
    xml_vals = px["results"][1:]
    drawn_vals = None
    if dr is not None:
        if "table" not in dr:
            return Fail("C03/drawn-table-rejected", "the drawn table is rejected: %r\n%s" % (dr, case["text"]))
        drawn_vals = dr.get("values", [])
    T0 = T
    for idx, tup in enumerate(case["tuples"]):
        T = M.resolve_refs(T0, tup)
        if T is None:
            ctx.note(key=[T0, tup], nontrivial=False, labels=["unspecified:output-names-a-null-input"] + base_labels)
            continue
        if T is not T0:
            base_labels = [l for l in base_labels if l != "output-names-an-input"] + ["output-names-an-input"]
        ref, info = R.evaluate(T, tup)
        ms = info["matches"]
        default_fires = (not ms) and any(c.get("default") for c in T["outputs"])
        nontrivial = (nr >= 2 and len(ms) != 1) or default_fires or no >= 2
        labels = ["pattern=" + info["pattern"], "hp=%s/%s" % (T["hp"], info["pattern"])] + base_labels
        if default_fires:
            labels.append("default-fires")
        for c in T["inputs"]:
            if c["kind"] in M.TEMPORAL:
                labels.append("input-kind=%s/%s" % (c["kind"], "unspecified" if ref is R.UNSPEC else info["pattern"]))
        if ref is R.UNSPEC:
            labels = ["unspecified:" + info["unspec"]] + labels
        ctx.note(key=[T, tup], nontrivial=nontrivial and ref is not R.UNSPEC, labels=labels,
                 sample={"hp": T["hp"], "rules": [[M.text_of(M.words(e)) for e in r["in"]] + ["=>"] + [M.lit_text(o) for o in r["out"]] for r in T["rules"]],
                         "inputs": tup, "matching": [i + 1 for i in ms], "result": R.show(ref)})
        try:
            got = R.from_wire(xml_vals[idx])
        except ValueError as e:
            return Fail("C03/unexpected-value", "inputs %r: %s\n%s" % (tup, e, xml_of(T)))
        if drawn_vals is not None:
            dv = drawn_vals[idx]
            if "value" not in dv:
                return Fail("C03/drawn-table-not-evaluable", "%r\n%s" % (dv, case["text"]))
            if dv["value"] != dv["again"] or not dv["scope_same"]:
                return Fail("C03/evaluation-not-repeatable", "%r then %r\n%s" % (dv["value"], dv["again"], case["text"]))
            try:
                gd = R.from_wire(dv["value"])
            except ValueError as e:
                return Fail("C03/unexpected-value", "inputs %r: %s\n%s" % (tup, e, case["text"]))
            if not R.same(gd, got):
                return Fail("C03/xml-vs-drawn", "inputs %r: the table from XML gives %s, the same table drawn as text gives %s\n%s\n%s" % (
                    tup, R.show(got), R.show(gd), case["text"], xml_of(T)))
        if ref is R.UNSPEC:
            continue
        if not R.same(got, ref):
            sig = diagnose(T, tup, got, ref, info)
            return Fail(sig, "hit policy %s, inputs %s, matching rules %s: expected %s, got %s\n%s" % (
                T["hp"], [M.lit_text(v) if v else "null" for v in tup], [i + 1 for i in ms], R.show(ref), R.show(got),
                case.get("text") or xml_of(T)))
    return None


# ---- part 1: generated tables ------------------------------------------------------------------------------------------------

def gen_case(src):
    drawable = src.bool(0.5)
    T = M.gen_table(src, max_inputs=4, max_outputs=3, min_rules=0, max_rules=8, drawable=drawable, temporal=not drawable)
    tuples = R.derive_tuples(src, T, 6)
    text = None
    if drawable and M.is_drawable(T):
        text = D.render(D.spec_of_table(T), Src(prefix=[]), vertical=src.bool(0.5), plain=True)["text"]
    return {"table": T, "tuples": tuples, "text": text}


# ---- part 2: exhaustive small scope: 3 rules, every subset of them matching, every hit policy -----------------------------------

def grid_cases(ctx):
    """One numeric input x in 0..7 whose bits say which of three rules match; outputs over a 3-literal pool in every arrangement."""
    entries = [["or", [["lit", ["n", str(v)]] for v in range(8) if v >> k & 1]] for k in range(3)]
    tuples = [[["n", str(v)]] for v in range(8)]
    pools = {"num": [["n", "10"], ["n", "2.5"], ["n", "7"]], "str": [["s", "a"], ["s", "b"], ["s", "c"]]}
    for hp in M.HIT_POLICIES:
        for kind in ("num", "str"):
            if kind == "str" and hp in ("C+", "C<", "C>"):
                continue
            pool = pools[kind]
            for assign in itertools.product(range(3), repeat=3):
                for vorder in ([0, 1, 2], [2, 0, 1]):
                    for default in (None, pool[1]):
                        for two in (False, True):
                            if two and (default is not None or vorder != [0, 1, 2]) and hp not in ("P", "O"):
                                continue
                            values = [pool[i] for i in vorder] if (hp in ("P", "O") or vorder != [0, 1, 2]) else None
                            outs = [{"name": "p" if two else None, "kind": kind, "values": values, "default": default}]
                            if two:
                                outs.append({"name": "q", "kind": "str", "values": None, "default": None})
                            rules = [{"in": [entries[k]], "out": [pool[assign[k]]] + ([["s", "r%d" % k]] if two else []), "ann": []} for k in range(3)]
                            T = {"hp": hp, "name": None, "label": None, "inputs": [{"expr": "x", "kind": "num", "values": None}],
                                 "outputs": outs, "annotations": [], "rules": rules}
                            yield {"table": T, "tuples": tuples, "text": None}


def setup(ctx):
    ctx.rule = ("cases: generated tables (1..4 inputs over numbers/strings/booleans, 1..3 outputs, 0..8 rules, all 11 hit policies/aggregators; entries "
                "'-', literals, < <= > >=, the four interval forms in both bracket styles, disjunctions, not(...); optional allowed input values, "
                "output values, default output entries) evaluated through DMN XML and, when drawable, through the drawn text; 6 input tuples per table "
                "derived from the table's own boundary points so that the match pattern (none/one/several-equal/several-different/all) is chosen; plus "
                "the exhaustive 3-rule grid (every subset of rules matching x every output arrangement x every hit policy). oracle: independent "
                "reference evaluator. non-trivial: >=2 rules and matching set size != 1, or a default fires, or >=2 outputs; distinct by (table, tuple)")
    ctx.assumptions = ["null inputs, inputs outside the allowed values, defaults with several outputs, aggregators over several outputs or non-numbers, "
                       "priority ties with different outputs and output entries outside the output values are generated but labelled unspecified "
                       "(totality, repeatability and XML/drawn agreement only)",
                       "numbers are compared by value (printing is C07's subject)"]
    ctx.p_tables = ctx.register(Part("tables", gen_case, reqs_table, judge_table))
    ctx.p_grid = ctx.register(Part("grid", None, reqs_table, judge_table))


def run(ctx):
    ctx.enumerate(ctx.p_grid, grid_cases(ctx), batch=100, name="3 rules x 8 match subsets x output arrangements x hit policies",
                  exhaustive=True)
    ctx.forall(ctx.p_tables, ctx.scale(9000, 1500000), batch=100)


if __name__ == "__main__":
    sys.exit(main(sys.modules[__name__]))
