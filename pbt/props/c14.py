"""C14 — temporal literals denote exactly what is written and print back losslessly.

Every case is one literal text (or one expression building a temporal value without a literal) sent through the FEEL
constructor of its kind, the `@"..."` literal and the xsd typed-input constructor.  The oracle is the reference
lexical grammar in pbt/oracles/temporal_cal.py: valid => accepted, every observable component and the denotation of
`string(v)` equal the written value (nanoseconds as integers), the text reads back as an equal value with an identical
text, durations print normalised; invalid => null; `unspec` => only the round trip of whatever came back."""
import random
import sys
from decimal import Decimal

from ..engine import Part, Fail, main
from ..oracles import temporal_cal as cal
from ..oracles import temporal_zones as zones

PROP = "C14"

CTOR = {"date": "date", "time": "time", "dt": "date and time", "duration": "duration"}
XSD = {"date": "xsd_date", "time": "xsd_time", "dt": "xsd_date_time", "duration": "xsd_duration"}
PROPS = {
    "date": ["year", "month", "day"],
    "time": ["hour", "minute", "second", "time offset", "timezone"],
    "dt": ["year", "month", "day", "hour", "minute", "second", "time offset", "timezone"],
    "duration": ["days", "hours", "minutes", "seconds", "years", "months"],
}
JKEY = {"date": "date", "time": "time", "dt": "dt", "dtd": "dtd", "ymd": "ymd"}
U64 = 2 ** 64 - 1
YM_SURE = cal.MAX_YEAR * 12 + 11          # every years-and-months duration up to here must be representable
SUT_ZONE_CHARS = set("abcdefghijklmnopqrstuvwxyzABCDEFGHIJKLMNOPQRSTUVWXYZ_/")


# ------------------------------------------------------------------------------------------------
# requests
# ------------------------------------------------------------------------------------------------

def feel_expr(kind, inner):
    """One expression returning [v, s, w, w = v, string(w), properties...] for the value built by `inner`."""
    c = CTOR[kind]
    props = ", ".join("v.%s" % p for p in PROPS[kind])
    return "{v: %s, s: string(v), w: %s(s), r: [v, s, w, w = v, string(w), %s]}.r" % (inner, c, props)


def quotable(text):
    return '"' not in text and "\\" not in text and all(32 <= ord(c) < 127 or c in "\u0665\uff15\u096b" for c in text)


def reqs_literal(case):
    kind, text = case["kind"], case["text"]
    return [
        {"op": "eval", "text": feel_expr(kind, '%s("%s")' % (CTOR[kind], text))},
        {"op": "eval", "text": '@"%s"' % text},
        {"op": "temporal", "kind": XSD[kind], "text": text},
    ]


def reqs_value(case):
    return [{"op": "eval", "text": feel_expr(case["kind"], case["expr"])}]


# ------------------------------------------------------------------------------------------------
# reading responses
# ------------------------------------------------------------------------------------------------

def panic_fail(r, what):
    loc = r.get("location", "")
    short = "/".join(loc.split("/")[-3:]) if loc else "?"
    return Fail("C14/panic@%s" % short, "%s: panic %r at %s (totality is C05's subject; recorded here so the search continues)" % (
        what, r.get("panic"), loc))


def is_null(j):
    return j is None or (isinstance(j, dict) and "N" in j)


def jkind(j):
    if isinstance(j, dict):
        for k in ("date", "time", "dt", "dtd", "ymd"):
            if k in j:
                return k
    return None


def jnum(j):
    if isinstance(j, dict) and "n" in j:
        try:
            return Decimal(j["n"])
        except Exception:
            return None
    return None


def eval_items(r):
    """-> (items | None, problem text | None, panic record | None)"""
    if not isinstance(r, dict):
        return None, "no response", None
    if "panic" in r:
        return None, None, r
    if "values" not in r:
        return None, "no value: %r" % {k: v for k, v in r.items() if not k.startswith("scope")}, None
    v = r["values"][0]
    if isinstance(v, dict) and "l" in v:
        return v["l"], None, None
    return None, "not a list: %r" % (v,), None


def parse_printed(j):
    """reference-parse the text of a temporal value json -> (status, value)"""
    k = jkind(j)
    return cal.PARSERS[k](j[k])


# ------------------------------------------------------------------------------------------------
# classification (labels, non-triviality)
# ------------------------------------------------------------------------------------------------

def labels_of(kind, text, exp, src):
    out = [src, kind + ":" + exp[0]]
    nt = src.startswith("corrupt")
    if exp[0] == "ok":
        v = exp[1]
        if v["k"] in ("date", "dt"):
            y = v["y"]
            if y < 0:
                out.append("year<0")
            elif y < 1000:
                out.append("year<1000")
            elif y > 262142:
                out.append("year>chrono")
            elif y > 9999:
                out.append("year>9999")
            if not 1000 <= y <= 9999:
                nt = True
        if v["k"] in ("time", "dt"):
            if v["ns"]:
                out.append("fraction")
                nt = True
            z = v["z"]
            if z is None:
                out.append("zone:local")
            elif z[0] == "zone":
                out.append("zone:named")
                nt = True
            else:
                off = z[1]
                out.append("zone:Z" if text.endswith("Z") else "zone:offset")
                if off < 0:
                    out.append("offset<0")
                if off % 3600:
                    out.append("offset-minutes" if off % 60 == 0 else "offset-seconds")
                if -3600 < off < 0:
                    out.append("offset-subhour-negative")
                if off < 0 or off % 3600:
                    nt = True
        if v["k"] == "dtd":
            n = v["ns"]
            if n < 0:
                out.append("negative")
            if n % cal.NS:
                out.append("fraction")
            if not cal.dtd_is_normalised(text):
                out.append("needs-normalising")
            if abs(n) > U64 * cal.NS_DAY // 2:
                out.append("huge")
            nt = nt or n < 0 or n % cal.NS != 0 or not cal.dtd_is_normalised(text)
        if v["k"] == "ymd":
            n = v["mo"]
            if n < 0:
                out.append("negative")
            if not cal.ymd_is_normalised(text):
                out.append("needs-normalising")
            if abs(n) > YM_SURE:
                out.append("huge")
            nt = nt or n < 0 or not cal.ymd_is_normalised(text)
    elif exp[0] == "bad":
        out.append("bad:" + exp[1])
        nt = True
    else:
        out.append("unspecified")
        out.append("unspec:" + exp[1])
    return out, nt


def huge(exp):
    """Durations beyond what must be representable: exact or null are both acceptable."""
    if exp[0] != "ok":
        return False
    v = exp[1]
    f = v.get("fields")
    if v["k"] == "ymd":
        return abs(v["mo"]) > YM_SURE or any(f[x] is not None and int(f[x]) > YM_SURE for x in ("Y", "M"))
    if v["k"] == "dtd":
        # the representable maximum is a whole number of days that fits into 64 bits (+ 23:59:59.999999999), however the literal spreads
        # its length over the fields: PT18446744073709551616H is far below it and must be read exactly
        return abs(v["ns"]) // cal.NS_DAY > U64
    return False


# ------------------------------------------------------------------------------------------------
# diagnosis: narrow signatures of the defects that are known (each needs trigger + predicted output)
# ------------------------------------------------------------------------------------------------

def sut_zone_regex_rejects(z):
    return z is not None and z[0] == "zone" and any(c not in SUT_ZONE_CHARS for c in z[1])


def diagnose_rejected(kind, text, v):
    """A valid literal came back null."""
    if v["k"] in ("date", "dt") and abs(v["y"]) < 1000:
        return "C14/year-below-1000-rejected"
    if v["k"] in ("time", "dt") and sut_zone_regex_rejects(v["z"]):
        return "C14/zone-id-charset-rejected"
    return "C14/valid-literal-rejected"


def sut_dtd_models(v):
    """|value| of a parsed days-and-time duration: exact, and with the fields above u64::MAX dropped (a known defect)"""
    f = v["fields"]
    kept = 0
    for x, unit in (("D", cal.NS_DAY), ("H", cal.NS_HOUR), ("M", cal.NS_MIN), ("S", cal.NS)):
        if f[x] is not None and int(f[x]) <= U64:
            kept += int(f[x]) * unit
    if f["frac"]:
        kept += int((f["frac"] + "000000000")[:9])
    return (abs(v["ns"]), kept)


def diagnose_accepted(kind, text, reason, got):
    """An invalid literal came back as a value `got` (json)."""
    k = jkind(got)
    if reason == "impossible calendar date" and k in ("date", "dt"):
        # day 00 with an otherwise valid date, printed back as written
        t = text[:text.index("T")] if "T" in text else text
        if t.endswith("-00") and cal.parse_date(t[:-2] + "01")[0] == "ok" and got[k].startswith(t):
            return "C14/day-00-accepted"
    if reason == "offset minutes/seconds above 59" and k in ("time", "dt"):
        return "C14/offset-minute-second-above-59-accepted"
    if reason == "T without time fields" and k == "dtd" and text.endswith("T"):
        r = cal.parse_dtd(text[:-1], with_fields=True)
        if r[0] == "ok" and cal.parse_dtd(got[k])[0] == "ok" and abs(cal.parse_dtd(got[k])[1]["ns"]) in sut_dtd_models(r[1]):
            return "C14/duration-trailing-T-accepted"
    if reason == "decimal point without digits" and k == "dtd" and ".S" in text:
        r = cal.parse_dtd(text.replace(".S", "S"), with_fields=True)
        if r[0] == "ok" and cal.parse_dtd(got[k])[0] == "ok" and abs(cal.parse_dtd(got[k])[1]["ns"]) in sut_dtd_models(r[1]):
            return "C14/duration-empty-fraction-accepted"
    return "C14/invalid-literal-accepted"


def diagnose_wrong_value(exp_v, got_v, text):
    """string(v) is a valid literal of the right kind but denotes `got_v` instead of `exp_v`."""
    k = exp_v["k"]
    if k in ("time", "dt"):
        rest_same = all(exp_v[x] == got_v[x] for x in exp_v if x not in ("z", "ns"))
        ze, zg = exp_v["z"], got_v["z"]
        sign_lost = bool(ze and zg and ze[0] == zg[0] == "off" and -3600 < ze[1] < 0 and zg[1] == -ze[1])
        float_loss = got_v["ns"] == exp_v["ns"] - 1
        if rest_same and (ze == zg or sign_lost) and (got_v["ns"] == exp_v["ns"] or float_loss):
            sigs = (["negative-subhour-offset-sign-lost"] if sign_lost else []) + (["fraction-binary-float-loss"] if float_loss else [])
            if sigs:
                return "C14/" + "+".join(sigs)
    if k == "dtd":
        f = exp_v.get("fields")
        if exp_v["ns"] % cal.NS and got_v["ns"] == exp_v["ns"] - (1 if exp_v["ns"] > 0 else -1):
            return "C14/fraction-binary-float-loss"
        if f and any(f[x] is not None and int(f[x]) > U64 for x in "DHMS"):
            kept = sut_dtd_models(exp_v)[1]          # fields above u64::MAX silently dropped, the rest kept
            if abs(got_v["ns"]) == kept and (got_v["ns"] < 0) == (exp_v["ns"] < 0 and kept > 0):
                return "C14/duration-field-above-u64-dropped"
            if f["frac"] and abs(got_v["ns"]) == kept - 1:
                return "C14/duration-field-above-u64-dropped+fraction-binary-float-loss"
    if k == "ymd":
        f = exp_v.get("fields")
        if f:
            # i64 wrap-around of years*12 + months, or a field above u64::MAX dropped
            y = int(f["Y"] or 0)
            m = int(f["M"] or 0)
            yy = y if y <= U64 else 0
            mm = m if m <= U64 else 0

            def wrap(x):
                x &= U64
                return x - 2 ** 64 if x >= 2 ** 63 else x
            tot = wrap(wrap(wrap(yy) * 12) + wrap(mm))
            if exp_v["mo"] < 0:
                tot = wrap(-tot)
            if tot == -2 ** 63 and got_v["mo"] == 0:
                tot = 0                  # i64::MIN: |x| overflows again when printing, the text says P0M
            if (y > U64 or m > U64 or abs(exp_v["mo"]) >= 2 ** 63) and got_v["mo"] == tot:
                return "C14/ym-duration-overflow-wraps"
    return "C14/wrong-value"


def diagnose_not_literal(kind, s, exp_v):
    """string(v) is not a valid literal of its kind."""
    if exp_v is not None and exp_v["k"] in ("date", "dt") and -999 <= exp_v["y"] <= -1:
        want = "-%03d-%02d-%02d" % (-exp_v["y"], exp_v["m"], exp_v["d"])
        if s.startswith(want) and (len(s) == len(want) or s[len(want)] == "T"):
            return "C14/negative-year-padding"
    return "C14/text-not-a-literal"


CHRONO_MIN_YEAR, CHRONO_MAX_YEAR = -262143, 262142       # chrono 0.4 NaiveDate range


def diagnose_readback(kind, s, parsed, w, eq):
    """string(v) is a valid literal but the SUT does not read it back as an equal value."""
    if parsed["k"] in ("date", "dt") and 0 < abs(parsed["y"]) < 1000 and is_null(w):
        return "C14/year-below-1000-rejected"
    outside_chrono = parsed["k"] == "dt" and not CHRONO_MIN_YEAR + 1 <= parsed["y"] <= CHRONO_MAX_YEAR - 1
    if parsed["k"] in ("time", "dt") and jkind(w) == parsed["k"] and (eq is False or (is_null(eq) and outside_chrono)):
        pw = cal.PARSERS[parsed["k"]](w[parsed["k"]])
        if pw[0] == "ok" and pw[1]["ns"] == parsed["ns"] - 1 and all(pw[1][x] == parsed[x] for x in parsed if x != "ns"):
            return "C14/fraction-binary-float-loss"
    if parsed["k"] == "dtd" and jkind(w) == "dtd" and eq is False:
        pw = cal.parse_dtd(w["dtd"])
        if pw[0] == "ok" and parsed["ns"] % cal.NS and pw[1]["ns"] == parsed["ns"] - (1 if parsed["ns"] > 0 else -1):
            return "C14/fraction-binary-float-loss"
    if parsed["k"] == "dtd" and jkind(w) == "dtd" and eq is False:
        r = cal.parse_dtd(s, with_fields=True)
        pw = cal.parse_dtd(w["dtd"])
        if r[0] == "ok" and pw[0] == "ok" and any(r[1]["fields"][x] is not None and int(r[1]["fields"][x]) > U64 for x in "DHMS") \
                and abs(pw[1]["ns"]) == sut_dtd_models(r[1])[1]:
            return "C14/duration-field-above-u64-dropped"
    if parsed["k"] == "dt" and jkind(w) == "dt" and w["dt"] == s and is_null(eq) and \
            not CHRONO_MIN_YEAR + 1 <= parsed["y"] <= CHRONO_MAX_YEAR - 1:
        return "C14/readback-equality-null-outside-chrono-range"
    return "C14/readback-differs"


# ------------------------------------------------------------------------------------------------
# the judge shared by all literal parts
# ------------------------------------------------------------------------------------------------

def check_components(kind, items, v, text):
    """items[5:] against the written value; returns a message or None."""
    names = PROPS[kind]
    got = dict(zip(names, items[5:5 + len(names)]))
    want = {}
    if v["k"] in ("date", "dt"):
        want.update(year=v["y"], month=v["m"], day=v["d"])
    if v["k"] in ("time", "dt"):
        want.update(hour=v["h"], minute=v["mi"], second=v["s"])
    if v["k"] == "ymd":
        n = v["mo"]
        a = abs(n)
        sg = -1 if n < 0 else 1
        want.update(years=sg * (a // 12), months=sg * (a % 12))
    for name, w in want.items():
        g = jnum(got.get(name))
        if g is None or g != w:
            return "property %s is %r, the literal says %s" % (name, got.get(name), w)
    if v["k"] in ("time", "dt"):
        z = v["z"]
        off, tz = got.get("time offset"), got.get("timezone")
        if z is None:
            if not is_null(off):
                return "time offset of a value without zone is %r" % (off,)
        elif z[0] == "off":
            if jkind(off) != "dtd" or cal.parse_dtd(off["dtd"])[0] != "ok" or cal.parse_dtd(off["dtd"])[1]["ns"] != z[1] * cal.NS:
                return "time offset is %r, the literal says %s" % (off, cal.fmt_offset(z[1], True))
        else:
            if not (isinstance(tz, dict) and tz.get("s") == z[1]):
                return "timezone is %r, the literal says %s" % (tz, z[1])
    return None


def judge_roundtrip(kind, items, exp_v, what):
    """v non-null: its text must be a valid literal denoting the same value, read back equal, idempotent text."""
    v, s, w, eq, sw = items[0], items[1], items[2], items[3], items[4]
    k = jkind(v)
    if not (isinstance(s, dict) and "s" in s):
        return Fail("C14/no-text", "%s: string(v) of %r is %r" % (what, v, s))
    st = s["s"]
    if st != v[k]:
        return Fail("C14/string-differs-from-display", "%s: string(v) = %r but the value displays as %r" % (what, st, v[k]))
    ps = cal.PARSERS[k](st)
    if ps[0] == "unspec":
        return None
    if ps[0] == "bad":
        return Fail(diagnose_not_literal(kind, st, exp_v), "%s: the text form %r is not a valid %s literal (%s)" % (what, st, k, ps[1]))
    if exp_v is None:
        msg = check_components(kind, items, ps[1], st)
        if msg:
            sig = "C14/text-disagrees-with-properties"
            z = ps[1].get("z")
            off = items[5 + PROPS[kind].index("time offset")] if "time offset" in PROPS[kind] else None
            if msg.startswith("time offset") and z and z[0] == "off" and 0 < z[1] < 3600 and jkind(off) == "dtd" \
                    and cal.parse_dtd(off["dtd"])[0] == "ok" and cal.parse_dtd(off["dtd"])[1]["ns"] == -z[1] * cal.NS:
                sig = "C14/negative-subhour-offset-sign-lost"
            return Fail(sig, "%s: the text form %r disagrees with the value's own properties: %s" % (what, st, msg))
    if exp_v is not None and not cal.same_value(ps[1], exp_v):
        return Fail(diagnose_wrong_value(exp_v, ps[1], st), "%s: the text form %r denotes %r, expected %r" % (
            what, st, ps[1], {x: y for x, y in exp_v.items() if x != "fields"}), stage="denotation")
    if k == "dtd" and not cal.dtd_is_normalised(st):
        return Fail("C14/duration-not-normalised", "%s: %r is not in normalised form" % (what, st))
    if k == "ymd" and not cal.ymd_is_normalised(st):
        return Fail("C14/duration-not-normalised", "%s: %r is not in normalised form" % (what, st))
    if k == "dt" and is_skipped_local_time(st) and not is_null(w) and eq is not False:
        pass        # a skipped local time: read back as a value; equal to itself or not comparable
    elif is_null(w) or eq is not True:
        return Fail(diagnose_readback(kind, st, ps[1], w, eq), "%s: the text form %r read back gives %r, equal to the original: %r" % (what, st, w, eq))
    if not (isinstance(sw, dict) and sw.get("s") == st):
        return Fail("C14/text-not-idempotent", "%s: %r reads back and prints as %r" % (what, st, sw))
    return None


def judge_literal(ctx, case, resp):
    kind, text, src = case["kind"], case["text"], case.get("src", "gen")
    parser = (lambda t: cal.parse_duration(t, with_fields=True)) if kind == "duration" else cal.PARSERS[kind]
    exp = parser(text)
    labels, nt = labels_of(kind, text, exp, src)
    what = '%s("%s")' % (CTOR[kind], text)
    items, problem, panic = eval_items(resp[0])
    ctx.note(key=[kind, text], nontrivial=nt, labels=labels,
             sample={"literal": what, "expected": exp[0] if exp[0] != "ok" else {x: y for x, y in exp[1].items() if x != "fields"},
                     "actual": None if items is None else items[0], "text": None if items is None else items[1]})
    for i, r in enumerate(resp):
        if isinstance(r, dict) and "panic" in r:
            return panic_fail(r, what if i == 0 else ('@"%s"' % text if i == 1 else "%s(%r)" % (XSD[kind], text)))
    if items is None:
        return Fail("C14/no-result", "%s: %s" % (what, problem))
    v = items[0]
    fails = []
    if exp[0] == "bad":
        if not is_null(v):
            fails.append(Fail(diagnose_accepted(kind, text, exp[1], v), "%s is not a valid literal (%s) but evaluates to %r" % (what, exp[1], v)))
    elif exp[0] == "ok":
        ev = exp[1]
        if is_null(v):
            if huge(exp):
                ctx.classes["huge-duration-null"] += 1
            else:
                fails.append(Fail(diagnose_rejected(kind, text, ev), "%s is a valid literal but evaluates to null (%r)" % (what, v)))
        elif jkind(v) != ev["k"]:
            fails.append(Fail("C14/wrong-kind", "%s evaluates to %r, expected a %s" % (what, v, ev["k"])))
        else:
            f = judge_roundtrip(kind, items, ev, what)
            if f:
                fails.append(f)
            msg = check_components(kind, items, ev, text)
            if msg and not (f and f.detail.get("stage") == "denotation" and ev["k"] in ("dtd", "ymd")):
                fails.append(Fail("C14/wrong-component", "%s: %s" % (what, msg)))
    else:
        if not is_null(v) and jkind(v):
            f = judge_roundtrip(kind, items, None, what)
            if f:
                fails.append(f)
    # the other two constructors must agree with the expectation as well
    f = judge_other(ctx, kind, text, exp, v, resp)
    if f:
        fails.append(f)
    return pick(ctx, case, fails)


def pick(ctx, case, fails):
    """Several checks of one case may fail: an unexplained failure wins; explained ones are all counted."""
    if not fails:
        return None
    chosen = None
    for f in fails:
        if f.sig not in ctx.open_sigs:
            chosen = f
            break
    chosen = chosen or fails[0]
    for f in fails:
        if f is not chosen and f.sig in ctx.open_sigs and f.sig != chosen.sig:
            ctx.excluded_known[f.sig] += 1
            if f.sig not in ctx.known_seen:
                ctx.known_seen[f.sig] = {"case": case, "message": f.msg}
            if hasattr(ctx, "dev_all"):
                ctx.dev_all(case, f)
    return chosen


def judge_other(ctx, kind, text, exp, v, resp):
    at = resp[1]
    av = at["values"][0] if isinstance(at, dict) and "values" in at else None
    if isinstance(at, dict) and "values" not in at and "parse_err" not in at:
        return Fail("C14/no-result", '@"%s": %r' % (text, at))
    ea = cal.parse_at(text)
    if ea[0] == "bad" and not is_null(av):
        sig = diagnose_accepted(kind, text, exp[1], av) if exp[0] == "bad" else "C14/invalid-literal-accepted"
        return Fail(sig, '@"%s" is not a valid literal but evaluates to %r' % (text, av))
    if ea[0] == "ok" and not huge(exp):
        if is_null(av):
            return Fail(diagnose_rejected(kind, text, ea[1]), '@"%s" is a valid literal but evaluates to %r' % (text, av))
        if exp[0] == "ok" and not is_null(v) and av != v:
            return Fail("C14/constructors-disagree", '@"%s" gives %r but %s("%s") gives %r' % (text, av, CTOR[kind], text, v))
    x = resp[2]
    xv = x.get("value") if isinstance(x, dict) else None
    if exp[0] == "bad" and xv is not None and not is_null(xv):
        return Fail(diagnose_accepted(kind, text, exp[1], xv), "%s(%r) is not a valid literal but gives %r" % (XSD[kind], text, xv))
    if exp[0] == "ok" and not huge(exp):
        if xv is None or is_null(xv):
            return Fail(diagnose_rejected(kind, text, exp[1]), "%s(%r) is a valid literal but gives %r" % (XSD[kind], text, x))
        if not is_null(v) and xv != v:
            return Fail("C14/constructors-disagree", "%s(%r) gives %r but %s gives %r" % (XSD[kind], text, xv, CTOR[kind], v))
    return None


# ------------------------------------------------------------------------------------------------
# values built without literals: their text must be a literal that reads back
# ------------------------------------------------------------------------------------------------

def judge_value(ctx, case, resp):
    kind, expr = case["kind"], case["expr"]
    expect = case.get("expect")          # parsed value model | "null" | None (only the round trip)
    items, problem, panic = eval_items(resp[0])
    labels = ["value", "value:" + case.get("how", "?")] + list(case.get("labels", []))
    ctx.note(key=["value", expr], nontrivial=bool(case.get("nt", True)), labels=labels,
             sample={"expression": expr, "expected": expect, "actual": None if items is None else items[0]})
    if panic:
        return panic_fail(panic, expr)
    if items is None:
        return Fail("C14/no-result", "%s: %s" % (expr, problem))
    v = items[0]
    if expect == "null":
        if not is_null(v):
            if case.get("how") == "time4" and jkind(v) == "time":
                return Fail("C14/time-offset-out-of-range-accepted", "%s must be null (offset outside -14:59:59..+14:59:59) but is %r, "
                            "whose text is not a valid literal" % (expr, v))
            return Fail("C14/value-should-be-null", "%s must be null but is %r" % (expr, v))
        return None
    if is_null(v):
        if expect is not None:
            sig = "C14/value-null"
            if case.get("inner"):
                r = cal.parse_dt(case["inner"])
                if r[0] == "ok" and diagnose_rejected("dt", case["inner"], r[1]) != "C14/valid-literal-rejected":
                    sig = diagnose_rejected("dt", case["inner"], r[1])
            return Fail(sig, "%s is %r, expected %r" % (expr, v, expect))
        return None
    if jkind(v) is None:
        return Fail("C14/wrong-kind", "%s is %r" % (expr, v))
    if expect is not None and jkind(v) != expect["k"]:
        return Fail("C14/wrong-kind", "%s is %r, expected a %s" % (expr, v, expect["k"]))
    f = judge_roundtrip(kind, items, expect, expr)
    if f and f.sig == "C14/wrong-value" and case.get("how") in ("dtd+dtd", "dt-dt") and jkind(v) == "dtd":
        got = cal.parse_dtd(v["dtd"])
        if got[0] == "ok" and 0 < abs(got[1]["ns"] - expect["ns"]) <= 2 and "." in expr:
            f.sig = "C14/fraction-binary-float-loss"       # an operand literal lost a nanosecond (at most one each)
    return f


# ------------------------------------------------------------------------------------------------
# generators (first choice = simplest)
# ------------------------------------------------------------------------------------------------

YEAR_EDGES = [1, 4, 99, 100, 999, 1000, 9999, 10000, 99999, 262142, 262143, 262144, 999999996, 999999999]


def gen_year(src):
    cls = src.weighted([(5, "common"), (2, "small"), (1, "edge"), (1, "wide")])
    if cls == "common":
        y = src.int(1000, 9999)
    elif cls == "small":
        y = src.int(1, 999)
    elif cls == "edge":
        y = src.choice(YEAR_EDGES)
    else:
        y = src.int(10000, cal.MAX_YEAR)
    if src.bool(0.25):
        y = -y
    return y


def gen_md(src, y):
    """(month, day, validity label): mostly valid, sometimes just outside"""
    m = src.int(1, 12)
    how = src.weighted([(12, "ok"), (2, "last"), (2, "last+1"), (1, "day0"), (1, "month0"), (1, "month13"), (1, "day32")])
    d = src.int(1, cal.dim(y, m))
    if how == "last":
        d = cal.dim(y, m)
    elif how == "last+1":
        d = cal.dim(y, m) + 1
    elif how == "day0":
        d = 0
    elif how == "month0":
        m = 0
    elif how == "month13":
        m = src.int(13, 99)
    elif how == "day32":
        d = src.int(32, 99)
    return m, d


def gen_date_text(src):
    y = gen_year(src)
    m, d = gen_md(src, y)
    t = cal.fmt_date(y, m, d)
    if src.bool(0.03):
        t = t.replace(cal.fmt_year(y), ("-" if y < 0 else "") + "0" + ("%04d" % abs(y)), 1)   # forbidden leading zero
    return t


def gen_fraction(src):
    n = src.weighted([(6, 0), (2, 9), (2, 3), (2, 6), (1, 1), (1, 2), (1, 4), (1, 5), (1, 7), (1, 8), (1, 10), (1, 12)])
    if n == 0:
        return ""
    how = src.weighted([(4, "random"), (2, "nines"), (2, "one-last"), (1, "zeros")])
    if how == "random":
        ds = src.digits(n)
    elif how == "nines":
        ds = "9" * n
    elif how == "one-last":
        ds = "0" * (n - 1) + "1"
    else:
        ds = "0" * n
    return "." + ds


def gen_offset_text(src):
    sign = "+" if not src.bool(0.5) else "-"
    hh = src.int(0, 14) if not src.bool(0.08) else src.int(15, 99)
    mm = src.weighted([(4, 0), (2, 30), (1, 45), (3, None)])
    if mm is None:
        mm = src.int(0, 59) if not src.bool(0.06) else src.int(60, 99)
    t = "%s%02d:%02d" % (sign, hh, mm)
    if src.bool(0.25):
        ss = src.int(0, 59) if not src.bool(0.08) else src.int(60, 99)
        t += ":%02d" % ss
    return t


def gen_hms(src, lo=0, hi=23):
    h = src.int(lo, hi)
    mi = src.int(0, 59)
    s = src.int(0, 59)
    how = src.weighted([(20, "ok"), (1, "h24"), (1, "h>24"), (1, "m60"), (1, "s60")])
    if how == "h24":
        h = 24
        if src.bool(0.5):
            mi = s = 0
    elif how == "h>24":
        h = src.int(25, 99)
    elif how == "m60":
        mi = src.int(60, 99)
    elif how == "s60":
        s = src.int(60, 99)
    return h, mi, s


def gen_time_text(src):
    z = src.weighted([(3, "local"), (2, "Z"), (5, "offset"), (2, "zone")])
    if z == "zone":
        name = src.choice(zones.both())
        h, mi, s = gen_hms(src, 4, 22)      # today's date decides the offset; stay away from typical transition hours
        return "%02d:%02d:%02d%s@%s" % (h, mi, s, gen_fraction(src), name)
    h, mi, s = gen_hms(src)
    t = "%02d:%02d:%02d%s" % (h, mi, s, gen_fraction(src))
    if z == "Z":
        t += "Z" if not src.bool(0.05) else "z"
    elif z == "offset":
        t += gen_offset_text(src)
    return t


# local times that the named zone skips (clocks go forward): valid literals that print back; they denote no instant, so nothing is said
# about comparing them (not even with themselves)
GAP_TEXTS = ["2021-03-28T02:30:00@Europe/Warsaw", "2021-03-14T02:30:00@America/New_York", "2019-10-06T02:30:00@Australia/Sydney",
             "2015-03-29T01:30:00@Europe/London", "2018-11-04T00:30:00@America/Sao_Paulo", "2010-03-28T02:00:00@Europe/Berlin"]


_SKIPPED = {}


def is_skipped_local_time(text):
    """a date and time with a named zone whose wall-clock time that zone skips (clocks go forward there), by the system's zone data;
    also texts that a corruption made of such a literal"""
    import datetime as _d
    import re as _re
    r = _SKIPPED.get(text)
    if r is not None:
        return r
    r = False
    m = _re.match(r"^(\d{4,9})-(\d\d)-(\d\d)T(\d\d):(\d\d):(\d\d)(?:\.\d+)?@([A-Za-z0-9_+\-/]+)$", text)
    if m:
        try:
            from zoneinfo import ZoneInfo
            z = ZoneInfo(m.group(7))
            y, mo, d, h, mi, sec = (int(m.group(i)) for i in range(1, 7))
            if y > 9999:
                y = 2400 + y % 400      # the calendar repeats every 400 years and the zone's last rule goes on for ever
            local = _d.datetime(y, mo, d, h, mi, sec)
            back = local.replace(tzinfo=z).astimezone(_d.timezone.utc).astimezone(z).replace(tzinfo=None)
            r = back != local
        except Exception:
            r = False
    if len(_SKIPPED) > 5000:
        _SKIPPED.clear()
    _SKIPPED[text] = r
    return r


def gen_dt_text(src):
    z = src.weighted([(3, "local"), (2, "Z"), (5, "offset"), (3, "zone")])
    if z == "zone":
        name = src.choice(zones.both())
        how = src.weighted([(6, "stable"), (3, "far-year"), (1, "gap")])
        if how == "far-year":
            # a named zone next to a year the zone rules say nothing about (also beyond the range of the date library the code under test
            # uses): still a valid literal that prints back; noon, so that no clock change is near whatever the rules are extended to
            y = gen_year(src)
            if 1800 <= abs(y) <= 2100:
                y += 3000 if y > 0 else -3000
            m, d = gen_md(src, y)
            return "%sT12:%02d:%02d%s@%s" % (cal.fmt_date(y, m, d), src.int(0, 59), src.int(0, 59), gen_fraction(src), name)
        if how == "gap":
            return src.choice(GAP_TEXTS)
        # local fields of an instant that is far from any offset change of the zone (1980..2020)
        t = zones.stable_instant(name, src.int(zones.T_1980, zones.T_2020 - 40 * 5 * 86400))
        y, m, d, h, mi, s, _ = cal.fields_from_instant(t * cal.NS, zones.offset_at(name, t))
        return "%sT%02d:%02d:%02d%s@%s" % (cal.fmt_date(y, m, d), h, mi, s, gen_fraction(src), name)
    date = gen_date_text(src)
    h, mi, s = gen_hms(src)
    t = "%sT%02d:%02d:%02d%s" % (date, h, mi, s, gen_fraction(src))
    if z == "Z":
        t += "Z" if not src.bool(0.05) else "z"
    elif z == "offset":
        t += gen_offset_text(src)
    return t


def gen_count(src, carry):
    """a non-negative field value as text: small, around the carry bound, or large"""
    how = src.weighted([(4, "small"), (3, "carry"), (2, "big"), (1, "zero"), (1, "padded"), (1, "huge")])
    if how == "small":
        return str(src.int(1, 9))
    if how == "carry":
        return str(max(0, carry * src.int(1, 3) + src.int(-1, 1)))
    if how == "big":
        return str(src.int(1, 9)) + src.digits(src.int(2, 17))
    if how == "zero":
        return "0"
    if how == "padded":
        return "0" * src.int(1, 3) + str(src.int(0, 99))
    return str(src.int(1, 9)) + src.digits(src.int(18, 24))


def gen_duration_text(src):
    neg = "-" if src.bool(0.3) else ""
    if src.bool(0.3):
        parts = ""
        which = src.weighted([(2, "YM"), (1, "Y"), (1, "M")])
        if "Y" in which:
            parts += gen_count(src, 1) + "Y"
        if "M" in which:
            parts += gen_count(src, 12) + "M"
        t = neg + "P" + parts
    else:
        d = gen_count(src, 1) + "D" if src.bool(0.6) else ""
        tp = ""
        if src.bool(0.6):
            tp += gen_count(src, 24) + "H"
        if src.bool(0.6):
            tp += gen_count(src, 60) + "M"
        if src.bool(0.6):
            tp += gen_count(src, 60) + gen_fraction(src) + "S"
        if not d and not tp:
            tp = "0S"
        t = neg + "P" + d + ("T" + tp if tp else "")
    bad = src.weighted([(30, None), (1, "trailingT"), (1, "emptyfrac"), (1, "nofields"), (1, "mixed"), (1, "order")])
    if bad == "trailingT" and "T" not in t:
        t += "T"
    elif bad == "emptyfrac" and t.endswith("S") and "." not in t:
        t = t[:-1] + ".S"
    elif bad == "nofields":
        t = neg + src.choice(["P", "PT"])
    elif bad == "mixed":
        t = neg + "P1Y2M3DT4H"
    elif bad == "order":
        t = neg + src.choice(["P1M1Y", "PT1S1M", "P1DT1M1H", "PT1H1D"])
    return t


def gen_literal(src):
    kind = src.choice(["date", "time", "dt", "duration"])
    text = {"date": gen_date_text, "time": gen_time_text, "dt": gen_dt_text, "duration": gen_duration_text}[kind](src)
    return {"kind": kind, "text": text, "src": "gen"}


def num(x):
    return str(x) if x >= 0 else "(%d)" % x


def gen_value(src):
    how = src.choice(["date3", "time3", "time4", "dt2", "dt-dt", "dtd+dtd", "ymdur", "extract"])
    if how == "date3":
        y = gen_year(src)
        m = src.int(1, 12)
        d = src.int(1, cal.dim(y, m))
        if src.bool(0.2):
            # one component just outside its range (or on its last valid value): month 0 / 13, day 0 / last + 1
            which = src.choice(["m0", "m13", "m-1", "d0", "d+1", "d-1", "dlast"])
            if which == "dlast":
                d = cal.dim(y, m)
            else:
                if which.startswith("m"):
                    m = {"m0": 0, "m13": 13, "m-1": -1}[which]
                else:
                    d = {"d0": 0, "d+1": cal.dim(y, m) + 1, "d-1": -1}[which]
                return {"kind": "date", "how": how, "expr": "date(%s, %s, %s)" % (num(y), num(m), num(d)), "expect": "null", "nt": True,
                        "labels": ["component-out-of-range:" + which]}
        return {"kind": "date", "how": how, "expr": "date(%s, %d, %d)" % (num(y), m, d),
                "expect": {"k": "date", "y": y, "m": m, "d": d}, "nt": not 1000 <= y <= 9999,
                "labels": ["year<0" if y < 0 else "year<1000" if y < 1000 else "year>=1000"]}
    if how in ("time3", "time4"):
        h, mi, s = src.int(0, 23), src.int(0, 59), src.int(0, 59)
        frac = gen_fraction(src)
        ns = int((frac[1:] + "000000000")[:9]) if frac else 0
        sec = "%d%s" % (s, frac)
        # a seconds argument finer than a nanosecond: whether it is cut or rounded is not C14's subject, so no value is expected; the text
        # of whatever time results must still be a valid literal that reads back equal
        beyond = len(frac) > 10
        if src.bool(0.12):
            # one component just outside its range: hour 24, minute / second 60, a negative one
            which = src.choice(["h24", "h-1", "mi60", "mi-1", "s60", "s-1", "s61"])
            hh, mm, ss = (24 if which == "h24" else -1 if which == "h-1" else h), (60 if which == "mi60" else -1 if which == "mi-1" else mi), \
                         ({"s60": "60", "s-1": "(-1)", "s61": "61"}.get(which, sec))
            tail = "" if how == "time3" else ', duration("PT1H")'
            return {"kind": "time", "how": how, "expr": "time(%s, %s, %s%s)" % (num(hh), num(mm), ss, tail), "expect": "null", "nt": True,
                    "labels": ["component-out-of-range:" + which]}
        if how == "time3":
            return {"kind": "time", "how": how, "expr": "time(%d, %d, %s)" % (h, mi, sec),
                    "expect": None if beyond else {"k": "time", "h": h, "mi": mi, "s": s, "ns": ns, "z": None}, "nt": bool(ns),
                    "labels": ["seconds-finer-than-nanoseconds"] if beyond else []}
        cls = src.weighted([(6, "in"), (2, "subhour"), (2, "out"), (1, "edge")])
        if cls == "in":
            off = src.int(-53999, 53999)
            if src.bool(0.6):
                off -= off % 60 if off >= 0 else -((-off) % 60)
        elif cls == "subhour":
            off = -src.int(1, 3599)
        elif cls == "edge":
            off = src.choice([53999, -53999, 50400, -50400, 0, 54000, -54000, 54001, -54001, 86400])
        else:
            off = src.choice([1, -1]) * src.int(54000, 10 ** 7)
        dur = cal.fmt_dtd(off * cal.NS)
        expect = ({"k": "time", "h": h, "mi": mi, "s": s, "ns": ns, "z": ["off", off]} if not beyond else None) if abs(off) <= 53999 else "null"
        return {"kind": "time", "how": how, "expr": 'time(%d, %d, %s, duration("%s"))' % (h, mi, sec, dur), "expect": expect,
                "labels": ["offset:" + cls] + (["seconds-finer-than-nanoseconds"] if beyond else []), "nt": True}
    if how == "dt2":
        y = gen_year(src)
        m = src.int(1, 12)
        d = src.int(1, cal.dim(y, m))
        h, mi, s = src.int(0, 23), src.int(0, 59), src.int(0, 59)
        off = src.choice([None, 0, 3600, -1800, 19800, -53999, 45296])
        z = None if off is None else ["off", off]
        tt = cal.fmt_time(h, mi, s, 0, None if off is None else (["Z"] if off == 0 else z))
        return {"kind": "dt", "how": how, "expr": 'date and time(date(%s, %d, %d), time("%s"))' % (num(y), m, d, tt),
                "expect": {"k": "dt", "y": y, "m": m, "d": d, "h": h, "mi": mi, "s": s, "ns": 0, "z": z}, "nt": True,
                "labels": ["year<0" if y < 0 else "year<1000" if y < 1000 else "year>=1000"]}
    if how == "dt-dt":
        def one():
            y = src.int(1900, 2100)
            m = src.int(1, 12)
            d = src.int(1, cal.dim(y, m))
            h, mi, s = src.int(0, 23), src.int(0, 59), src.int(0, 59)
            fr = gen_fraction(src)[:10]
            ns = int((fr[1:] + "000000000")[:9]) if fr else 0
            off = src.choice([0, 3600, -1800, 19800, -53999, 45296])
            text = "%sT%02d:%02d:%02d%s%s" % (cal.fmt_date(y, m, d), h, mi, s, fr, cal.fmt_offset(off))
            return text, cal.instant_ns(y, m, d, h, mi, s, ns, off)
        a, ta = one()
        b, tb = one()
        return {"kind": "duration", "how": how, "expr": 'date and time("%s") - date and time("%s")' % (a, b),
                "expect": {"k": "dtd", "ns": ta - tb}, "nt": True, "labels": ["negative" if ta < tb else "non-negative"]}
    if how == "dtd+dtd":
        def dur():
            n = src.weighted([(3, src.int(0, 10 ** 6) * cal.NS), (3, src.int(0, 10 ** 15)), (1, src.int(0, 10 ** 24))])
            return -n if src.bool(0.4) else n
        a, b = dur(), dur()
        return {"kind": "duration", "how": how, "expr": 'duration("%s") + duration("%s")' % (cal.fmt_dtd(a), cal.fmt_dtd(b)),
                "expect": {"k": "dtd", "ns": a + b}, "nt": True, "labels": ["negative" if a + b < 0 else "non-negative"]}
    if how == "ymdur":
        def dd():
            y = src.int(1000, 9999)
            m = src.int(1, 12)
            return (y, m, src.int(1, cal.dim(y, m)))
        a, b = dd(), dd()
        return {"kind": "duration", "how": how, "expect": None, "nt": True,
                "expr": 'years and months duration(date("%s"), date("%s"))' % (cal.fmt_date(*a), cal.fmt_date(*b))}
    y = gen_year(src)
    m = src.int(1, 12)
    d = src.int(1, cal.dim(y, m))
    h, mi, s = src.int(0, 23), src.int(0, 59), src.int(0, 59)
    fr = gen_fraction(src)[:10]
    ns = int((fr[1:] + "000000000")[:9]) if fr else 0
    off = src.choice([None, 0, 3600, -1800, 19800, -53999, 45296, -60])
    z = None if off is None else ["off", off]
    text = "%sT%02d:%02d:%02d%s%s" % (cal.fmt_date(y, m, d), h, mi, s, fr, "" if off is None else "Z" if off == 0 else cal.fmt_offset(off))
    which = src.choice(["date", "time"])
    expect = {"k": "date", "y": y, "m": m, "d": d} if which == "date" else {"k": "time", "h": h, "mi": mi, "s": s, "ns": ns, "z": z}
    return {"kind": which, "how": "extract-" + which, "expr": '%s(date and time("%s"))' % (which, text), "expect": expect, "nt": True,
            "inner": text, "labels": ["year<0" if y < 0 else "year<1000" if y < 1000 else "year>=1000"]}


# ------------------------------------------------------------------------------------------------
# enumerations
# ------------------------------------------------------------------------------------------------

def enum_offsets(ctx):
    """every whole-minute offset -14:59..+14:59 on a time and on a date-time, plus one with seconds each"""
    k = ctx.seed
    for mins in sorted(range(-899, 900), key=abs):
        for sign in ((1,) if mins else (1, -1)):           # +00:00 and -00:00
            secs = mins * 60
            txt = cal.fmt_offset(secs)
            if mins == 0 and sign < 0:
                txt = "-00:00"
            yield {"kind": "time", "text": "10:20:30" + txt, "src": "offsets"}
            yield {"kind": "dt", "text": "2021-06-15T23:59:59" + txt, "src": "offsets"}
            ss = 1 + (k + abs(mins) * 7) % 59
            full = cal.fmt_offset(secs + ss if mins >= 0 else secs - ss)
            if mins == 0 and sign < 0:
                full = "-00:00:%02d" % ss
            yield {"kind": "time", "text": "00:00:00.5" + full, "src": "offsets"}
    for txt in ("+14:59:59", "-14:59:59", "+15:00", "-15:00", "+14:60", "+14:00:60", "+24:00", "-99:00", "+00:00:00", "+1:00", "+01:0",
                "+0100", "+01", "+01:00:", "+01:00:0"):
        yield {"kind": "time", "text": "12:00:00" + txt, "src": "offsets"}
        yield {"kind": "dt", "text": "2021-06-15T12:00:00" + txt, "src": "offsets"}


def enum_zones(ctx):
    for i, name in enumerate(zones.both()):
        t = zones.stable_instant(name, zones.T_1980 + ((i * 7919 + ctx.seed * 104729) % 14600) * 86400 + 43200)
        y, m, d, h, mi, s, _ = cal.fields_from_instant(t * cal.NS, zones.offset_at(name, t))
        yield {"kind": "dt", "text": "%sT%02d:%02d:%02d@%s" % (cal.fmt_date(y, m, d), h, mi, s, name), "src": "zones"}
        yield {"kind": "time", "text": "12:34:56@%s" % name, "src": "zones"}
    for name in ("Nowhere/Land", "Europe", "Europe/", "/Warsaw", "Europe/Warsaw ", "Europe//Warsaw", "", "Z", "+01:00"):
        yield {"kind": "dt", "text": "2015-06-15T12:00:00@%s" % name, "src": "zones"}
        yield {"kind": "time", "text": "12:00:00@%s" % name, "src": "zones"}


# ---- zone twins: the instant a zoned literal denotes, written three ways ---------------------------------------------------------

def dt_text(t, off):
    y, m, d, h, mi, sec, _ = cal.fields_from_instant(t * cal.NS, off)
    return "%sT%02d:%02d:%02d" % (cal.fmt_date(y, m, d), h, mi, sec)


def gen_twins(src):
    """a date and time in a named zone (far from and within hours of a switch, never an ambiguous or skipped local time), the same
    instant in UTC and with the numeric offset: as literals they denote one instant, so they are equal in both operand orders, neither
    is before the other and their difference is zero"""
    if src.bool(0.6):
        name = src.choice(zones.NEAR_ZONES)
        t = zones.near_switch_instant(src, name)
        cls = "near-switch"
    else:
        name = src.choice(zones.CURATED)          # zones whose 1980-2020 rules are the same in the SUT's and the system's zone data
        t = zones.stable_instant(name, zones.T_1980 + src.int(0, 14600) * 86400 + src.int(0, 86399))
        cls = "stable"
    off = zones.offset_at(name, t)
    return {"zoned": dt_text(t, off) + "@" + name, "utc": dt_text(t, 0) + "Z", "offset": dt_text(t, off) + cal.fmt_offset(off), "cls": cls,
            "other": dt_text(t + src.choice([1, 60, 3600, -1, -3600]), 0) + "Z"}


def reqs_twins(case):
    return [{"op": "eval", "text": '{v: date and time("%s"), z: date and time("%s"), o: date and time("%s"), x: date and time("%s"), '
                                   'r: [v = z, z = v, v = o, o = v, v < z, z < v, v <= z, z >= v, string(v - z), string(z - v), v = x, x = v]}.r'
                                   % (case["zoned"], case["utc"], case["offset"], case["other"])}]


TWIN_EXPECT = [True, True, True, True, False, False, True, True, {"s": "PT0S"}, {"s": "PT0S"}, False, False]
TWIN_WHAT = ["v = z", "z = v", "v = o", "o = v", "v < z", "z < v", "v <= z", "z >= v", "string(v - z)", "string(z - v)", "v = x", "x = v"]


def judge_twins(ctx, case, resp):
    items, problem, panic = eval_items(resp[0])
    ctx.note(key=[case["zoned"], case["other"]], nontrivial=case["cls"] == "near-switch", labels=["twins", "twins:" + case["cls"]],
             sample={"zoned": case["zoned"], "utc": case["utc"], "offset": case["offset"], "answers": items})
    if panic:
        return panic_fail(panic, case["zoned"])
    if items is None:
        return Fail("C14/no-result", "%s: %s" % (case["zoned"], problem))
    bad = [(w, e, g) for w, e, g in zip(TWIN_WHAT, TWIN_EXPECT, items) if g != e]
    if bad:
        return Fail("C14/zoned-literal-is-not-the-instant-it-denotes",
                    'v = date and time("%s"), z = date and time("%s"), o = date and time("%s"), x = date and time("%s") denote: v, z, o one instant, '
                    "x another one; but %s" % (case["zoned"], case["utc"], case["offset"], case["other"],
                                               "; ".join("%s is %r (expected %r)" % (w, g, e) for w, e, g in bad)))
    return None


# ---- the process's own time zone: zone-less values take the local offset, so TZ is an input of their comparison --------------------------

LOCAL_ZONES = ["Europe/Warsaw", "America/New_York", "Australia/Lord_Howe", "America/St_Johns"]
_TZ_DRIVERS = {}


def enum_local_zone(ctx):
    """zone-less date and time / time literals at and around the skipped and the repeated hours of the zone the PROCESS runs in: the text of
    such a value still reads back as an equal value"""
    for zone in LOCAL_ZONES:
        sw = zones.switches(zone)
        for t in (sw if ctx.thorough() else sw[(ctx.seed % 3)::3][:8]):
            for off in (zones.offset_at(zone, t - 1), zones.offset_at(zone, t)):
                for minutes in (-61, -30, -1, 0, 1, 29, 30, 31, 59, 60, 90):
                    text = dt_text(t + minutes * 60, off)
                    yield {"kind": "dt", "text": text, "src": "local-zone", "tz": zone}
                    if minutes in (0, 30):
                        yield {"kind": "dt", "text": text + ".5", "src": "local-zone", "tz": zone}


def judge_local_zone(ctx, case, _resp):
    from ..engine import Driver
    d = _TZ_DRIVERS.get(case["tz"])
    if d is None:
        d = _TZ_DRIVERS[case["tz"]] = Driver("release", timeout=20.0, env={"TZ": case["tz"]})
        d.start()
    resp = [d.safe(r) for r in reqs_literal(case)]
    ctx.classes["local-zone:" + case["tz"]] += 1
    f = judge_literal(ctx, case, resp)
    if f is not None:
        f.msg = "[process time zone TZ=%s] %s" % (case["tz"], f.msg)
    return f


GRID_YEARS = [2020, 2021, 1900, 2000, 2100, 2400, 1000, 9999, 4, 100, 400, 999, -1, -4, -100, -400, 10000, 262143, 262144,
              999999996, 999999900, 999999999, -999999999, -999999996]


def enum_date_grid(ctx):
    for y in GRID_YEARS:
        for m in range(0, 14):
            for d in (list(range(0, 34)) if 1 <= m <= 12 else [0, 1, 31]):
                yield {"kind": "date", "text": cal.fmt_date(y, m, d), "src": "date-grid"}
                if d in (0, 1, 28, 29, 30, 31, 32) and y in (2020, 2021, 1900, 999, -4, 262144):
                    yield {"kind": "dt", "text": cal.fmt_date(y, m, d) + "T00:00:00Z", "src": "date-grid"}
    for y in (0, 1, 12, 123, 1234, 12345, 123456789, 1234567890):
        for sign in ("", "-"):
            for pad in (0, 1, 2):
                ys = str(y)
                for width in {len(ys), len(ys) + pad, 4}:
                    if width >= len(ys):
                        yield {"kind": "date", "text": "%s%s-06-15" % (sign, ys.rjust(width, "0")), "src": "date-grid"}


FRACTION_BASES = [("time", "23:59:59%s"), ("time", "00:00:00%sZ"), ("time", "12:00:00%s-00:01"), ("dt", "2020-02-29T23:59:59%s"),
                  ("dt", "1999-12-31T23:59:59%s+05:45"), ("duration", "PT0%sS"), ("duration", "-P1DT23H59M59%sS"), ("duration", "PT59%sS")]


def enum_fractions(ctx):
    rnd = random.Random("C14/%s/fractions" % ctx.seed)        # the same list in every worker: ctx.mine() partitions it
    per = ctx.scale(40, 3200)
    for n in range(0, 13):
        pats = []
        if n == 0:
            pats = [""]
        else:
            pats = ["9" * n, "0" * (n - 1) + "1", "0" * n, "1" + "0" * (n - 1), "5" * n, "123456789012"[:n], "987654321098"[:n]]
            for _ in range(per if n >= 7 else per // 4):
                pats.append("".join(rnd.choice("0123456789") for _ in range(n)))
        for p in pats:
            f = "." + p if n else ""
            for kind, base in FRACTION_BASES:
                yield {"kind": kind, "text": base % f, "src": "fractions"}


def enum_durations(ctx):
    for sign in ("", "-"):
        for D in (None, "0", "1", "400", "999999999"):
            for H in (None, "0", "1", "23", "24", "36"):
                for M in (None, "0", "59", "60", "90"):
                    for S in (None, "0", "59", "60", "86400"):
                        for fr in ((None,) if S is None else (None, "5", "000000001", "999999999")):
                            tp = ("%sH" % H if H else "") + ("%sM" % M if M else "") + ("%s%sS" % (S, "." + fr if fr else "") if S else "")
                            if D is None and not tp:
                                continue
                            yield {"kind": "duration", "text": "%sP%s%s" % (sign, "%sD" % D if D else "", "T" + tp if tp else ""), "src": "durations"}
        for Y in (None, "0", "1", "9999", "999999999"):
            for M in (None, "0", "1", "11", "12", "14", "25", "11999999999"):
                if Y is None and M is None:
                    continue
                yield {"kind": "duration", "text": "%sP%s%s" % (sign, "%sY" % Y if Y else "", "%sM" % M if M else ""), "src": "durations"}
        big = ["P%dD" % U64, "P%dD" % (U64 + 1), "PT%dH" % U64, "PT%dS" % U64, "PT%d.999999999S" % U64, "P%dDT1H" % (U64 + 1), "P1DT%dH" % (U64 + 1),
               "P%dDT%dH%dM%dS" % (U64, U64, U64, U64), "P99999999999999999999DT1H", "PT1H99999999999999999999M",
               "P%dY" % (2 ** 63 // 12), "P%dY" % (2 ** 63 // 12 + 1), "P%dM" % (2 ** 63 - 1), "P%dM" % 2 ** 63, "P%dY" % U64,
               "P%dY1M" % (U64 + 1), "P1Y%dM" % (U64 + 1), "P999999999999999999Y", "P1000000000Y", "P%dM" % (YM_SURE + 1)]
        for t in big:
            yield {"kind": "duration", "text": sign + t, "src": "durations-huge"}
    for t in ("P", "-P", "PT", "P1DT", "PT1.S", "PT.5S", "P1.5D", "PT1.5H", "P1Y2M3D", "P1YT1H", "P1M1Y", "PT1S1M", "P1H", "P1S", "T1H", "1D",
              "P-1D", "P1D-", "+P1D", "p1d", "P1d", "P 1D", "P1DT1H1M1S1", "PT0S", "P0D", "P0M", "P0Y", "-P0D", "-P0M", "-PT0.0S", "P00D",
              "P01Y02M", "PT0.000S", "PT1,5S"):
        yield {"kind": "duration", "text": t, "src": "durations"}


CORRUPT_SEEDS = [
    ("date", "2020-02-29"), ("date", "1999-12-31"), ("date", "-0044-03-15"), ("date", "0987-06-05"), ("date", "12345-01-01"),
    ("date", "2021-10-09"), ("date", "1000-10-10"), ("date", "999999999-12-31"),
    ("time", "00:00:00"), ("time", "23:59:59"), ("time", "10:20:30.5"), ("time", "10:20:30.123456789"), ("time", "12:00:00Z"),
    ("time", "12:00:00+01:00"), ("time", "12:00:00-00:30"), ("time", "01:02:03+14:59:59"), ("time", "09:09:09-14:00"),
    ("time", "12:00:00@Europe/Warsaw"), ("time", "12:00:00.25@Asia/Kolkata"), ("time", "19:59:00+05:45"),
    ("dt", "2020-02-29T00:00:00"), ("dt", "1999-12-31T23:59:59Z"), ("dt", "2015-06-15T12:00:00@Europe/Warsaw"),
    ("dt", "2011-11-11T11:11:11.111+11:11"), ("dt", "-0044-03-15T12:00:00-00:30"), ("dt", "0987-06-05T04:03:02.000000001Z"),
    ("dt", "2001-01-01T01:01:01@America/New_York"), ("dt", "12345-01-01T00:00:00+14:00"), ("dt", "2010-10-10T10:10:10-10:10:10"),
    ("dt", "2016-02-29T23:59:59.999999999@Etc/UTC"),
    ("duration", "P1D"), ("duration", "PT36H"), ("duration", "P1DT2H3M4S"), ("duration", "-P1DT2H3M4.5S"), ("duration", "PT0.000000001S"),
    ("duration", "P1Y2M"), ("duration", "-P14M"), ("duration", "P10Y"), ("duration", "PT90M"), ("duration", "P400DT25H61M61.25S"),
    ("duration", "PT1M"), ("duration", "P2M"),
]
REPLACEMENTS = "09:-+TZ.@P"
# decimal digits of other scripts (Arabic-Indic, fullwidth, Devanagari): `\\d` of the regex crate matches them, `[0-9]` does not
FOREIGN_DIGITS = "\u0665\uff15\u096b"


def corrupt_seeds(ctx):
    """~200 valid literals: the fixed list plus generated ones (deterministic per seed)"""
    from ..engine import Src
    out = list(CORRUPT_SEEDS)
    rnd = random.Random("C14/%s/corrupt-seeds" % ctx.seed)     # the same list in every worker: ctx.mine() partitions it
    tries = 0
    while len(out) < 200 and tries < 5000:
        tries += 1
        c = gen_literal(Src(random.Random(rnd.getrandbits(64))))
        parser = cal.parse_duration if c["kind"] == "duration" else cal.PARSERS[c["kind"]]
        if parser(c["text"])[0] == "ok" and len(c["text"]) <= 48 and (c["kind"], c["text"]) not in out:
            out.append((c["kind"], c["text"]))
    return out


def enum_corruptions(ctx):
    seeds = corrupt_seeds(ctx)
    if not ctx.thorough():
        # quick tier: the fixed list plus a rotating slice of the generated ones
        fixed, rest = seeds[:len(CORRUPT_SEEDS)], seeds[len(CORRUPT_SEEDS):]
        seeds = fixed + rest[:40]
    seen = set()
    for kind, text in seeds:
        yield {"kind": kind, "text": text, "src": "corrupt-seed"}
        for i in range(len(text)):
            cands = [("delete", text[:i] + text[i + 1:]), ("duplicate", text[:i] + text[i] + text[i:])]
            cands += [("replace", text[:i] + c + text[i + 1:]) for c in REPLACEMENTS if c != text[i]]
            if text[i] in "0123456789":
                cands += [("replace-foreign-digit", text[:i] + c + text[i + 1:]) for c in FOREIGN_DIGITS]
            for how, t in cands:
                if (kind, t) in seen or not quotable(t):
                    continue
                seen.add((kind, t))
                yield {"kind": kind, "text": t, "src": "corrupt-" + how}


# ------------------------------------------------------------------------------------------------

# ---- part: fractions of seconds written with more than nine digits ------------------------------------------------------------------
# Whether the tenth and further digits are cut off or rounded is not decided (so the main parts assert nothing about such literals),
# but nanosecond precision "without loss" leaves exactly these two readings: the value equals the literal cut after the ninth digit,
# or that one rounded on the tenth digit.

def gen_long_fraction(src):
    n = src.weighted([(3, None), (2, 19), (3, 20), (2, 21), (1, 30), (1, 10)])
    n = src.int(10, 28) if n is None else n
    first9 = src.weighted([(3, None), (1, "000000000"), (1, "999999998"), (1, "500000000")])
    first9 = "%09d" % src.int(0, 999999998) if first9 is None else first9       # never all nines: rounding does not carry into the seconds
    tail = src.weighted([(4, None), (2, "9" * (n - 9)), (1, "5" + "0" * (n - 10)), (1, "0" * (n - 9)), (1, "4" + "9" * (n - 10))])
    tail = src.digits(n - 9) if tail is None else tail
    kind = src.choice(["time", "dt", "dtd"])
    return {"kind": kind, "first9": first9, "tail": tail, "neg": kind == "dtd" and src.bool(0.3), "zone": src.choice(["", "Z", "+05:30", "@Europe/Paris"]) if kind != "dtd" else ""}


def _lf_texts(case):
    f9, tail = case["first9"], case["tail"]
    up = "%09d" % (int(f9) + 1)
    def lit(frac):
        frac = "." + frac if frac else ""
        if case["kind"] == "time":
            return 'time("10:20:30%s%s")' % (frac, case["zone"])
        if case["kind"] == "dt":
            return 'date and time("2021-03-04T10:20:30%s%s")' % (frac, case["zone"])
        return 'duration("%sP1DT2H3M4%sS")' % ("-" if case["neg"] else "", frac)
    return lit(f9 + tail), lit(f9), lit(up)


def reqs_long_fraction(case):
    v, cut, rounded = _lf_texts(case)
    return [{"op": "eval", "text": "{v: %s, r: [v = %s, v = %s, string(v), v = null]}.r" % (v, cut, rounded)}]


def judge_long_fraction(ctx, case, resp):
    r = resp[0]
    v, cut, rounded = _lf_texts(case)
    digits = 9 + len(case["tail"])
    ctx.note(key=["long-fraction", v], nontrivial=True, labels=["long-fraction", "long-fraction:" + case["kind"], "fraction-digits:%s" % ("10-18" if digits <= 18 else "19-20" if digits <= 20 else "21+")],
             sample={"literal": v, "answer": str(r.get("values"))[:160]})
    if "values" not in r:
        return Fail("C14/long-fraction-not-evaluated", "%s: %r" % (v, r))
    items = r["values"][0].get("l") if isinstance(r["values"][0], dict) else None
    if not items or len(items) != 4:
        return Fail("C14/long-fraction-not-evaluated", "%s: %r" % (v, r["values"][0]))
    if items[3] is True or (items[0] is not True and items[1] is not True):
        return Fail("C14/fraction-beyond-nine-digits-lost", "%s denotes neither %s (cut after the ninth digit) nor %s (rounded on the tenth): it prints as %r" % (
            v, cut, rounded, items[2]))
    return None


def setup(ctx):
    ctx.rule = ("cases: literal texts of dates, times, date-times and both duration kinds, each through the FEEL constructor, the @-literal and "
                "the xsd constructor (components, string(v), read-back equality and idempotent text in one expression), plus values built "
                "without literals (date/time from numbers, date-time subtraction, duration sums) whose text must read back; enumerated: every "
                "whole-minute offset -14:59..+14:59 (+ one with seconds each), every zone identifier known to tzdb 2022a and the system tzdata, "
                "a 12x34 month/day table over 24 years, 0..12 fraction digits, a duration field grid, single-character corruptions (delete, "
                "duplicate, replace by each of 0 9 : - + T Z . @ P, every digit also by a decimal digit of another script) of ~80 (quick) / 200 (thorough) valid literals. non-trivial: the literal has "
                "a fraction, a negative or non-whole-hour offset, a named zone, a year outside 1000..9999, a negative/fractional/unnormalised "
                "duration, is invalid by the reference grammar, or is a corruption at edit distance 1; distinct by (kind, text)")
    ctx.assumptions = [
        "reference grammar = XML Schema Part 2 lexical forms restricted as the property text says (no hour 24, offsets hh<=14 with optional :ss)",
        "zone identifiers: only those known to both tzdb 2022a (chrono-tz 0.6.3) and the system tzdata are required to be accepted",
        "labelled unspecified and not asserted: year 0000, years beyond +-999999999, time zone on a date, lower-case z, more than 9 fraction "
        "digits, date-only text given to date and time(), xs:duration mixing year-month and day-time fields, duration fields above 10^18 "
        "(exact or null accepted), the offset of a time of day in a named zone (depends on today's date)",
    ]
    ctx.p_offsets = ctx.register(Part("offsets", None, reqs_literal, judge_literal))
    ctx.p_zones = ctx.register(Part("zones", None, reqs_literal, judge_literal))
    ctx.p_grid = ctx.register(Part("date-grid", None, reqs_literal, judge_literal))
    ctx.p_frac = ctx.register(Part("fractions", None, reqs_literal, judge_literal))
    ctx.p_dur = ctx.register(Part("durations", None, reqs_literal, judge_literal))
    ctx.p_dur_checked = ctx.register(Part("durations-checked", None, reqs_literal, judge_literal, profile="checked"))
    ctx.p_corrupt = ctx.register(Part("corruptions", None, reqs_literal, judge_literal))
    ctx.p_longfrac = ctx.register(Part("long-fraction", gen_long_fraction, reqs_long_fraction, judge_long_fraction))
    ctx.p_lit = ctx.register(Part("literal", gen_literal, reqs_literal, judge_literal))
    ctx.p_val = ctx.register(Part("value", gen_value, reqs_value, judge_value))
    ctx.p_twins = ctx.register(Part("zone-twins", gen_twins, reqs_twins, judge_twins))
    ctx.p_local = ctx.register(Part("local-zone", None, lambda case: [], judge_local_zone))


def run(ctx):
    ctx.max_violations = 1
    ctx.enumerate(ctx.p_offsets, enum_offsets(ctx), name="every whole-minute UTC offset -14:59..+14:59 on time and date-time literals",
                  exhaustive=True)
    ctx.enumerate(ctx.p_zones, enum_zones(ctx), name="every zone identifier known to tzdb 2022a and the system tzdata", exhaustive=True)
    ctx.enumerate(ctx.p_grid, enum_date_grid(ctx), name="month 0..13 x day 0..33 over 24 years; year widths and paddings", exhaustive=True)
    ctx.enumerate(ctx.p_frac, enum_fractions(ctx), name="fraction digits 0..12 x patterns")
    ctx.enumerate(ctx.p_dur, enum_durations(ctx), name="duration field grid, carry boundaries, representable maximum", exhaustive=True)
    ctx.enumerate(ctx.p_dur_checked, (c for c in enum_durations(ctx) if c["src"] == "durations-huge"),
                  name="huge durations on the overflow-checked build", exhaustive=True)
    ctx.enumerate(ctx.p_corrupt, enum_corruptions(ctx), name="single-character corruptions of valid literals", exhaustive=ctx.thorough())
    ctx.forall(ctx.p_lit, ctx.scale(40000, 6400000))
    ctx.forall(ctx.p_val, ctx.scale(20000, 3200000))
    ctx.forall(ctx.p_twins, ctx.scale(8000, 600000))
    ctx.forall(ctx.p_longfrac, ctx.scale(6000, 600000))
    ctx.enumerate(ctx.p_local, enum_local_zone(ctx), batch=100, name="zone-less literals around the clock changes of the process's own time zone (TZ = 4 zones)",
                  exhaustive=ctx.thorough())
    for d in _TZ_DRIVERS.values():
        d.stop()
    _TZ_DRIVERS.clear()


if __name__ == "__main__":
    sys.exit(main(sys.modules[__name__]))
