"""C12 — loading any text as a DMN model and building its evaluator yields a usable model or an error, never a
panic, abort, stack overflow or hang; every invocable of a built model returns a value for any input.

Fault enumeration: every single structural fault (see oracles/xml_faults.py for the classes) at every position of
the models shipped with the repository and of generated models, sampled pairs of faults, byte-level corruption.
Each mutated text goes to the driver's `probe` op (parse -> ModelEvaluator::new -> evaluate_invocable for every
invocable name of the unmutated and of the mutated model, with the empty input, the file's typical input and a
wrong-typed variant of it)
on both builds.  The oracle is the validity predicate of the property: any answer (parse error, build error, values)
passes; a panic, a dead driver (abort / stack overflow; confirmed alone in a fresh driver) or a confirmed hang fails.
"""
import os
import re
import sys

from ..engine import Part, Fail, Driver, Src, Inconclusive, main, canon, h
from ..oracles import xml_faults as xf

PROP = "C12"
LEVEL = "fault_enumeration"
REPO = "/repo"
ZOO = os.path.join(os.path.dirname(os.path.dirname(os.path.abspath(__file__))), "oracles", "c12_zoo.dmn")

# ---- bases: shipped files and generated models -------------------------------------------------------------------

_FILES = None
_BASES = {}
_FAULTS = {}
_MUT = {}


def all_files():
    global _FILES
    if _FILES is None:
        out = []
        for root, dirs, files in os.walk(REPO):
            dirs[:] = sorted(d for d in dirs if d not in ("target", ".git"))
            for fn in sorted(files):
                if fn.endswith(".dmn"):
                    out.append(os.path.relpath(os.path.join(root, fn), REPO))
        _FILES = sorted(out)
    return _FILES


def base_key(base):
    return base["file"] if "file" in base else "gen:" + ",".join(map(str, base["gen"]))


def hostile(v):
    """The typical value bent out of shape: numbers <-> strings, booleans -> null, contexts wrapped in a list (with an
    extra entry), lists replaced by their first item; 'any input context' of the statement, beyond the well-typed one."""
    if isinstance(v, dict):
        if "n" in v:
            return {"s": v["n"]}
        if "s" in v:
            return {"n": "-1e-3"}
        if "l" in v:
            return hostile(v["l"][0]) if v["l"] else None
        if "c" in v:
            return {"l": [{"c": [[k, hostile(x)] for k, x in v["c"]] + [["extra entry", {"l": []}]]}, None]}
        return {"s": next(iter(v.values()))}     # temporal values as their text
    if isinstance(v, bool):
        return None
    return {"c": []}


def load_base(base):
    """-> (Doc, [typical input, hostile input], invocable names of the unmutated model)"""
    k = base_key(base)
    b = _BASES.get(k)
    if b is None:
        if "file" in base:
            with open(os.path.join(REPO, base["file"]), encoding="utf-8") as f:
                text = f.read()
        else:
            text = xf.gen_model(Src(prefix=list(base["gen"])))
        doc = xf.Doc(text)
        typical = doc.typical_input()
        b = (doc, [typical, [[k, hostile(v)] for k, v in typical]], doc.invocable_names())
        if len(_BASES) > 400:
            for kk in [x for x in _BASES if x.startswith("gen:")]:
                del _BASES[kk]
        _BASES[k] = b
    return b


def faults_of(base):
    k = base_key(base)
    f = _FAULTS.get(k)
    if f is None:
        doc = load_base(base)[0]
        fl = list(doc.faults())
        # group = the child of the root that contains the fault (for "near" pairs)
        groups = {}
        for i, x in enumerate(fl):
            groups.setdefault(doc.top_of(x), []).append(i)
        f = (fl, groups, {i: g for g, ii in groups.items() for i in ii})
        if len(_FAULTS) > 60:
            _FAULTS.clear()
        _FAULTS[k] = f
    return f


NEST_HEAD = '<definitions xmlns="https://www.omg.org/spec/DMN/20191111/MODEL/" namespace="n" name="m">'
NEST_KINDS = ("context", "itemComponent", "functionDefinition", "invocation", "unknown-element", "list-literal", "parentheses",
              # the same element nestings written with a prefix bound to another namespace (the loader finds children by local name)
              "context@ns", "itemComponent@ns", "functionDefinition@ns", "invocation@ns")
NEST_TAGS = {"context": ("context", "contextEntry"), "itemComponent": ("itemComponent",), "functionDefinition": ("functionDefinition",), "invocation": ("invocation",)}
# valid models whose only peculiarity is the size / shape of the requirement graph or of the item-definition reference graph:
# chains n long, and lattices of n layers x 4 elements in which every element requires (refers to) every element of the next layer
# (4^(n-1) paths over 4n elements: anything that walks paths instead of elements does not end)
GRAPH_KINDS = ("decision-chain", "bkm-chain", "itemdef-chain", "decision-lattice", "itemdef-lattice", "bkm-lattice")
LATTICE_WIDTH = 4


# ---- requirement cycles through every kind of edge, with logic that follows the cycle ----------------------------------------------
# node kinds: D decision, B business knowledge model, S decision service. Edges: D-info->D (information requirement), D/B-know->B/S
# (knowledge requirement, the logic invokes the required function), S-out/enc/in->D (output / encapsulated / input decision).
CYCLE_EDGES = {("D", "D"): ["info"], ("D", "B"): ["know"], ("D", "S"): ["know"], ("B", "B"): ["know"], ("B", "S"): ["know"],
               ("S", "D"): ["out", "enc", "in"]}


def cycle_specs(maxlen=3):
    """all cycles of 1..maxlen nodes over the node and edge kinds, as strings like 'D:know>S:in' (node:edge to the next node)"""
    import itertools
    out = []
    for n in range(1, maxlen + 1):
        for nodes in itertools.product("DBS", repeat=n):
            pairs = [(nodes[i], nodes[(i + 1) % n]) for i in range(n)]
            if not all(p in CYCLE_EDGES for p in pairs):
                continue
            for edges in itertools.product(*[CYCLE_EDGES[p] for p in pairs]):
                spec = ">".join("%s:%s" % (nodes[i], edges[i]) for i in range(n))
                rot = [">".join((spec.split(">") * 2)[k:k + n]) for k in range(n)]
                if spec == min(rot):
                    out.append(spec)
    return out


def cycle_model(spec):
    """the model of one cycle: node i is named e<i>; every element's logic mentions / invokes the next one; services that have no output
    decision on the cycle get the leaf decision `leaf` as output"""
    steps = [x.split(":") for x in spec.split(">")]
    n = len(steps)
    lit = "<literalExpression><text>%s</text></literalExpression>"
    els = ['<decision name="leaf" id="leaf"><variable name="leaf"/>' + lit % "1" + "</decision>"]
    for i, (kind, edge) in enumerate(steps):
        nxt, nkind = "e%d" % ((i + 1) % n), steps[(i + 1) % n][0]
        me = "e%d" % i
        # how this element's logic uses the next one: a required decision by its name; a function by a call (a service whose decision on the
        # cycle is an INPUT decision takes it as its parameter)
        call = nxt if edge == "info" else ("%s(0)" % nxt if nkind == "S" and steps[(i + 1) % n][1] == "in" else "%s()" % nxt)
        if kind == "D":
            req = ('<informationRequirement><requiredDecision href="#%s"/></informationRequirement>' % nxt if edge == "info" else
                   '<knowledgeRequirement><requiredKnowledge href="#%s"/></knowledgeRequirement>' % nxt)
            els.append('<decision name="%s" id="%s"><variable name="%s"/>%s%s</decision>' % (me, me, me, req, lit % ("if %s = 0 then 1 else 2" % call)))
        elif kind == "B":
            els.append('<businessKnowledgeModel name="%s" id="%s"><variable name="%s"/><knowledgeRequirement><requiredKnowledge href="#%s"/>'
                       '</knowledgeRequirement><encapsulatedLogic>%s</encapsulatedLogic></businessKnowledgeModel>' % (me, me, me, nxt, lit % call))
        else:
            tag = {"out": "outputDecision", "enc": "encapsulatedDecision", "in": "inputDecision"}[edge]
            parts = "" if edge == "out" else '<outputDecision href="#leaf"/>'
            els.append('<decisionService name="%s" id="%s"><variable name="%s"/>%s<%s href="#%s"/></decisionService>' % (me, me, me, parts, tag, nxt))
    return NEST_HEAD + "".join(els) + "</definitions>"


def nested_model(kind, n):
    """A valid model whose only peculiarity is the nesting depth n of one construct."""
    if kind.startswith("cycle:"):
        return cycle_model(kind[6:])
    dec = '<decision name="d" id="d"><variable name="d"%s/>%s</decision>'
    lit = "<literalExpression><text>%s</text></literalExpression>"
    if kind.endswith("@ns"):
        text = nested_model(kind[:-3], n)
        for tag in NEST_TAGS[kind[:-3]]:
            text = text.replace("<%s>" % tag, "<v:%s>" % tag).replace("<%s " % tag, "<v:%s " % tag).replace("</%s>" % tag, "</v:%s>" % tag)
        return text.replace("<definitions ", '<definitions xmlns:v="https://verif.example/other-namespace" ', 1)
    if kind == "context":
        body = dec % ("", "<context><contextEntry>" * n + lit % "1" + "</contextEntry></context>" * n)
    elif kind == "itemComponent":
        body = ('<itemDefinition name="t">' + '<itemComponent name="c">' * n + "<typeRef>string</typeRef>" + "</itemComponent>" * n +
                "</itemDefinition>" + dec % (' typeRef="t"', lit % "1"))
    elif kind == "functionDefinition":
        body = dec % ("", "<functionDefinition>" * n + lit % "1" + "</functionDefinition>" * n)
    elif kind == "invocation":
        body = dec % ("", "<invocation>" * n + lit % "1" + "</invocation>" * n)
    elif kind == "unknown-element":
        body = "<x>" * n + "</x>" * n + dec % ("", lit % "1")
    elif kind == "list-literal":
        body = dec % ("", lit % ("[" * n + "1" + "]" * n))
    elif kind == "parentheses":
        body = dec % ("", lit % ("(" * n + "1" + ")" * n))
    elif kind == "decision-chain":
        body = "".join('<decision name="d%d" id="d%d"><variable name="d%d"/>%s%s</decision>' % (
            i, i, i, '<informationRequirement><requiredDecision href="#d%d"/></informationRequirement>' % (i + 1) if i + 1 < n else "",
            lit % ("d%d + 1" % (i + 1) if i + 1 < n else "1")) for i in range(n))
    elif kind == "bkm-chain":
        body = "".join('<businessKnowledgeModel name="b%d" id="b%d"><variable name="b%d"/><encapsulatedLogic><formalParameter name="p"/>%s'
                       '</encapsulatedLogic>%s</businessKnowledgeModel>' % (
                           i, i, i, lit % ("b%d(p) + 1" % (i + 1) if i + 1 < n else "p"),
                           '<knowledgeRequirement><requiredKnowledge href="#b%d"/></knowledgeRequirement>' % (i + 1) if i + 1 < n else "")
                       for i in range(n))
        body += ('<decision name="d" id="d"><variable name="d"/><knowledgeRequirement><requiredKnowledge href="#b0"/></knowledgeRequirement>%s</decision>'
                 % (lit % "b0(1)"))
    elif kind == "itemdef-chain":
        body = "".join('<itemDefinition name="t%d"><typeRef>%s</typeRef></itemDefinition>' % (i, "t%d" % (i + 1) if i + 1 < n else "number")
                       for i in range(n)) + dec % (' typeRef="t0"', lit % "1")
    elif kind == "decision-lattice":
        w = LATTICE_WIDTH
        out = []
        for i in range(n):
            for j in range(w):
                req = "".join('<informationRequirement><requiredDecision href="#d%d_%d"/></informationRequirement>' % (i + 1, k) for k in range(w)) if i + 1 < n else ""
                text = " + ".join("d%d_%d" % (i + 1, k) for k in range(w)) if i + 1 < n else "1"
                out.append('<decision name="d%d_%d" id="d%d_%d"><variable name="d%d_%d"/>%s%s</decision>' % (i, j, i, j, i, j, req, lit % text))
        body = "".join(out)
    elif kind == "bkm-lattice":
        w = LATTICE_WIDTH
        out = []
        for i in range(n):
            for j in range(w):
                req = "".join('<knowledgeRequirement><requiredKnowledge href="#b%d_%d"/></knowledgeRequirement>' % (i + 1, k) for k in range(w)) if i + 1 < n else ""
                out.append('<businessKnowledgeModel name="b%d_%d" id="b%d_%d"><variable name="b%d_%d"/><encapsulatedLogic><formalParameter name="p"/>%s'
                           '</encapsulatedLogic>%s</businessKnowledgeModel>' % (i, j, i, j, i, j, lit % "p", req))
        body = "".join(out) + ('<decision name="d" id="d"><variable name="d"/><knowledgeRequirement><requiredKnowledge href="#b0_0"/></knowledgeRequirement>%s</decision>'
                               % (lit % "b0_0(1)"))
    elif kind.startswith("wide-table:"):
        # one decision table with n rules that all match (constant input 1, entries `-` or `1`), outputs 0..4 in a scrambled order of which
        # only 1, 2, 3 are listed as output values: every hit policy has to cope with many matches, ties and unlisted outputs
        hp = kind.split(":", 1)[1]
        hit, agg = {"U": ("UNIQUE", None), "A": ("ANY", None), "P": ("PRIORITY", None), "F": ("FIRST", None), "R": ("RULE ORDER", None),
                    "O": ("OUTPUT ORDER", None), "C": ("COLLECT", None), "C+": ("COLLECT", "SUM"), "C<": ("COLLECT", "MIN"),
                    "C>": ("COLLECT", "MAX"), "C#": ("COLLECT", "COUNT")}[hp]
        rules = "".join("<rule><inputEntry><text>%s</text></inputEntry><outputEntry><text>%d</text></outputEntry></rule>" % (
            "-" if i % 3 else "1", (i * 7 + i // 5) % 5) for i in range(n))
        table = ('<decisionTable hitPolicy="%s"%s><input><inputExpression typeRef="number"><text>1</text></inputExpression></input>'
                 '<output typeRef="number"><outputValues><text>1, 2, 3</text></outputValues></output>%s</decisionTable>' % (
                     hit, ' aggregation="%s"' % agg if agg else "", rules))
        body = '<decision name="d" id="d"><variable name="d"/>%s</decision>' % table
    elif kind.startswith("table-outputs:"):
        # one table with n output clauses; bit i of `named` gives clause i a name, bit i of `defaults` a default output entry; `match` of
        # its three rules match the constant input (0: the defaults decide)
        _, hp, named, defaults, match = kind.split(":")
        named, defaults, match = int(named), int(defaults), int(match)
        hit = {"U": "UNIQUE", "A": "ANY", "P": "PRIORITY", "F": "FIRST", "R": "RULE ORDER", "O": "OUTPUT ORDER", "C": "COLLECT"}[hp]
        outs = "".join('<output%s>%s</output>' % (' name="o%d"' % i if named >> i & 1 else "",
                                                   "<defaultOutputEntry><text>%d</text></defaultOutputEntry>" % (10 + i) if defaults >> i & 1 else "")
                       for i in range(n))
        rules = "".join("<rule><inputEntry><text>%s</text></inputEntry>%s</rule>" % (
            "1" if r < match else "2", "".join("<outputEntry><text>%d</text></outputEntry>" % (r + i) for i in range(n))) for r in range(3))
        table = ('<decisionTable hitPolicy="%s"><input><inputExpression typeRef="number"><text>1</text></inputExpression></input>%s%s</decisionTable>'
                 % (hit, outs, rules))
        body = '<decision name="d" id="d"><variable name="d"/>%s</decision>' % table
    elif kind == "itemdef-lattice":
        w = LATTICE_WIDTH
        out = []
        for i in range(n):
            for j in range(w):
                if i + 1 < n:
                    comps = "".join('<itemComponent name="c%d"><typeRef>t%d_%d</typeRef></itemComponent>' % (k, i + 1, k) for k in range(w))
                    out.append('<itemDefinition name="t%d_%d">%s</itemDefinition>' % (i, j, comps))
                else:
                    out.append('<itemDefinition name="t%d_%d"><typeRef>number</typeRef></itemDefinition>' % (i, j))
        body = "".join(out) + dec % (' typeRef="t0_0"', lit % "null")
    else:
        raise ValueError(kind)
    return NEST_HEAD + body + "</definitions>"


def _dec(body, extra=""):
    return '<decision name="d" id="d"><variable name="d"/>%s%s</decision>' % (extra, body)


_LIT1 = "<literalExpression><text>1</text></literalExpression>"
_END = "</definitions>"
# the hand-minimised inputs of findings/C12.md: re-judged by every run (a fixed finding that comes back is reported again)
MINIMAL = {
    "F1-fewer-input-entries": NEST_HEAD + _dec("<decisionTable><input><inputExpression><text>1</text></inputExpression></input><output/>"
                                               "<rule><outputEntry><text>1</text></outputEntry></rule></decisionTable>") + _END,
    "F2-fewer-output-entries": NEST_HEAD + _dec("<decisionTable><output/><rule/></decisionTable>") + _END,
    "F3-no-output": NEST_HEAD + _dec("<decisionTable><rule/></decisionTable>") + _END,
    "F3-no-output-rule-order": NEST_HEAD + _dec('<decisionTable hitPolicy="RULE ORDER"><rule/></decisionTable>') + _END,
    "F3-no-output-collect-sum": NEST_HEAD + _dec('<decisionTable hitPolicy="COLLECT" aggregation="SUM"><rule/></decisionTable>') + _END,
    "F3-no-output-collect-min": NEST_HEAD + _dec('<decisionTable hitPolicy="COLLECT" aggregation="MIN"><rule/></decisionTable>') + _END,
    "F3-no-output-collect-max": NEST_HEAD + _dec('<decisionTable hitPolicy="COLLECT" aggregation="MAX"><rule/></decisionTable>') + _END,
    "F3-no-output-collect-count": NEST_HEAD + _dec('<decisionTable hitPolicy="COLLECT" aggregation="COUNT"><rule/></decisionTable>') + _END,
    "F4-decision-requires-itself": NEST_HEAD + _dec(_LIT1, '<informationRequirement><requiredDecision href="#d"/></informationRequirement>') + _END,
    "F4-two-decisions": NEST_HEAD + '<decision name="a" id="a"><variable name="a"/><informationRequirement><requiredDecision href="#b"/>'
                        '</informationRequirement>' + _LIT1 + '</decision><decision name="b" id="b"><variable name="b"/><informationRequirement>'
                        '<requiredDecision href="#a"/></informationRequirement>' + _LIT1 + "</decision>" + _END,
    "F5-knowledge-model-requires-itself": NEST_HEAD + '<businessKnowledgeModel name="b" id="b"><variable name="b"/><knowledgeRequirement>'
                        '<requiredKnowledge href="#b"/></knowledgeRequirement><encapsulatedLogic>' + _LIT1 + "</encapsulatedLogic></businessKnowledgeModel>" + _END,
    "F5-at-build-time": NEST_HEAD + '<businessKnowledgeModel name="b" id="b"><variable name="b"/><knowledgeRequirement>'
                        '<requiredKnowledge href="#b"/></knowledgeRequirement><encapsulatedLogic>' + _LIT1 + "</encapsulatedLogic></businessKnowledgeModel>" +
                        _dec(_LIT1, '<knowledgeRequirement><requiredKnowledge href="#b"/></knowledgeRequirement>') + _END,
    "F6-service-cycle": NEST_HEAD + _dec("<literalExpression><text>s()</text></literalExpression>",
                                         '<knowledgeRequirement><requiredKnowledge href="#s"/></knowledgeRequirement>') +
                        '<decisionService name="s" id="s"><variable name="s"/><outputDecision href="#d"/></decisionService>' + _END,
    "F7-type-references-itself": NEST_HEAD + '<itemDefinition name="t"><typeRef>t</typeRef></itemDefinition>'
                        '<decision name="d" id="d"><variable name="d" typeRef="t"/>' + _LIT1 + "</decision>" + _END,
    "F7-at-evaluation": NEST_HEAD + '<itemDefinition name="t"><typeRef>t</typeRef></itemDefinition><inputData name="i" id="i">'
                        '<variable name="i" typeRef="t"/></inputData>' + _dec("<literalExpression><text>i</text></literalExpression>",
                        '<informationRequirement><requiredInput href="#i"/></informationRequirement>') + _END,
    "F7-through-component-and-collection": NEST_HEAD + '<itemDefinition name="t"><itemComponent name="c"><typeRef>u</typeRef></itemComponent></itemDefinition>'
                        '<itemDefinition name="u" isCollection="true"><typeRef>t</typeRef></itemDefinition>'
                        '<decision name="d" id="d"><variable name="d" typeRef="t"/>' + _LIT1 + "</decision>" + _END,
    "F8-recursive-knowledge-model": NEST_HEAD + '<businessKnowledgeModel name="f" id="f"><variable name="f"/><encapsulatedLogic>'
                        '<formalParameter name="n" typeRef="number"/><literalExpression><text>if n &lt; 2 then n else f(n - 1) + f(n - 2)</text>'
                        "</literalExpression></encapsulatedLogic></businessKnowledgeModel>" + _END,
    "F11-href-colon": NEST_HEAD + _dec(_LIT1, '<informationRequirement><requiredDecision href=":"/></informationRequirement>') + _END,
    "F11-href-colon-slash-slash": NEST_HEAD + _dec(_LIT1, '<informationRequirement><requiredInput href="://host/x#y"/></informationRequirement>') + _END,
}
SLOW_MINIMAL = ("F8-recursive-knowledge-model",)   # takes seconds to exhaust the stack: thorough tier only


def mutate(case):
    if "min" in case:
        return MINIMAL[case["min"]], 0
    if "nest" in case:
        return nested_model(case["nest"], case["depth"]), 0
    if "graph" in case:
        return nested_model(case["graph"], case["depth"]), 0
    k = canon(case)
    m = _MUT.get(k)
    if m is None:
        doc = load_base(case["base"])[0]
        if "bytes" in case:
            m = (xf.corrupt(doc.text, case["bytes"]), len(case["bytes"]))
        else:
            m = doc.apply(case["faults"])
        if len(_MUT) > 1500:
            _MUT.clear()
        _MUT[k] = m
    return m


def reqs_probe(case):
    if "min" in case:
        return [{"op": "probe", "xml": mutate(case)[0], "inputs": [[["i", {"n": "1"}], ["n", {"n": "5"}]]], "names": []}]
    if "nest" in case:
        return [{"op": "probe", "xml": mutate(case)[0], "inputs": [[["d", {"n": "1"}]], [["d", {"l": [None]}]]], "names": ["d"]}]
    if "graph" in case:
        # build_only: the model is loaded and its evaluator built, nothing is invoked; otherwise every invocable x (empty, one) input
        return [{"op": "probe", "xml": mutate(case)[0], "inputs": [[["p", {"n": "1"}]]], "names": [], "build_only": bool(case.get("build_only"))}]
    doc, typical, names = load_base(case["base"])
    return [{"op": "probe", "xml": mutate(case)[0], "inputs": typical, "names": names}]


# ---- diagnosis ----------------------------------------------------------------------------------------------------

_LOC = re.compile(r"(?:^|/)([A-Za-z0-9_.-]+/src/(?:(?!/src/)[^:])+:\d+)$")
BUILTIN = {"string", "number", "boolean", "date", "time", "dateTime", "dayTimeDuration", "yearMonthDuration"}


def location(loc):
    """'/repo/model-evaluator/src/builders/decision_table.rs:297' -> 'model-evaluator/src/builders/decision_table.rs:297'
    (independent of where the tree is checked out; registry crates keep '<crate>-<version>/src/...')."""
    m = _LOC.search(loc or "")
    return m.group(1) if m else (loc or "?")


_FN = re.compile(r"\bfn\s+([A-Za-z0-9_]+)")
_SRC = {}


def panic_site(loc):
    """Signature key of a panic location that survives unrelated edits of the file: '<crate path>:<enclosing fn>:<source
    line text>' read from the file the panic message names; '<crate path>:<line>' when the source cannot be read."""
    rel = location(loc)
    m = re.match(r"^(.*):(\d+)$", loc or "")
    if not m:
        return rel
    path, line = m.group(1), int(m.group(2))
    lines = _SRC.get(path)
    if lines is None:
        lines = []
        for cand in (path, os.path.join(REPO, path)):
            try:
                with open(cand, encoding="utf-8", errors="replace") as f:
                    lines = f.read().split("\n")
                break
            except OSError:
                continue
        _SRC[path] = lines
    if not (0 < line <= len(lines)):
        return rel
    text = " ".join(lines[line - 1].split())[:120]
    fn = "?"
    for k in range(line - 1, -1, -1):
        f = _FN.search(lines[k])
        if f:
            fn = f.group(1)
            break
    return "%s:%s:%s" % (rel.rsplit(":", 1)[0], fn, text)


def _sccs(graph):
    """Strongly connected components that contain a cycle (size > 1 or a self loop)."""
    index, low, on, stack, out, n = {}, {}, set(), [], [], [0]
    for root in sorted(graph):
        if root in index:
            continue
        work = [(root, iter(sorted(graph.get(root, ()))))]
        index[root] = low[root] = n[0]
        n[0] += 1
        stack.append(root)
        on.add(root)
        while work:
            v, it = work[-1]
            adv = False
            for w in it:
                if w not in graph:
                    continue
                if w not in index:
                    index[w] = low[w] = n[0]
                    n[0] += 1
                    stack.append(w)
                    on.add(w)
                    work.append((w, iter(sorted(graph.get(w, ())))))
                    adv = True
                    break
                if w in on:
                    low[v] = min(low[v], index[w])
            if adv:
                continue
            work.pop()
            if work:
                low[work[-1][0]] = min(low[work[-1][0]], low[v])
            if low[v] == index[v]:
                comp = []
                while True:
                    w = stack.pop()
                    on.discard(w)
                    comp.append(w)
                    if w == v:
                        break
                if len(comp) > 1 or v in graph.get(v, ()):
                    out.append(comp)
    return out


def cycle_kinds(xml):
    """Which kinds of cyclic requirement the (mutated) model text contains: the trigger sets of the stack-overflow
    findings.  Reads the text the way the loader does (first child of a name, href with or without '#')."""
    try:
        doc = xf.Doc(xml, lenient=True)
    except (xf.XmlError, RecursionError):
        return []
    if doc.root is None:
        return []

    def href(e):
        a = e.attr("href")
        if a is None:
            return None
        v = a.value
        return v[1:] if v.startswith("#") else v

    def first(e, name):
        for c in e.elements():
            if c.local() == name:
                return c
        return None

    kind_of, graph = {}, {}
    for e in doc.root.elements():
        k = e.local()
        if k in ("decision", "businessKnowledgeModel", "decisionService") and e.attr("id") is not None:
            kind_of.setdefault(e.attr("id").value, k)
    for e in doc.root.elements():
        k = e.local()
        if e.attr("id") is None or k not in ("decision", "businessKnowledgeModel", "decisionService"):
            continue
        i = e.attr("id").value
        edges = graph.setdefault(i, set())
        for c in e.elements():
            t = None
            if k == "decision" and c.local() == "informationRequirement":
                r = first(c, "requiredDecision")
                t = href(r) if r is not None else None
                if t is not None and kind_of.get(t) != "decision":
                    t = None
            elif k in ("decision", "businessKnowledgeModel") and c.local() == "knowledgeRequirement":
                r = first(c, "requiredKnowledge")
                t = href(r) if r is not None else None
                if t is not None and kind_of.get(t) not in ("businessKnowledgeModel", "decisionService"):
                    t = None
            elif k == "decisionService" and c.local() in ("outputDecision", "encapsulatedDecision", "inputDecision"):
                t = href(c)
                if t is not None and kind_of.get(t) != "decision":
                    t = None
            if t is not None:
                edges.add(t)
    kinds = set()
    for comp in _sccs(graph):
        ks = {kind_of[i] for i in comp}
        if "decisionService" in ks:
            kinds.add("decision-service-cycle")
        elif ks == {"decision"}:
            kinds.add("decision-cycle")
        elif ks == {"businessKnowledgeModel"}:
            kinds.add("knowledge-cycle")
        else:
            kinds.add("mixed-cycle")
    # item definitions: name -> names its typeRef or any nested component's typeRef mentions
    tgraph = {}
    for e in doc.root.elements():
        if e.local() != "itemDefinition" or e.attr("name") is None:
            continue
        refs = tgraph.setdefault(e.attr("name").value, set())
        todo = [e]
        while todo:
            x = todo.pop()
            t = doc.text_of(x, "typeRef")
            if t is not None and t.strip() not in BUILTIN:
                refs.add(t)
                refs.add(t.strip())
            todo.extend(c for c in x.elements() if c.local() == "itemComponent")
    if _sccs(tgraph):
        kinds.add("item-definition-cycle")
    return [k for k in ("item-definition-cycle", "knowledge-cycle", "decision-service-cycle", "decision-cycle", "mixed-cycle") if k in kinds]


def recursive_functions(xml):
    """Names of knowledge models whose body text calls (directly or through other knowledge models) itself: the trigger
    set of the user-level unbounded recursion finding (textual call graph: `name(` inside the encapsulated logic)."""
    try:
        doc = xf.Doc(xml, lenient=True)
    except (xf.XmlError, RecursionError):
        return []
    if doc.root is None:
        return []
    bodies = {}
    for e in doc.root.elements():
        if e.local() == "businessKnowledgeModel" and e.attr("name") is not None:
            logic = [c for c in e.elements() if c.local() == "encapsulatedLogic"]
            if logic:
                bodies.setdefault(e.attr("name").value, xf.unescape(doc.text[logic[0].start:logic[0].end]))
    graph = {}
    for n, body in bodies.items():
        graph[n] = {m for m in bodies if re.search(r"(?<![A-Za-z0-9_])" + re.escape(m) + r"\s*\(", body)}
    return sorted({n for comp in _sccs(graph) for n in comp})


def outcome(r):
    if "panic" in r:
        return "panic"
    if "died" in r:
        return "died"
    if "timeout" in r:
        return "timeout"
    if "parse_err" in r:
        return "parse-error(xml)" if "parsing model from XML failed" in r["parse_err"] else "parse-error(dmn)"
    if "build_err" in r:
        return "build-error"
    if r.get("built"):
        return "built"
    return "other"


def describe(case):
    if "min" in case:
        return "minimal model %s: %s" % (case["min"], MINIMAL[case["min"]])
    if "nest" in case:
        return "generated model with %s nested %d deep" % (case["nest"], case["depth"])
    if "graph" in case:
        return "generated valid model: %s of %d %s%s" % (case["graph"], case["depth"], "layers x %d" % LATTICE_WIDTH if "lattice" in case["graph"] else
                                                       "always-matching rules" if "table" in case["graph"] else "elements",
                                                       " (evaluator built, nothing invoked)" if case.get("build_only") else " (built, every invocable invoked)")
    doc = load_base(case["base"])[0]
    where = case["base"].get("file") or "generated model %s" % case["base"]["gen"]
    if "bytes" in case:
        return "%s, byte corruption %s" % (where, case["bytes"])
    return "%s: %s" % (where, "; ".join(doc.describe(f) for f in case["faults"]) or "unmutated")


def confirm_budget(d):
    """10x the request budget of the quick tier (20 s), also in the thorough tier whose request budget is 60 s."""
    return min(10 * d.timeout, 200.0)


def hang_signature(case):
    if case.get("nest") == "list-literal":
        return "C12/hang/nested-list"
    if "graph" in case:
        return "C12/exponential/%s/%s" % (case["graph"], "build" if case.get("build_only") else "invoke")
    return "C12/hang"


def judge_probe(ctx, case, resp, prof):
    r = resp[0]
    xml, applied = mutate(case)
    req = None
    hang_sig = hang_signature(case)
    hang_reported = hang_sig in ctx.known_seen or any(v["signature"] == hang_sig for v in ctx.violations)
    if "graph" in case and "lattice" in case["graph"] and ctx.is_known(hang_sig) and ("timeout" in r or r.get("died") == -6):
        # an open finding: time (and for item definitions memory: the driver's address space is limited) grows 4x per layer. Not
        # re-run with a 10x budget: one time-out (or the allocation failure) of the 24-layer model is the finding
        return Fail(hang_sig, "[%s] %s\n  %s" % (prof, describe(case), "no answer within %.0f s" % ctx.driver(prof).timeout if "timeout" in r
                                                  else "the process was ended by an allocation failure (16 GiB address space)"))
    if "timeout" in r and not hang_reported:
        # a time-out only counts after the request was re-run alone with a 10x budget (3 attempts); once a hang with the same
        # signature has been confirmed in this run, further time-outs are not re-confirmed (each confirmation costs 30x the budget)
        req = reqs_probe(case)[0]
        d = ctx.driver(prof)
        for _ in range(3):
            r2 = d.safe(req, timeout=confirm_budget(d))
            if "timeout" not in r2:
                ctx.extra["slow_not_hanging"] = ctx.extra.get("slow_not_hanging", 0) + 1
                r = r2
                break
    if "died" in r:
        # confirm alone in a fresh driver process
        req = req or reqs_probe(case)[0]
        fresh = Driver(prof, timeout=confirm_budget(ctx.driver(prof)))   # unbounded recursion can take a while to exhaust the stack
        try:
            fresh.start()
            r2 = fresh.safe(req)
        finally:
            fresh.stop()
        if "died" not in r2 and "timeout" not in r2:
            ctx.extra["unconfirmed_deaths"] = ctx.extra.get("unconfirmed_deaths", 0) + 1
        r = r2
    out = outcome(r)
    if "min" in case:
        labels = ["minimal"]
    elif "nest" in case:
        labels = ["nesting", "nesting:%s" % case["nest"], "depth:%d" % case["depth"]]
    elif "graph" in case:
        labels = ["graph-shape", "graph:%s/%s" % (case["graph"], "build" if case.get("build_only") else "invoke"), "graph-size:%d" % case["depth"]]
    elif "bytes" in case:
        labels = ["bytes", "bytes:" + "+".join(sorted({o[0] for o in case["bytes"]}))]
    else:
        cls = [xf.Doc.fault_class(f).split(":")[0] for f in case["faults"]]
        labels = ["unmutated" if not cls else "single" if len(cls) == 1 else "pair"] + sorted(set(cls))
        if applied < len(case["faults"]):
            labels.append("pair-overlap(outer-only)")
    labels.append("outcome:" + out)
    labels.append("base:" + ("generated" if "nest" in case or "graph" in case or "min" in case or "gen" in case["base"] else "file"))
    nontrivial = xf.well_formed(xml)
    labels.append("well-formed" if nontrivial else "not-xml")
    if prof == "release" and len(case.get("faults", ())) == 1:
        k = "enumerated/" + xf.Doc.fault_class(case["faults"][0]).split(":")[0]
        ctx.extra[k] = ctx.extra.get(k, 0) + 1
    sample = None
    if ctx.sample_slots.get(labels[0], 0) < 2 or out in ("panic", "died", "timeout"):
        sample = {"case": describe(case)[:300], "profile": prof, "outcome": out,
                  "answer": canon({k: v for k, v in r.items() if k != "results"})[:300]}
    key = h(case) if "nest" in case or "graph" in case or "min" in case else h([base_key(case["base"]), case.get("faults"), case.get("bytes")])
    ctx.note(key=key, nontrivial=nontrivial, labels=labels, sample=sample)
    fail = verdict(ctx, case, r, out, xml, prof)
    if fail is not None and fail.sig not in ctx.open_sigs and any(v["signature"] == fail.sig for v in ctx.violations):
        # one VIOLATION per crash site and run; further cases with the same signature are only counted
        k = "repeats/" + fail.sig
        ctx.extra[k] = ctx.extra.get(k, 0) + 1
        return None
    return fail


def verdict(ctx, case, r, out, xml, prof):
    if out == "panic":
        loc = location(r.get("location"))
        return Fail("C12/panic@" + panic_site(r.get("location")), "[%s] %s\n  panic at %s: %s" % (prof, describe(case), loc, str(r.get("panic"))[:300]),
                    location=r.get("location"), xml_len=len(xml))
    if out == "died":
        kinds = cycle_kinds(xml)
        code = r.get("died")
        if kinds and code in (-6, -11):
            return Fail("C12/stack-overflow/" + kinds[0], "[%s] %s\n  the process was killed by signal %s; the mutated model contains: %s" % (
                prof, describe(case), code, ", ".join(kinds)), died=code, cycles=kinds)
        if "graph" in case and code in (-6, -11) and "chain" in case["graph"] and case["depth"] >= 256:
            return Fail("C12/stack-overflow/long-%s" % case["graph"], "[%s] %s (%d characters)\n  the process was killed by signal %s" % (
                prof, describe(case), len(xml), code), died=code)
        if "nest" in case and code in (-6, -11) and case["depth"] >= 256:
            return Fail("C12/stack-overflow/deep-nesting", "[%s] %s (%d characters)\n  the process was killed by signal %s" % (
                prof, describe(case), len(xml), code), died=code)
        rec = recursive_functions(xml) if code in (-6, -11) else []
        if rec:
            return Fail("C12/stack-overflow/recursive-function", "[%s] %s\n  the process was killed by signal %s; no cyclic requirement, "
                        "but these knowledge models call themselves: %s" % (prof, describe(case), code, ", ".join(rec)), died=code, recursive=rec)
        return Fail("C12/abort", "[%s] %s\n  the process died (exit %s) and the mutated model contains no cyclic requirement" % (
            prof, describe(case), code), died=code)
    if out == "timeout":
        return Fail(hang_signature(case),
                    "[%s] %s\n  no answer within %.0f s, three times, running alone (or like an already confirmed hang of this run)" % (
                        prof, describe(case), confirm_budget(ctx.driver(prof))))
    if out == "other":
        raise Inconclusive("driver answered %r for %s" % (r, describe(case)))
    if out == "built":
        names = r.get("invocables") or []
        per = 2 if "min" in case or "graph" in case else 3
        if case.get("build_only"):
            per = 0
        if not isinstance(r.get("results"), list) or len(r["results"]) != per * len(names):
            return Fail("C12/no-value", "[%s] %s\n  %d invocables x (1 + given) inputs but %r results" % (
                prof, describe(case), len(names), len(r.get("results") or [])))
    return None


# ---- generators --------------------------------------------------------------------------------------------------

def pick_base(ctx, src):
    """A base from the current window (run() moves the window so that fault lists stay cached)."""
    w = ctx.window
    return w[src.int(0, len(w) - 1)]


def gen_pair(ctx):
    def gen(src):
        base = pick_base(ctx, src)
        doc = load_base(base)[0]
        fl, groups, group_of = faults_of(base)
        # the salt decorrelates the windows (the engine seeds a part's generator identically on every forall call)
        i = (src.int(0, len(fl) - 1) + ctx.salt) % len(fl)
        if src.bool(0.65):
            near = groups[group_of[i]]
            j = near[(src.int(0, len(near) - 1) + ctx.salt) % len(near)]
        else:
            j = (src.int(0, len(fl) - 1) + 3 * ctx.salt) % len(fl)
        for _ in range(6):
            if j != i and not doc.overlaps(fl[i], fl[j]):
                break
            j = (j + 1) % len(fl)
        return {"base": base, "faults": [fl[i], fl[j]]}
    return gen


def gen_bytes(ctx):
    def gen(src):
        base = pick_base(ctx, src)
        doc = load_base(base)[0]
        vals = doc.value_positions()
        ops = []
        for _ in range(src.weighted([(5, 1), (3, 2), (2, 3)])):
            if vals and src.bool(0.85):
                a, b = vals[src.int(0, len(vals) - 1)]
                pos = src.int(a, max(a, b - 1))
            else:
                pos = (src.int(0, len(doc.text)) + ctx.salt) % (len(doc.text) + 1)
            k = src.weighted([(4, "ins"), (3, "flip"), (2, "del"), (1, "dupspan"), (1, "trunc")])
            if k == "ins":
                ops.append([k, pos, src.int(0, len(xf.BYTE_TOKENS) - 1)])
            elif k == "flip":
                ops.append([k, pos, src.int(0, 7)])
            elif k == "trunc":
                ops.append([k, pos])
            else:
                ops.append([k, pos, src.weighted([(3, 1), (2, 4), (1, 40)])])
        return {"base": base, "bytes": ops}
    return gen


RISKY_OPS = ("href", "typeref-el", "el-rename")   # the classes that create cycles: known stack overflows kill the driver


def single_cases(base, stride=1, offset=0, risky=None):
    """risky=None: all faults; True/False: only the classes that can / cannot create a requirement cycle (they are sent
    in small batches because a dead driver makes the engine repeat the whole batch one by one)."""
    doc = load_base(base)[0]
    all_risky = bool(cycle_kinds(doc.text))
    for i, f in enumerate(doc.faults()):
        if stride == 1 or i % stride == offset:
            if risky is None or risky == (all_risky or f["op"] in RISKY_OPS):
                yield {"base": base, "faults": [f]}


def enumerate_singles(ctx, group, name, exhaustive):
    """group: [(base, stride, offset)]. One engine enumeration per name (the engine counts an enumeration as complete only
    if every worker reports it exactly once): the classes that cannot create a cycle in large batches, the retargeting
    classes (whose known stack overflows kill the driver) in small ones."""
    big = max(len(load_base(b)[0].text) for b, _, _ in group)
    ctx.enumerate(ctx.p_single, (c for b, st, off in group for c in single_cases(b, st, off, risky=False)),
                  batch=max(20, min(300, 8000000 // big)), name=name + " - classes that cannot create a requirement cycle", exhaustive=exhaustive)
    if not ctx.stop():
        ctx.enumerate(ctx.p_single, (c for b, st, off in group for c in single_cases(b, st, off, risky=True)),
                      batch=6, name=name + " - reference retargeting classes (href-*, typeref-el)", exhaustive=exhaustive)


def batch_for(base):
    n = len(load_base(base)[0].text)
    return max(20, min(400, 2500000 // max(1, n)))


# ---- plan -----------------------------------------------------------------------------------------------------------

def plan(ctx):
    """(files enumerated completely, [(file, stride, offset)] sampled) — quick: a rotating subset; thorough: all."""
    files = all_files()
    if ctx.thorough():
        return files, []
    counts = {f: sum(1 for _ in load_base({"file": f})[0].faults()) for f in files}
    # a model that aborts unmutated (N_0088.dmn, finding F7) aborts under nearly every fault: the quick tier keeps it in the
    # "unmutated" enumeration only, the thorough tier enumerates its faults as well
    cyclic = {f for f in files if cycle_kinds(load_base({"file": f})[0].text)}
    small = [f for f in files if counts[f] <= 6000 and f not in cyclic]
    big = [f for f in files if counts[f] > 6000 and f not in cyclic]
    want, budget = 25, 34000
    stride = max(1, len(small) // want)
    chosen, total = [], 0
    for i in range(len(small)):
        f = small[(ctx.seed * (1 + stride * want) + i * stride) % len(small)]
        if f not in chosen and total + counts[f] <= budget:
            chosen.append(f)
            total += counts[f]
        if len(chosen) >= want:
            break
    sampled = []
    for i in range(2):
        f = big[(ctx.seed * 2 + i) % len(big)]
        # at most ~900 faults and ~30 MB of request text per large model
        st = max(1, counts[f] // 900, counts[f] * os.path.getsize(os.path.join(REPO, f)) // 30000000)
        sampled.append((f, st, ctx.seed % st))
    return sorted(chosen), sampled


def graph_cases(ctx):
    for kind in ("decision-chain", "bkm-chain", "itemdef-chain"):
        for n in (16, 128, 1024):
            yield {"graph": kind, "depth": n}
    for kind in ("decision-lattice", "bkm-lattice", "itemdef-lattice"):
        yield {"graph": kind, "depth": 6}
    for n in (12, 24):
        yield {"graph": "decision-lattice", "depth": n, "build_only": True}
    for hp in ("U", "A", "P", "F", "R", "O", "C", "C+", "C<", "C>", "C#"):
        for n in (5, 20, 21, 22, 40, 64, 200):
            yield {"graph": "wide-table:" + hp, "depth": n}
    # output clauses: 1..4 of them, all named / the first one unnamed, a default output entry on every subset, with and without matching rules
    for hp in ("U", "F", "C", "P"):
        for k in (1, 2, 3, 4):
            for named in ((1 << k) - 1, (1 << k) - 2):
                for defaults in range(1 << k):
                    for match in (0, 2):
                        yield {"graph": "table-outputs:%s:%d:%d:%d" % (hp, named, defaults, match), "depth": k}
    # every requirement cycle of up to three elements, through every kind of edge, whose logic follows the cycle: refused when the
    # evaluator is built, or evaluated without exhausting the stack
    for spec in cycle_specs(3):
        yield {"graph": "cycle:" + spec, "depth": len(spec.split(">"))}
    if ctx.thorough():
        # open findings (exponential in the number of layers / recursion as deep as the chain): shown, not searched further
        yield {"graph": "decision-chain", "depth": 20000}
        yield {"graph": "decision-lattice", "depth": 24}
        yield {"graph": "bkm-lattice", "depth": 24, "build_only": True}
        yield {"graph": "itemdef-lattice", "depth": 24, "build_only": True}


def setup(ctx):
    ctx.rule = ("cases: the hand-minimised models of the findings, a nesting-depth grid, every shipped model unmutated, and: "
                "a shipped .dmn file or a generated model + one structural fault (every class of oracles/xml_faults.py at every "
                "position), a pair of faults, or 1-3 byte-level corruptions; each probed on both builds with the empty, the file's typical "
                "and a wrong-typed input for every invocable name of the unmutated and mutated model. oracle: any error or value passes; panic, process death "
                "(re-run alone in a fresh driver) or hang (re-run alone 3x with 10x budget) fails. non-trivial: the mutated text is still "
                "well-formed XML according to expat (the fault reached the DMN layer); distinct by (base, faults)")
    ctx.assumptions = ["expat's well-formedness verdict is used only for the non-triviality count, never for the verdict (roxmltree 0.14 "
                       "also accepts documents whose last elements are not closed: such truncated texts are counted as trivial although they load)",
                       "texts that are not valid UTF-8 cannot reach dmntk_model::parse(&str); corrupted bytes are decoded with U+FFFD",
                       "SIGABRT/SIGSEGV of the driver while the mutated model contains a cyclic requirement is attributed to that cycle"]
    ctx.p_single = ctx.register(Part("single", None, reqs_probe, judge_probe, profile="both"))
    ctx.p_min = ctx.register(Part("minimal", None, reqs_probe, judge_probe, profile="both"))
    ctx.p_nest = ctx.register(Part("nesting", None, reqs_probe, judge_probe, profile="both"))
    ctx.p_graph = ctx.register(Part("graph-shape", None, reqs_probe, judge_probe, profile="both"))
    ctx.p_pair = ctx.register(Part("pair", gen_pair(ctx), reqs_probe, judge_probe, profile="both"))
    ctx.p_bytes = ctx.register(Part("bytes", gen_bytes(ctx), reqs_probe, judge_probe, profile="both"))
    ctx.window = [{"gen": []}]   # replaced by run(); replay does not use it
    ctx.salt = 0
    ctx.max_violations = 8   # distinct crash sites are separate findings: do not stop at the first (repeats are folded)


def run(ctx):
    complete, sampled = plan(ctx)
    nfiles = len(all_files())
    # generated models: all single faults on each
    ngen = ctx.scale(5, 150)
    gens = []
    # every worker must see the same list: rng(tag) depends on the worker number, so derive from the seed only
    import random
    rnd = random.Random("C12/models/%s" % ctx.seed)
    for _ in range(ngen):
        s = Src(random.Random(rnd.getrandbits(64)))
        xf.gen_model(s)
        gens.append({"gen": list(s.choices)})
    gens.insert(0, {"gen": []})
    enumerate_singles(ctx, [(b, 1, 0) for b in gens], "all single structural faults of %d generated models" % len(gens), True)
    if ctx.stop():
        return
    # a hand-written model holding every item-definition variant (simple with allowed values, collection of simple / referenced /
    # component type with nested collections of components, referenced, component) used by inputs, decision variables and BKM
    # parameters, next to every kind of requirement: all its single faults are enumerated in every run, so that e.g. every
    # typeRef -> ancestor retargeting of every variant is covered whatever subset of shipped files the seed selects
    enumerate_singles(ctx, [({"file": ZOO}, 1, 0)], "all single structural faults of the item-definition / requirement zoo model", True)
    if ctx.stop():
        return
    # compound class "duplicate a top-level element and retarget a reference in ONE copy" (two elements, one id, different references),
    # complete for the zoo model and the generated models, every run
    dm_bases = [{"file": ZOO}] + gens
    ctx.enumerate(ctx.p_single, ({"base": b, "faults": [f]} for b in dm_bases for f in load_base(b)[0].dup_mut_faults()), batch=6,
                  name="duplicate + diverging reference: every top-level element with an id x every reference fault in one copy (zoo + generated models)",
                  exhaustive=True)
    if ctx.stop():
        return
    # compound class "one child deleted, a sibling of another kind duplicated" (the count of children is kept, the counts per kind are not)
    sp_bases = dm_bases + [{"file": f} for f in (all_files() if ctx.thorough() else sorted(complete)[:ctx.scale(12, 12)])]
    ctx.enumerate(ctx.p_single, ({"base": b, "faults": fs} for b in sp_bases for fs in load_base(b)[0].sibling_pairs()), batch=40,
                  name="compensating sibling pairs: a child deleted + a sibling of another tag duplicated, under every parent (zoo, generated models, %s shipped models)"
                  % ("all" if ctx.thorough() else "12"), exhaustive=True)
    if ctx.stop():
        return
    ctx.enumerate(ctx.p_min, ({"min": k} for k in MINIMAL if ctx.thorough() or k not in SLOW_MINIMAL), batch=1,
                  name="hand-minimised models of findings/C12.md", exhaustive=True)
    if ctx.stop():
        return
    # nesting depth grid (valid models)
    depths = {k: [16, 128, 1024, 4096] + ([20000] if ctx.thorough() else []) for k in NEST_KINDS}
    depths["list-literal"] = [4, 8, 16, 20, 48, 200]   # 48 and 200: regression cases of finding F10 (fixed by 26ec129 in /repo)
    ctx.enumerate(ctx.p_nest, ({"nest": k, "depth": n} for n in sorted({n for v in depths.values() for n in v}) for k in NEST_KINDS if n in depths[k]),
                  batch=1, name="nesting depth grid: %s x depths" % "/".join(NEST_KINDS), exhaustive=True)
    if ctx.stop():
        return
    # requirement / reference graph shapes (valid models): chains and lattices. Lattices of 24 layers have 4^23 paths over 96 elements:
    # loading and building must not depend on the number of paths. (Invoking does, see findings: the evaluator has no per-invocation
    # memo; the deep lattices are therefore only built, the invoked ones are 6 layers deep.)
    ctx.enumerate(ctx.p_graph, graph_cases(ctx), batch=1, name="requirement-graph shapes: chains x lengths, lattices x layers (built / invoked)",
                  exhaustive=True)
    if ctx.stop():
        return
    # every shipped model as it is (a model that is shipped and cannot be loaded without a crash is a finding of its own)
    ctx.enumerate(ctx.p_single, ({"base": {"file": f}, "faults": []} for f in all_files()), batch=10,
                  name="all %d shipped models unmutated" % nfiles, exhaustive=True)
    if ctx.stop():
        return
    complete.sort(key=lambda f: (os.path.getsize(os.path.join(REPO, f)), f))
    name = ("all single structural faults of all %d shipped models" % nfiles if ctx.thorough()
            else "all single structural faults of %d of %d shipped models (subset rotates with the seed)" % (len(complete), nfiles))
    enumerate_singles(ctx, [({"file": f}, 1, 0) for f in complete], name, ctx.thorough())
    if ctx.stop():
        return
    if sampled:
        enumerate_singles(ctx, [({"file": f}, st, off) for f, st, off in sampled],
                          "every k-th single fault of large shipped models (quick tier only)", False)
        if ctx.stop():
            return
    if ctx.w == 0:
        ctx.extra["files_enumerated_completely"] = len(complete)
        ctx.extra["files_total"] = nfiles
        ctx.extra["generated_models_enumerated_completely"] = len(gens)
        ctx.extra["fault_classes_enumerated_completely_per_file"] = [
            "el-delete", "el-dup", "el-empty", "el-swap", "at-delete", "at-empty", "at-copy", "at-dict", "at-add", "tx-delete", "tx-dict",
            "href-missing", "href-self", "href-ancestor", "href-kind", "href-swap-kind", "typeref-el", "typeref-at"]
        ctx.extra["files_complete"] = complete if not ctx.thorough() else "all"
    # pairs of faults and byte-level corruption: windows of bases (files <= 40 KB and generated models) so that the fault
    # lists of a window stay cached; quick = one window (the files enumerated above + the generated models)
    if ctx.thorough():
        files = [{"file": f} for f in all_files() if os.path.getsize(os.path.join(REPO, f)) <= 40000]
        rnd.shuffle(files)
        step = 12
        windows = [files[i:i + step] + gens[(i // step) * 8 % len(gens):][:8] for i in range(0, len(files), step)]
    else:
        windows = [[{"file": f} for f in complete] + gens]
    n_pairs, n_bytes = ctx.scale(8000, 2000000), ctx.scale(3000, 400000)
    for k, w in enumerate(windows):
        ctx.window, ctx.salt = w, 7919 * k
        _FAULTS.clear()
        ctx.forall(ctx.p_pair, n_pairs // len(windows), batch=40)
        if ctx.stop():
            return
        ctx.forall(ctx.p_bytes, n_bytes // len(windows), batch=100)
        if ctx.stop():
            return
    if ctx.thorough() and ctx.w == 0:
        fuzz_phase(ctx)
    if ctx.extra.get("unconfirmed_deaths"):
        raise Inconclusive("%d driver deaths could not be reproduced alone in a fresh driver" % ctx.extra["unconfirmed_deaths"])


def fuzz_phase(ctx):
    """coverage-guided campaign on the model_any target seeded with all shipped models; every crashing input is re-judged through the
    driver probe on both builds, so that signatures, confirmation of deaths/hangs and known findings are those of the other parts;
    the saved libFuzzer input is the replay file"""
    import hashlib
    from .. import fuzzrun
    if not fuzzrun.build(ctx.log):
        ctx.extra["fuzz"] = {"skipped": "fuzz targets could not be built (tooling), no verdict from this phase"}
        return
    all_stats = []
    for variant, globs in (("seeded", [os.path.join(REPO, "**", "*.dmn")]), ("empty-corpus", [])):
        stats, crashes = fuzzrun.campaign(ctx, "model_any", PROP, globs, runs=ctx.scale(50000, 3000000) if variant == "seeded" else ctx.scale(20000, 500000),
                                          max_len=60000, timeout_s=3 * 3600)
        stats["variant"] = variant
        all_stats.append(stats)
        for c in crashes:
            try:
                text = c["data"].decode("utf-8")
            except UnicodeDecodeError:
                continue
            key = "fuzz:" + hashlib.sha1(c["data"]).hexdigest()[:12]
            MINIMAL[key] = text
            f, resp = ctx.run_case(ctx.p_min, {"min": key})
            if f is None:
                ctx.classes["fuzz: artifact not reproduced through the driver (%s)" % c["kind"]] += 1
            elif ctx.is_known(f.sig):
                ctx.report(ctx.p_min.name, {"min": key}, f)
            else:
                ctx.violations.append({"part": "fuzz:model_any", "signature": f.sig, "message": f.msg, "replay": c["path"]})
                print("VIOLATION property=%s replay=%s" % (PROP, c["path"]), flush=True)
                print("  fuzz target model_any: %s" % f.msg[:1500], flush=True)
                continue
            try:
                os.remove(c["path"])
            except OSError:
                pass
    ctx.extra["fuzz"] = all_stats


if __name__ == "__main__":
    sys.exit(main(sys.modules[__name__]))
