"""C08 — built-in functions return the value DMN 1.3 section 10.3.4 defines, null outside the domain, named == positional.

One Part per function (`f/<name>`): argument tuples generated over the whole parameter space of the property's quantifier,
each evaluated as `f(a1, .., ak)` and, where tables 72-76 give parameter names, as `f(pK: aK, .., p1: a1)` in shuffled
order.  Arguments travel both as FEEL literals in the text and as typed bindings of single-word names in the scope.
The oracle is pbt/oracles/bifs_ref.py (independent reference over Python values); tuples on which the DMN text is not
decisive are generated, labelled `unspecified:<class>` and only checked for totality and named == positional.
Enumerated parts: `grid` (every position x length for n <= 4, both builds), `extremes` (huge / fractional / foreign
positions), `arity` (every arity 0..max+2 per function).
"""
import json
import os
import re
import sys
from decimal import Decimal

from ..engine import Part, Fail, main
from ..oracles import bifs_ref as ref

PROP = "C08"

NAMES = ["va", "vb", "vc", "vd", "ve", "vf", "vg", "vh", "vj", "vk", "vm", "vn"]
PLAIN = re.compile(r"^-?[0-9]+(\.[0-9]+)?$")

# ------------------------------------------------------------------------------------------------------------
# values: case encoding (= driver wire format, plus {"fn": op}) <-> oracle values <-> FEEL text
# ------------------------------------------------------------------------------------------------------------

LAMBDAS = {"<": "function(a, b) a < b", ">": "function(a, b) a > b", "<=": "function(a, b) a <= b",
           "const": "function(a, b) true", "one": "function(a) true"}


def N(x):
    return {"n": str(x)}


def S(x):
    return {"s": x}


def L(*xs):
    return {"l": list(xs)}


def to_py(w):
    if w is None or isinstance(w, bool):
        return w
    if "n" in w:
        return Decimal(w["n"])
    if "s" in w:
        return w["s"]
    if "l" in w:
        return [to_py(x) for x in w["l"]]
    if "c" in w:
        return {k: to_py(v) for k, v in w["c"]}
    if "fn" in w:
        return ref.Lambda(w["fn"] if w["fn"] in ("<", ">") else "other")
    raise ValueError(w)


SAFE_NAME = re.compile(r"^[a-z][a-z0-9]*$")


def lit_string(s):
    out = ['"']
    for ch in s:
        o = ord(ch)
        if ch == '"':
            out.append('\\"')
        elif ch == "\\":
            out.append("\\\\")
        elif ch == "\n":
            out.append("\\n")
        elif ch == "\t":
            out.append("\\t")
        elif ch == "\r":
            out.append("\\r")
        elif o < 0x20 or o in (0x85, 0x2028, 0x2029, 0x7F):
            return None
        else:
            out.append(ch)
    out.append('"')
    return "".join(out)


# a null is written as the literal or as an expression that *computes* a null (such nulls carry a trace message inside the SUT;
# FEEL has one null, so every built-in must treat them alike); the form rotates with a per-case counter
NULL_FORMS = ["null", "null", "(1/0)", '("a" + 1)', "({q: 1}.zz)", "([][1])"]
NULL_TRACES = [None, None, "division by zero", "some trace", "no entry"]
_NULLS = [0, 0]   # [rotation start of the current case, nulls written so far]


def to_lit(w):
    """FEEL literal text of the value, or None when it has no safe literal form (then it is always bound)."""
    if w is None:
        _NULLS[1] += 1
        return NULL_FORMS[(_NULLS[0] + _NULLS[1]) % len(NULL_FORMS)]
    if isinstance(w, bool):
        return "true" if w else "false"
    if "n" in w:
        t = w["n"]
        return t if PLAIN.match(t) and len(t) < 60 else None
    if "s" in w:
        return lit_string(w["s"])
    if "l" in w:
        parts = [to_lit(x) for x in w["l"]]
        return None if any(p is None for p in parts) else "[" + ", ".join(parts) + "]"
    if "c" in w:
        parts = []
        for k, v in w["c"]:
            t = to_lit(v)
            if t is None:
                return None
            ks = k if SAFE_NAME.match(k) else lit_string(k)
            if ks is None:
                return None
            parts.append("%s: %s" % (ks, t))
        return "{" + ", ".join(parts) + "}"
    if "fn" in w:
        return LAMBDAS[w["fn"]]
    raise ValueError(w)


def to_bind(w):
    if w is None:
        _NULLS[1] += 1
        t = NULL_TRACES[(_NULLS[0] + _NULLS[1]) % len(NULL_TRACES)]
        return None if t is None else {"N": t}
    if isinstance(w, bool):
        return w
    if "fn" in w:
        return {"feel": LAMBDAS[w["fn"]]}
    if "l" in w:
        return {"l": [to_bind(x) for x in w["l"]]}
    if "c" in w:
        return {"c": [[k, to_bind(v)] for k, v in w["c"]]}
    return w


def from_wire(v):
    """Driver value -> oracle value; a null with a trace message is null; anything exotic becomes a tagged context."""
    if v is None or isinstance(v, bool):
        return v
    if isinstance(v, dict):
        if "N" in v:
            return None
        if "d" in v and "n" in v:
            try:
                return Decimal(v["d"])
            except Exception:
                return {"__unreadable_number__": v["n"]}
        if "s" in v:
            return v["s"]
        if "l" in v:
            return [from_wire(x) for x in v["l"]]
        if "c" in v:
            return {k: from_wire(x) for k, x in v["c"]}
    return {"__other__": repr(v)}


def show(v):
    if isinstance(v, Decimal):
        return format(v, "f") if v.is_finite() and abs(v.as_tuple().exponent) < 60 else str(v)
    if isinstance(v, list):
        return "[" + ", ".join(show(x) for x in v) + "]"
    if isinstance(v, dict):
        return "{" + ", ".join("%s: %s" % (k, show(x)) for k, x in v.items()) + "}"
    if isinstance(v, str):
        return ascii(v)
    if v is None:
        return "null"
    return repr(v).lower() if isinstance(v, bool) else repr(v)


# ------------------------------------------------------------------------------------------------------------
# requests
# ------------------------------------------------------------------------------------------------------------

def canon_args(case):
    import json
    return json.dumps(case["args"], sort_keys=True, default=str)


def arg_texts(case):
    """(texts per argument, scope): literal text or a bound name."""
    texts, ctx = [], []
    modes = case.get("modes") or []
    _NULLS[0], _NULLS[1] = len(canon_args(case)) % 7, 0
    for i, w in enumerate(case["args"]):
        lit = to_lit(w)
        bind = lit is None or (i < len(modes) and modes[i])
        if bind:
            name = NAMES[i % len(NAMES)] + ("" if i < len(NAMES) else str(i))
            ctx.append([name, to_bind(w)])
            texts.append(name)
        else:
            texts.append(lit)
    return texts, [ctx]


def has_named(case):
    f, k = case["f"], len(case["args"])
    params = ref.PARAMS[f]
    if params is None or k == 0 or k > len(params):
        return False
    lo, hi = ref.ARITY[f]
    if f in ref.AGGREGATES:
        return k == 1
    return lo <= k <= (hi or 99)


def texts_of(case):
    texts, scope = arg_texts(case)
    out = ["%s(%s)" % (case["f"], ", ".join(texts))]
    if has_named(case):
        params = ref.PARAMS[case["f"]]
        order = case.get("order") or list(range(len(texts)))
        order = [i for i in order if i < len(texts)] + [i for i in range(len(texts)) if i not in order]
        out.append("%s(%s)" % (case["f"], ", ".join("%s: %s" % (params[i], texts[i]) for i in order)))
    return out, scope


def reqs(case):
    texts, scope = texts_of(case)
    return [{"op": "eval", "text": t, "scope": scope} for t in texts]


# ------------------------------------------------------------------------------------------------------------
# judge
# ------------------------------------------------------------------------------------------------------------

POSITION_ARGS = {"substring": (1, 2), "sublist": (1, 2), "insert before": (1,), "remove": (1,)}


def short_location(loc):
    m = re.search(r"([A-Za-z0-9_.-]+/src/.*)$", loc or "")
    return m.group(1) if m else (loc or "?")


def transport(r, text):
    """None if the response carries a value; else a Fail."""
    if "values" in r:
        return None
    if "panic" in r:
        return Fail("C08/panic@" + short_location(r.get("location")), "%s panics: %s at %s" % (text, r["panic"], r.get("location")))
    if "died" in r or "timeout" in r:
        return Fail("C08/abort-or-hang", "%s: driver %r" % (text, r))
    return Fail("C08/harness-rejected", "%s is not evaluated (generator defect or parser finding): %r" % (text, str(r)[:300]))


def rust_expand_model(repl):
    """Documented deviation: the evaluator rewrites $N (N>=1) to ${N} and then hands the replacement string to the Rust
    `regex` crate, whose syntax is $name / ${name} / $$ with no backslash escapes. Returns parts like ref.parse_replacement."""
    repl = re.sub(r"\$([1-9][0-9]*)", lambda m: "${" + m.group(1) + "}", repl)
    parts, i = [], 0
    while i < len(repl):
        c = repl[i]
        if c != "$":
            parts.append(("lit", c))
            i += 1
            continue
        if repl[i + 1:i + 2] == "$":
            parts.append(("lit", "$"))
            i += 2
            continue
        if repl[i + 1:i + 2] == "{":
            j = repl.find("}", i + 2)
            name = repl[i + 2:j] if j >= 0 else None
            if name is None:
                parts.append(("lit", "$"))
                i += 1
                continue
            i = j + 1
        else:
            m = re.match(r"[0-9A-Za-z_]+", repl[i + 1:])
            if not m:
                parts.append(("lit", "$"))
                i += 1
                continue
            name = m.group()
            i += 1 + len(name)
        parts.append(("grp", int(name)) if name.isdigit() and name.isascii() else ("lit", ""))
    return parts


def diagnose(f, args, exp, got, raw):
    """Signature of a positional mismatch: a documented deviation when trigger AND predicted output hold, else generic."""
    ev = getattr(exp, "v", None)
    if f in ("upper case", "lower case") and isinstance(ev, str) and isinstance(got, str):
        if got == ref.trim(ev) and got != ev:
            return "C08/case-conversion-trims-whitespace"
    if f == "replace" and isinstance(ev, str) and isinstance(got, str):
        if got == ref.trim(ev) and got != ev:
            return "C08/replace-trims-result"
        repl = args[2]
        if "\\" in repl or re.search(r"\$0[0-9A-Za-z_]", repl):
            try:
                prog = ref.Prog(args[1], args[3] if len(args) > 3 else "")
                model = ref.re_replace_all(prog, args[0], rust_expand_model(repl))
                if got in (model, ref.trim(model)):
                    return "C08/replace-replacement-read-with-rust-syntax"
            except ref.RegexError:
                pass
    if f in ("all", "any") and isinstance(exp, ref.Exact) and isinstance(ev, bool) and got is None:
        items = args[0] if len(args) == 1 and isinstance(args[0], list) else args
        if f == "any" and ev is True and any(x is None for x in items):
            return "C08/any-null-item-hides-true"
        if f == "all" and ev is False:
            first_false = next(i for i, x in enumerate(items) if x is False)
            if any(x is None for x in items[:first_false]):
                return "C08/all-null-item-before-false"
    if f in POSITION_ARGS and isinstance(exp, ref.Exact) and ev is not None and got is None:
        for i in POSITION_ARGS[f]:
            if i < len(args) and isinstance(args[i], Decimal) and args[i].as_tuple().exponent < 0 and ref.is_int(args[i]):
                return "C08/integer-position-written-with-fraction-digits-rejected"
    if f == "matches" and len(args) == 3 and args[2] == "" and isinstance(ev, bool) and got is None:
        return "C08/matches-empty-flags-rejected"
    if f == "substring" and len(args) == 3 and exp is not None and ev is None and isinstance(got, str):
        if isinstance(args[2], Decimal) and args[2] >= 2 ** 63 and isinstance(args[0], str) and isinstance(args[1], Decimal):
            return "C08/substring-huge-length-wraps"
    if f == "sublist" and len(args) == 3 and ev is None and got == [] and isinstance(args[2], Decimal) and args[2] == 0:
        return "C08/sublist-length-zero-accepted"
    if f in ("matches", "replace") and ev is None and isinstance(exp, ref.Exact) and got is not None:
        k = 2 if f == "matches" else 3
        if len(args) == k + 1 and args[k] is not None and not isinstance(args[k], str):
            # prediction: the flags argument is skipped, so a value of the function's result type comes back
            if isinstance(got, bool if f == "matches" else str):
                return "C08/%s-non-string-flags-ignored" % f
    return "C08/%s/wrong-value" % f.replace(" ", "-")


def diagnose_named(f, args, pos, named, raw):
    trace = raw.get("N", "") if isinstance(raw, dict) else ""
    if f == "mean" and isinstance(args[0], list):
        med = ref.call("median", args)
        if isinstance(med, ref.Exact) and ref.identical(med.v, named) and not ref.identical(pos, named):
            return "C08/named-mean-computes-median"
    if f == "list contains" and named is None and "parameter 'match' not found" in trace:
        return "C08/named-list-contains-wants-match-not-element"
    return "C08/%s/named-differs-from-positional" % f.replace(" ", "-")


def matches_expectation(exp, got):
    if isinstance(exp, ref.Unspec):
        return not any(ref.identical(v, got) for v in exp.never)
    if isinstance(exp, ref.Exact):
        return ref.identical(exp.v, got)
    if isinstance(exp, ref.Bag):
        if not isinstance(got, list) or len(got) != len(exp.v):
            return False
        rest = list(got)
        for e in exp.v:
            for j, g in enumerate(rest):
                if ref.identical(e, g):
                    del rest[j]
                    break
            else:
                return False
        return True
    if isinstance(exp, ref.Approx):
        return ref.approx_ok(exp.var, got)
    if isinstance(exp, ref.NumText):
        return isinstance(got, str) and bool(PLAIN.match(got)) and Decimal(got) == exp.v
    return True


def describe(exp):
    if isinstance(exp, ref.Unspec):
        return "no single value (%s), but never %s" % (exp.reason, " / ".join(show(v) for v in exp.never))
    if isinstance(exp, ref.Exact):
        return show(exp.v)
    if isinstance(exp, ref.Bag):
        return "some order of " + show(exp.v)
    if isinstance(exp, ref.Approx):
        try:
            return "sqrt(%s)" % exp.var
        except ValueError:       # a fraction of thousands of digits (items at both ends of the range)
            return "sqrt(a fraction of %d / %d bits)" % (exp.var.numerator.bit_length(), exp.var.denominator.bit_length())
    if isinstance(exp, ref.NumText):
        return "plain decimal text of %s" % exp.v
    return "unspecified (%s)" % exp.reason


def edges(f, args, arity_ok):
    e = []
    if not arity_ok:
        e.append("edge:arity-wrong")
    if any(a == "" or a == [] for a in args if isinstance(a, (str, list))):
        e.append("edge:empty")
    if f in POSITION_ARGS and args and isinstance(args[0], (str, list)):
        n = len(args[0])
        for i in POSITION_ARGS[f]:
            if i < len(args) and isinstance(args[i], Decimal) and abs(args[i]) in (0, 1, n, n + 1):
                e.append("edge:position")
                break
    if any(isinstance(a, str) and not a.isascii() for a in args):
        e.append("edge:non-ascii")
        if any(isinstance(a, str) and any(ord(c) > 0xFFFF for c in a) for a in args):
            e.append("edge:supplementary")
    for a in args:
        if isinstance(a, list):
            if any(x is None for x in a):
                e.append("edge:null-item")
            if any(ref.same(a[i], a[j]) for i in range(len(a)) for j in range(i)):
                e.append("edge:duplicate")
            if any(isinstance(x, list) for x in a):
                e.append("edge:nested")
            break
    return e


NONFINITE = re.compile(r'"n": "-?(Infinity|Inf|s?NaN)')


def judge(ctx, case, resp, profile=None):
    f = case["f"]
    args = [to_py(a) for a in case["args"]]
    texts, scope = texts_of(case)
    exp = ref.call(f, args)
    lo, hi = ref.ARITY[f]
    arity_ok = lo <= len(args) <= (hi if hi is not None else 10 ** 6)
    if profile in (None, "release"):
        cls = "asserted" if not isinstance(exp, ref.Unspec) else "unspecified:" + exp.reason
        labels = ["f:" + f, cls, "named" if len(texts) > 1 else "positional-only",
                  "bound" if scope[0] else "literals-only"] + edges(f, args, arity_ok)
        if isinstance(exp, ref.Exact) and exp.v is None:
            labels.append("expect-null")
        elif isinstance(exp, ref.Exact) and isinstance(exp.v, bool):
            labels.append("%s=%s" % (f, "true" if exp.v else "false"))
        elif isinstance(exp, ref.Exact) and f == "replace":
            labels.append("replace:changed" if exp.v != args[0] else "replace:unchanged")
        elif isinstance(exp, ref.Exact) and f in ("split", "index of", "mode") and isinstance(exp.v, list):
            labels.append("%s:%s" % (f, "several" if len(exp.v) > 1 else "one-or-none"))
        ctx.note(key=[f, case["args"]], nontrivial=any(l.startswith("edge:") for l in labels), labels=labels,
                 sample={"text": texts[0], "scope": scope, "expected": describe(exp)})
    where = " [%s build]" % profile if profile else ""
    t = transport(resp[0], texts[0])
    if t:
        t.msg += "  scope=%r%s" % (scope, where)
        return t
    raw = resp[0]["values"][0]
    got = from_wire(raw)
    if NONFINITE.search(json.dumps(raw)):
        return Fail("C08/%s/non-finite-number" % f, "%s  with scope %r%s\n  evaluates to %s: an infinity or a NaN is not a FEEL value (out of range is null)" % (
            texts[0], scope, where, json.dumps(raw)[:300]))
    if not matches_expectation(exp, got):
        return Fail(diagnose(f, args, exp, got, raw), "%s  with scope %r%s\n  evaluates to %s\n  DMN 1.3 10.3.4 defines %s" % (
            texts[0], scope, where, show(got), describe(exp)))
    if len(texts) > 1:
        t = transport(resp[1], texts[1])
        if t:
            t.msg += "  scope=%r%s" % (scope, where)
            return t
        rawn = resp[1]["values"][0]
        gotn = from_wire(rawn)
        # min(1) is the c1..cN form but min(list: 1) is the list form with a non-list: conversion to a singleton list undecided
        comparable = not (f in ref.AGGREGATES and not isinstance(args[0], list))
        if comparable and not ref.identical(got, gotn):
            return Fail(diagnose_named(f, args, got, gotn, rawn), "%s  with scope %r%s\n  evaluates to %s\n  but the positional form %s gives %s" % (
                texts[1], scope, where, show(gotn), texts[0], show(got)))
    return None


# ------------------------------------------------------------------------------------------------------------
# generators
# ------------------------------------------------------------------------------------------------------------

ASCII_CH = "abcABC01 -_.x"
BMP_CH = "\u00e9\u00df\u0416\u4e2d\u03c3\u03a3\u0130\u01c5\u0301"      # e-acute, sharp s, Zhe, CJK, sigma, Sigma, I-dot, Dz-caron (titlecase), combining acute
SUPP_CH = "\U0001F600\U0001F40E\U00010400\U00010428\U0001D49C"
WS_CH = " \t\n\u00a0\u3000"
BIG = ["4294967296", "9223372036854775807", "9223372036854775808", "18446744073709551615", "18446744073709551616",
       "1000000000000000000000000000000", "9999999999999999999999999999999999",
       "-4294967297", "-9223372036854775808", "-9223372036854775809", "-18446744073709551615", "-18446744073709551616"]
FRACS = ["0.5", "1.5", "-1.5", "2.000001", "0.9", "-0.1"]


def g_char(src):
    cls = src.weighted([(6, ASCII_CH), (2, BMP_CH), (2, SUPP_CH)])
    return src.choice(cls)


LONG_LENGTHS = [9, 12, 16, 17, 20, 21, 31, 32, 33, 34, 48, 64, 65, 100, 129]     # beyond the 0..8 of the statement: the thresholds at which
                                                                                  # sorting / hashing / buffer strategies of a library switch

def g_text(src, lo=0, hi=8):
    n = src.int(lo, hi)
    if hi >= 8 and src.bool(0.04):
        n = src.choice(LONG_LENGTHS)
    return "".join(g_char(src) for _ in range(n))


def g_str(src, lo=0, hi=8):
    return S(g_text(src, lo, hi))


def g_num(src):
    k = src.weighted([(6, "small"), (2, "dec"), (1, "scaled"), (1, "big")])
    if k == "small":
        return N(src.choice([1, 2, 0, 3, -1, 4, 5, -2, 10, 12, -3, 7]))
    if k == "dec":
        return N(src.choice(["0.5", "1.5", "-2.25", "10.10", "0.001", "2.5", "-0.5", "3.75"]))
    if k == "scaled":
        return N(src.choice(["1.0", "2.00", "3.0", "0.0", "-1.0", "10.0"]))
    return N(src.choice(BIG[:7] + ["123456789012", "-98765432101"]))


def g_scalar(src):
    k = src.weighted([(5, "n"), (3, "s"), (2, "null"), (2, "b")])
    if k == "n":
        return g_num(src)
    if k == "s":
        return g_str(src, 0, 3)
    if k == "null":
        return None
    return src.bool()


# (entry names written as strings are kept as they are: "a  b", "a - b" and "a-b" are three keys, a tab is not a blank)
KEYS = ["a", "b", "c", "k", "key one", "é", "a  b", "a b", "a - b", "a-b", "x\ty", "c / d"]


def g_ctx(src, depth=1):
    ks = src.sample(KEYS, src.int(0, 3))
    return {"c": [[k, g_value(src, depth + 1)] for k in ks]}


def g_value(src, depth=0):
    if depth >= 2:
        return g_scalar(src)
    k = src.weighted([(8, "scalar"), (2, "list"), (1, "ctx")])
    if k == "scalar":
        return g_scalar(src)
    if k == "list":
        return g_list(src, depth + 1, 3)
    return g_ctx(src, depth)


def g_from_pool(src, n, item, wide=False):
    """n items drawn from a small pool, so that duplicates are the rule (wide: a pool about as big as the list, most items distinct)."""
    if n == 0:
        return []
    pool = [item(src) for _ in range(src.int(1, 4) if not wide else src.int(max(n // 2, 1), n))]
    return [src.choice(pool) for _ in range(n)]


def g_wide_num(src):
    return N(str(src.int(-60, 60)))


def g_list(src, depth=0, hi=8, item=None):
    n = src.int(0, hi)
    if hi >= 8 and src.bool(0.05):
        # a long list (the statement names 0..8; longer ones are in every function's domain all the same)
        n = src.choice(LONG_LENGTHS)
        it = item or src.weighted([(3, g_wide_num), (1, lambda s: g_str(s, 0, 3)), (1, lambda s: g_value(s, depth))])
        return {"l": g_from_pool(src, n, it if it is not g_num else src.choice([g_num, g_wide_num]), wide=src.bool(0.7))}
    return {"l": g_from_pool(src, n, item or (lambda s: g_value(s, depth)))}


def g_foreign(src, not_kind):
    """A value that is not of the wanted kind (incl. null and singleton lists of the wanted kind)."""
    cands = [None, N(1), S("a"), True, L(), L(N(1)), L(S("a")), L(N(1), N(2)), {"c": [["a", N(1)]]}, L(True), {"fn": "<"}]
    kinds = {"number": (1, 5), "string": (2, 6), "boolean": (3, 9), "list": (4, 5, 6, 7, 9), "context": (8,), "function": (10,)}
    drop = set(kinds.get(not_kind, ()))
    if not_kind in ("number", "string", "boolean"):
        drop -= {5, 6, 9}       # singleton lists stay in: the class is labelled unspecified by the oracle
    cands = [c for i, c in enumerate(cands) if i not in drop]
    return src.choice(cands)


def zigzag(n):
    out = []
    for k in range(1, n + 1):
        out += [k, -k]
    return out + [0]


def g_position(src, n):
    k = src.weighted([(12, "near"), (1, "big"), (1, "frac"), (1, "scaled"), (1, "foreign")])
    if k == "near":
        return N(src.choice(zigzag(n + 3)))
    if k == "big":
        return N(src.choice(BIG))
    if k == "frac":
        return N(src.choice(FRACS))
    if k == "scaled":
        return N("%d.%s" % (src.choice(zigzag(n + 1)[:-1]), src.choice(["0", "00"])))
    return g_foreign(src, "number")


def g_length(src, n):
    k = src.weighted([(12, "near"), (1, "big"), (1, "frac"), (1, "scaled"), (1, "foreign")])
    if k == "near":
        return N(src.choice([1, 2, 0, 3, -1] + list(range(4, n + 4))))
    if k == "big":
        return N(src.choice(BIG))
    if k == "frac":
        return N(src.choice(FRACS))
    if k == "scaled":
        return N("%d.%s" % (src.int(1, n + 1), src.choice(["0", "00"])))
    return g_foreign(src, "number")


def maybe(src, value, kind_, p=0.06):
    """The value, or (rarely) something foreign to the parameter."""
    return g_foreign(src, kind_) if src.bool(p) else value


def finish(src, f, args):
    k = len(args)
    return {"f": f, "args": args, "modes": [1 if src.bool(0.35) else 0 for _ in range(k)], "order": src.shuffle(list(range(k)))}


# ---- string family

def g_in_domain(src, n):
    """(position, length or None) inside the domain: position in +-[1..n], length in [1..E]."""
    p = src.int(1, n)
    avail = n - p + 1
    if src.bool(0.5):
        p = -(n - p + 1)       # the same cut counted from the end
    return N(p), (N(src.int(1, avail)) if src.bool(0.6) else None)


def gen_substring(src):
    s = g_text(src)
    if s and src.bool(0.45):
        p, l = g_in_domain(src, len(s))
        return finish(src, "substring", [S(s), p] + ([l] if l else []))
    args = [maybe(src, S(s), "string"), g_position(src, len(s))]
    if src.bool(0.6):
        args.append(g_length(src, len(s)))
    return finish(src, "substring", args)


def gen_one_string(f, ws=False):
    def gen(src):
        t = g_text(src)
        if ws and src.bool(0.3):
            t = src.choice(WS_CH) * src.int(0, 2) + t + src.choice(WS_CH) * src.int(0, 2)
        return finish(src, f, [maybe(src, S(t), "string", 0.1)])
    return gen


def gen_search(f):
    def gen(src):
        s = g_text(src)
        k = src.weighted([(5, "sub"), (2, "prefix"), (2, "suffix"), (2, "other"), (1, "whole")])
        if k == "sub" and s:
            i = src.int(0, len(s))
            j = src.int(i, len(s))
            m = s[i:j]
        elif k == "prefix":
            m = s[:src.int(0, len(s))]
        elif k == "suffix":
            m = s[src.int(0, len(s)):]
        elif k == "whole":
            m = s
        else:
            m = g_text(src, 0, 3)
        return finish(src, f, [maybe(src, S(s), "string"), maybe(src, S(m), "string")])
    return gen


RX_CH = "abcAB01 .é\U0001F600\n"
RX_LIT = ["a", "b", "c", "A", "B", "0", "1", "\\.", "é", "\U0001F600", " ", "\\n"]
RX_CLASS = ["[ab]", "[^a]", "[a-c]", "[0-9]", "[A-Ba]", "[^ab\\n]", "\\d", "\\s", "\\D", "\\S", "[\\d.]", "."]
RX_QUANT = ["*", "+", "?", "*?", "+?", "??", "{2}", "{1,2}", "{0,1}", "{2,}"]
RX_INVALID = ["(", ")", "[a", "a{2,1}", "*a", "+", "?a", "\\", "a(b", "[z-a]", "(a", "a)", "[]"]


def g_rx_atom(src, depth, x=False):
    k = src.weighted([(6, "lit"), (4, "cls"), (2 if depth < 2 else 0, "grp"), (1 if depth < 2 else 0, "ncg")])
    if k == "lit":
        c = src.choice(RX_LIT)
        # under flag x a literal blank vanishes from the pattern; a quantifier after it would attach to the previous piece,
        # which XPath rejects (a**) and the Rust dialect accepts: outside the common sub-grammar
        return ("a" if x and c == " " else c), False
    if k == "cls":
        return src.choice(RX_CLASS), False
    t, nl = g_rx_alt(src, depth + 1, "", x)
    return ("(" if k == "grp" else "(?:") + t + ")", nl


def g_rx_piece(src, depth, x=False):
    t, nl = g_rx_atom(src, depth, x)
    if not nl and src.bool(0.35):
        q = src.choice(RX_QUANT)
        return t + q, q[0] in "*?" or q.startswith("{0")
    return t, nl


def g_rx_branch(src, depth, sep="", x=False):
    ps = [g_rx_piece(src, depth, x) for _ in range(src.int(1, 3))]
    return sep.join(p[0] for p in ps), all(p[1] for p in ps)


def g_rx_alt(src, depth, sep="", x=False):
    bs = [g_rx_branch(src, depth, sep, x) for _ in range(src.weighted([(4, 1), (2, 2), (1, 3)]))]
    return "|".join(b[0] for b in bs), any(b[1] for b in bs)


def g_pattern(src, flags=""):
    k = src.weighted([(20, "gen"), (2, "invalid"), (1, "empty")])
    if k == "invalid":
        return src.choice(RX_INVALID)
    if k == "empty":
        return ""
    sep = " " if "x" in flags and src.bool(0.7) else ""
    t, _ = g_rx_alt(src, 0, sep, "x" in flags)
    if src.bool(0.15):
        t = "^" + t
    if src.bool(0.15):
        t = t + "$"
    return t


def g_flags(src, allow_bad=True):
    k = src.weighted([(6, "none"), (6, "some"), (1, "empty"), (1 if allow_bad else 0, "bad")])
    if k == "none":
        return None
    if k == "empty":
        return S("")
    if k == "bad":
        return S(src.choice(["z", "q", "ii", "I", "g", " i"]))
    fl = src.sample("ismx", src.int(1, 3))
    return S("".join(fl))


def g_rx_input(src):
    return "".join(src.choice(RX_CH) for _ in range(src.int(0, 8)))


def gen_matches(src):
    fl = g_flags(src)
    p = g_pattern(src, fl["s"] if fl else "")
    args = [maybe(src, S(g_rx_input(src)), "string", 0.04), maybe(src, S(p), "string", 0.04)]
    if fl is not None:
        args.append(maybe(src, fl, "string", 0.04))
    return finish(src, "matches", args)


REPL_TOK = ["x", "y", "-", "#", "$1", "$2", "$0", "$3", "[", "]", "=", "\\$", "\\\\", " ",
            # what may follow a group reference: ASCII digits (a longer group number, or a literal digit when there is no such group),
            # letters and digits of other scripts (never part of the group number), supplementary-plane characters
            "0", "1", "7", "é", "中", "\U0001f600", "²", "٣", "Ⅷ", "½", "\U0001d7d9", "_", "{", "}"]
REPL_BAD = ["$", "\\a", "$x", "$0a"]


def gen_replace(src):
    fl = g_flags(src)
    p = g_pattern(src, fl["s"] if fl else "")
    toks = [src.choice(REPL_TOK) for _ in range(src.int(0, 4))]
    if src.bool(0.05):
        toks.append(src.choice(REPL_BAD))
    s = g_rx_input(src)
    if src.bool(0.15):
        s = src.choice(" \t\n") + s + src.choice(" \t\n")
    args = [maybe(src, S(s), "string", 0.04), maybe(src, S(p), "string", 0.04), maybe(src, S("".join(toks)), "string", 0.04)]
    if fl is not None:
        args.append(maybe(src, fl, "string", 0.04))
    return finish(src, "replace", args)


def gen_split(src):
    k = src.weighted([(3, "rx"), (3, "sep")])
    if k == "sep":
        sep = src.choice([";", ",", " ", "ab", "\\.", "\\s", "\U0001F600", "é", "[;,]", "a+"])
        plain = {"\\.": ".", "\\s": " ", "[;,]": ";", "a+": "aa"}.get(sep, sep)
        parts = [g_text(src, 0, 2) for _ in range(src.int(0, 4))]
        s = plain.join(parts)
        p = sep
    else:
        p = g_pattern(src)
        s = g_rx_input(src)
    return finish(src, "split", [maybe(src, S(s), "string", 0.05), maybe(src, S(p), "string", 0.05)])


# ---- list family

def gen_one_list(f, item=None):
    def gen(src):
        return finish(src, f, [maybe(src, g_list(src, 0, 8, item), "list", 0.1)])
    return gen


def gen_flatten(src):
    def nest(s, d):
        if d >= 3 or s.bool(0.6):
            return g_scalar(s)
        return {"l": [nest(s, d + 1) for _ in range(s.int(0, 3))]}
    l = {"l": [nest(src, 0) for _ in range(src.int(0, 6))]}
    return finish(src, "flatten", [maybe(src, l, "list", 0.1)])


def gen_sublist(src):
    l = g_list(src)
    n = len(l["l"])
    if n and src.bool(0.45):
        p, ln = g_in_domain(src, n)
        return finish(src, "sublist", [l, p] + ([ln] if ln else []))
    args = [maybe(src, l, "list"), g_position(src, n)]
    if src.bool(0.6):
        args.append(g_length(src, n))
    return finish(src, "sublist", args)


def gen_insert_before(src):
    l = g_list(src)
    return finish(src, "insert before", [maybe(src, l, "list"), g_position(src, len(l["l"])), g_value(src, 1)])


def gen_remove(src):
    l = g_list(src)
    return finish(src, "remove", [maybe(src, l, "list"), g_position(src, len(l["l"]))])


def gen_member(f):
    def gen(src):
        l = g_list(src)
        items = l["l"]
        k = src.weighted([(5, "member"), (2, "other"), (1, "null"), (1, "variant")])
        if k == "member" and items:
            x = src.choice(items)
        elif k == "null":
            x = None
        elif k == "variant" and items:
            x = src.choice(items)
            if isinstance(x, dict) and "n" in x and PLAIN.match(x["n"]) and "." not in x["n"]:
                x = N(x["n"] + ".0")      # the same number written with another scale
            elif isinstance(x, dict) and "s" in x:
                x = S(x["s"].upper())
        else:
            x = g_value(src, 1)
        return finish(src, f, [maybe(src, l, "list"), x])
    return gen


def gen_varlists(f, lo):
    def gen(src):
        k = src.int(lo, 3)
        pool_item = lambda s: g_value(s, 1)
        shared = g_from_pool(src, 3, pool_item)
        args = []
        for _ in range(k):
            n = src.int(0, 5)
            args.append(maybe(src, {"l": [src.choice(shared) if src.bool(0.6) else g_value(src, 1) for _ in range(n)]}, "list"))
        return finish(src, f, args)
    return gen


def gen_append(src):
    l = g_list(src, 0, 5)
    items = [g_value(src, 1) for _ in range(src.int(1, 3))]
    return finish(src, "append", [maybe(src, l, "list")] + items)


def gen_sort(src):
    k = src.weighted([(5, "num"), (4, "str"), (1, "mixed")])
    if k == "num":
        l = g_list(src, 0, 8, g_num)
    elif k == "str":
        l = g_list(src, 0, 8, lambda s: g_str(s, 0, 3))
    else:
        l = g_list(src, 0, 5)
    fn = {"fn": src.weighted([(5, "<"), (4, ">"), (1, "<="), (1, "const"), (1, "one")])}
    return finish(src, "sort", [maybe(src, l, "list", 0.05), maybe(src, fn, "function", 0.05)])


# ---- numeric aggregates, booleans

AGG_NUMS = ["1", "2", "3", "0", "-1", "2.5", "1.0", "10", "7", "0.1", "-3.25", "100", "2.00", "12345678", "0.0001", "6"]
# numbers at the edges of the range: sums, means and squares of them leave it
AGG_EXTREME = ["9E+6144", "-9E+6144", "9.999999999999999999999999999999999E+6144", "5E+6144", "1E+6144", "1E+3073", "-1E+3073", "1E-6176", "1E+6111"]


def g_agg_num(src):
    return N(src.choice(AGG_NUMS))


def gen_aggregate(f, item, alien):
    def gen(src):
        n = src.int(0, 8)
        if src.bool(0.05):
            n = src.choice(LONG_LENGTHS)
            items = g_from_pool(src, n, g_wide_num if item is g_agg_num else item, wide=src.bool(0.7))
        else:
            items = g_from_pool(src, n, item)
        if items and src.bool(0.12):
            items[src.int(0, len(items) - 1)] = alien(src)
        if items and item is g_agg_num and src.bool(0.08):
            for _ in range(src.int(1, 3)):
                items[src.int(0, len(items) - 1)] = N(src.choice(AGG_EXTREME))
        if src.bool(0.08) and len(items) >= 2:
            k = src.int(0, len(items) - 1)
            args = [{"l": items[:k]}] + items[k:]     # a list AND further arguments: neither of the two forms
        elif src.bool(0.25) and items:
            args = items              # c1, .., cN form
        elif src.bool(0.04):
            args = [items[0]] if items else [None]
        else:
            args = [{"l": items}]
        return finish(src, f, args)
    return gen


def alien_num(src):
    return src.choice([None, S("a"), True, L(N(1)), {"c": []}])


def alien_bool(src):
    return src.choice([None, None, N(0), S("true"), L(True)])


def g_minmax_item(kind_):
    def item(src):
        return g_agg_num(src) if kind_ == "n" else g_str(src, 0, 3)
    return item


def gen_minmax(f):
    gn = gen_aggregate(f, g_minmax_item("n"), lambda s: s.choice([None, S("a"), True, L(N(1))]))
    gs = gen_aggregate(f, g_minmax_item("s"), lambda s: s.choice([None, N(1), False]))
    gb = gen_aggregate(f, lambda s: s.bool(), lambda s: None)

    def gen(src):
        return src.weighted([(6, gn), (4, gs), (1, gb)])(src)
    return gen


def gen_not(src):
    return finish(src, "not", [src.weighted([(3, False), (3, True), (2, None), (1, N(0)), (1, S("true")), (1, L(True)), (1, L())])])


# ---- context, conversion

def gen_get_value(src):
    c = g_ctx(src, 0)
    keys = [k for k, _ in c["c"]]
    k = src.weighted([(6, "hit"), (3, "miss"), (1, "foreign")])
    if k == "hit" and keys:
        key = S(src.choice(keys))
    elif k == "foreign":
        key = g_foreign(src, "string")
    else:
        key = S(src.choice(["zz", "", "A", "value"]))
    return finish(src, "get value", [maybe(src, c, "context", 0.08), key])


def gen_get_entries(src):
    return finish(src, "get entries", [maybe(src, g_ctx(src, 0), "context", 0.12)])


def group3(digits, g):
    out = []
    while len(digits) > 3:
        out.insert(0, digits[-3:])
        digits = digits[:-3]
    out.insert(0, digits)
    return g.join(out)


def gen_number(src):
    g = src.weighted([(4, None), (2, ","), (2, " "), (2, "."), (1, "$"), (1, "")])
    d = src.weighted([(4, "."), (3, None), (3, ","), (1, ";"), (1, "")])
    ip = str(src.int(1, 9)) + src.digits(src.weighted([(3, 0), (3, 3), (2, 5), (1, 8)])) if not src.bool(0.1) else "0"
    fp = src.digits(src.int(1, 4)) if src.bool(0.5) else ""
    neg = "-" if src.bool(0.2) else ""
    k = src.weighted([(12, "canon"), (2, "garbage"), (2, "exotic"), (1, "misplaced"), (1, "othermark")])
    gs = g if g in (",", " ", ".") else ""
    ds = d if d in (".", ",") else "."
    if k == "canon":
        text = neg + group3(ip, gs) + (ds + fp if fp else "")
    elif k == "garbage":
        text = src.choice(["", "abc", "1.2.3", "--1", "1-", "12a", "one", "٣", "1 2", "0x10", "-", "."])
    elif k == "exotic":
        text = src.choice(["1e3", "+1", "1.", " 1", "1 ", "1E-2", "Infinity", "NaN", "-.5", ".5", "00012", "1" * 40])
    elif k == "misplaced":
        text = neg + ip[:1] + (gs or ",") + ip[1:] + (ds + fp if fp else "")
    else:
        text = neg + ip + ("," if ds == "." else ".") + (fp or "5")
    wg = None if g is None else S(g)
    wd = None if d is None else S(d)
    return finish(src, "number", [maybe(src, S(text), "string", 0.05), maybe(src, wg, "string", 0.04) if wg else wg,
                                   maybe(src, wd, "string", 0.04) if wd else wd])


def gen_string(src):
    k = src.weighted([(5, "num"), (3, "str"), (2, "other")])
    if k == "num":
        v = src.choice([g_num(src), N(src.choice(["-0.5", "0.000001", "-0.00000015", "100", "1.10", "123456789.987654321",
                                                     "0.1000", "-12", "1000000000000000000000"]))])
    elif k == "str":
        v = g_str(src)
    else:
        v = g_value(src, 0)
    return finish(src, "string", [v])


GENS = {
    "substring": gen_substring, "string length": gen_one_string("string length"), "upper case": gen_one_string("upper case", True),
    "lower case": gen_one_string("lower case", True), "substring before": gen_search("substring before"),
    "substring after": gen_search("substring after"), "contains": gen_search("contains"), "starts with": gen_search("starts with"),
    "ends with": gen_search("ends with"), "matches": gen_matches, "replace": gen_replace, "split": gen_split,
    "count": gen_one_list("count"), "min": gen_minmax("min"), "max": gen_minmax("max"),
    "sum": gen_aggregate("sum", g_agg_num, alien_num), "mean": gen_aggregate("mean", g_agg_num, alien_num),
    "median": gen_aggregate("median", g_agg_num, alien_num), "mode": gen_aggregate("mode", g_agg_num, alien_num),
    "stddev": gen_aggregate("stddev", g_agg_num, alien_num),
    "all": gen_aggregate("all", lambda s: s.weighted([(5, True), (3, False), (2, None)]), alien_bool),
    "any": gen_aggregate("any", lambda s: s.weighted([(5, False), (3, True), (2, None)]), alien_bool),
    "sublist": gen_sublist, "append": gen_append, "concatenate": gen_varlists("concatenate", 1),
    "insert before": gen_insert_before, "remove": gen_remove, "reverse": gen_one_list("reverse"),
    "index of": gen_member("index of"), "union": gen_varlists("union", 1), "distinct values": gen_one_list("distinct values"),
    "flatten": gen_flatten, "sort": gen_sort, "list contains": gen_member("list contains"), "get value": gen_get_value,
    "get entries": gen_get_entries, "not": gen_not, "number": gen_number, "string": gen_string,
}
assert set(GENS) == set(ref.FUNCS)

# functions whose core does index arithmetic: run on both builds (overflow checks on/off)
BOTH = ("substring", "sublist", "insert before", "remove")
HEAVY = ("matches", "replace", "split", "substring", "sublist", "insert before", "remove", "number")


# ------------------------------------------------------------------------------------------------------------
# enumerations
# ------------------------------------------------------------------------------------------------------------

GRID_STR = "a\U0001F600é\U00010400"
GRID_LIST = [N(10), N(20), N(30), N(40)]


def grid(ctx):
    """Every position x length (incl. absent) for n <= 4, arguments as literals and as bindings."""
    for n in range(0, 5):
        poss = list(range(-(n + 2), n + 3))
        lens = [None] + list(range(-1, n + 3))
        for mode in (0, 1):
            for p in poss:
                for l in lens:
                    for f, subject in (("substring", S(GRID_STR[:n])), ("sublist", {"l": GRID_LIST[:n]})):
                        args = [subject, N(p)] + ([] if l is None else [N(l)])
                        yield {"f": f, "args": args, "modes": [mode] * len(args), "order": list(reversed(range(len(args))))}
                yield {"f": "insert before", "args": [{"l": GRID_LIST[:n]}, N(p), N(99)], "modes": [mode] * 3, "order": [2, 0, 1]}
                yield {"f": "remove", "args": [{"l": GRID_LIST[:n]}, N(p)], "modes": [mode] * 2, "order": [1, 0]}


def extremes(ctx):
    odd = [N(x) for x in BIG + FRACS + ["1.0", "2.00", "-1.0", "3.0", "4.0", "-3.00"]] + [None, S("1"), True, L(N(1)), L()]
    s, l = S(GRID_STR[:3]), {"l": GRID_LIST[:3]}
    for x in odd:
        for mode in (0, 1):
            for f, subject in (("substring", s), ("sublist", l)):
                yield {"f": f, "args": [subject, x], "modes": [mode, mode], "order": [1, 0]}
                yield {"f": f, "args": [subject, N(2), x], "modes": [mode] * 3, "order": [2, 1, 0]}
                yield {"f": f, "args": [subject, x, N(1)], "modes": [mode] * 3, "order": [2, 1, 0]}
                yield {"f": f, "args": [subject, N(-2), x], "modes": [mode] * 3, "order": [0, 2, 1]}
            yield {"f": "insert before", "args": [l, x, N(99)], "modes": [mode] * 3, "order": [2, 0, 1]}
            yield {"f": "remove", "args": [l, x], "modes": [mode] * 2, "order": [1, 0]}
    # aggregates over numbers at the edges of the range (regression cases of the fixed finding non-finite-number: the sum is out of range)
    for f in ("sum", "mean", "median", "stddev", "min", "max", "mode"):
        for a in AGG_EXTREME[:5]:
            for b in AGG_EXTREME[::2]:
                yield {"f": f, "args": [{"l": [N(a), N(b)]}], "modes": [0], "order": [0]}
                yield {"f": f, "args": [{"l": [N(a), N(b), N("-" + b if not b.startswith("-") else b[1:])]}], "modes": [1], "order": [0]}


PROTO = {
    "substring": [S("foobar"), N(3), N(2)], "string length": [S("foo")], "upper case": [S("aBc4")], "lower case": [S("aBc4")],
    "substring before": [S("foobar"), S("bar")], "substring after": [S("foobar"), S("ob")], "contains": [S("foobar"), S("ob")],
    "starts with": [S("foobar"), S("fo")], "ends with": [S("foobar"), S("r")], "matches": [S("foobar"), S("^fo*b"), S("i")],
    "replace": [S("abcd"), S("(ab)|(a)"), S("[1=$1][2=$2]"), S("i")], "split": [S("a;b"), S(";")], "count": [L(N(1), N(2))],
    "min": [N(3), N(1), N(2)], "max": [N(3), N(1), N(2)], "sum": [N(3), N(1), N(2)], "mean": [N(3), N(1), N(2)],
    "median": [N(3), N(1), N(2)], "mode": [N(3), N(1), N(3)], "stddev": [N(3), N(1), N(2)], "all": [True, False, True],
    "any": [False, True, False], "sublist": [L(N(1), N(2), N(3)), N(2), N(1)], "append": [L(N(1)), N(2), N(3)],
    "concatenate": [L(N(1)), L(N(2)), L(N(3))], "insert before": [L(N(1), N(3)), N(1), N(2)], "remove": [L(N(1), N(2)), N(1)],
    "reverse": [L(N(1), N(2))], "index of": [L(N(1), N(2)), N(2)], "union": [L(N(1)), L(N(2)), L(N(1))],
    "distinct values": [L(N(1), N(1))], "flatten": [L(L(N(1)))], "sort": [L(N(2), N(1)), {"fn": "<"}],
    "list contains": [L(N(1), N(2)), N(2)], "get value": [{"c": [["a", N(1)]]}, S("a")], "get entries": [{"c": [["a", N(1)]]}],
    "not": [True], "number": [S("1,000.5"), S(","), S(".")], "string": [N("1.1")],
}
FILLER = [N(1), S("a"), None, L(N(1))]


def arities(ctx):
    for f in sorted(ref.FUNCS):
        proto = PROTO[f]
        lo, hi = ref.ARITY[f]
        top = (hi if hi is not None else len(proto)) + 2
        for k in range(0, top + 1):
            args = (proto + [FILLER[(k + i) % len(FILLER)] for i in range(k)])[:k]
            for mode in (0, 1):
                yield {"f": f, "args": args, "modes": [mode] * k, "order": list(reversed(range(k)))}


# ------------------------------------------------------------------------------------------------------------

def setup(ctx):
    ctx.rule = ("cases: (function, argument tuple) for the 39 implemented functions of the string, list, numeric-aggregate, boolean, "
                "context and conversion families; each tuple is evaluated positionally and (where tables 72-76 name the parameters) with "
                "named parameters in shuffled order, arguments as FEEL literals or as typed scope bindings; oracle = independent "
                "reference (pbt/oracles/bifs_ref.py). non-trivial: an argument sits on an edge (position in {0, +-1, +-n, +-(n+1)}, empty "
                "string/list, non-ASCII character, duplicate / null / nested item) or the arity is wrong; distinct by (function, arguments)")
    ctx.assumptions = ["DMN 1.3 tables 72-76 as transcribed in pbt/oracles/bifs_ref.py (the specification text is not in the sandbox)",
                       "regex semantics on the generated sub-grammar: XPath 2.0 = leftmost, first alternative, greedy/reluctant "
                       "backtracking (cross-checked against CPython re on the same trees)",
                       "classes labelled unspecified:* are not asserted beyond totality and named == positional"]
    ctx.fparts = {}
    for f in sorted(ref.FUNCS):
        ctx.fparts[f] = ctx.register(Part("f/" + f, GENS[f], reqs, judge, profile="both" if f in BOTH else "release"))
    ctx.p_grid = ctx.register(Part("grid", None, reqs, judge, profile="both"))
    ctx.p_ext = ctx.register(Part("extremes", None, reqs, judge, profile="both"))
    ctx.p_arity = ctx.register(Part("arity", None, reqs, judge, profile="both"))
    ctx.max_violations = 1
    if os.environ.get("C08_TRIAGE"):
        # triage aid: report the first (shrunk) case of every unexplained signature instead of stopping at the first one
        ctx.max_violations = 10 ** 6
        orig = ctx.report

        def report(part, case, fail, responses=None, choices=None):
            r = orig(part, case, fail, responses, choices)
            ctx.open_sigs.setdefault(fail.sig, {"what": "(triage) " + fail.sig})
            return r
        ctx.report = report


def run(ctx):
    bad = ref.selftest(n=ctx.scale(1500, 30000), seed=ctx.seed + 1)
    ctx.extra["oracle_selftest_problems"] = len(bad)
    if bad:
        from ..engine import Inconclusive
        raise Inconclusive("reference self-test fails: %s" % bad[0])
    ctx.enumerate(ctx.p_grid, grid(ctx), name="position x length grid, n<=4, substring/sublist/insert before/remove", exhaustive=True)
    ctx.enumerate(ctx.p_ext, extremes(ctx), name="huge, fractional, scaled and foreign positions/lengths", exhaustive=True)
    ctx.enumerate(ctx.p_arity, arities(ctx), name="every arity 0..max+2 per function", exhaustive=True)
    for f in sorted(ref.FUNCS):
        if ctx.stop():
            break
        n = ctx.scale(6000 if f in HEAVY else 3500, 300000 if f in HEAVY else 175000)
        ctx.forall(ctx.fparts[f], n)


if __name__ == "__main__":
    sys.exit(main(sys.modules[__name__]))
