"""Which properties are claimed, with the text that goes into MANIFEST.json."""

CHECKS = {}
NOT_APPLICABLE = {}


def claim(pid, technique, text, note, level="exploration", design="DESIGN.md section 5"):
    CHECKS[pid] = {"technique": technique, "text": text, "note": note, "level": level, "design": design}


claim("C07", "generated-input search: round-trip + exact-value oracle (CPython decimal), enumerated exponent grid",
      "Exploration: every exponent class x coefficient length x sign on a grid plus random decimal128 triples, FEEL literals, xsd "
      "input and arithmetic results are printed and the text is checked against plain/JSON grammars, exact value and read-back.",
      "Trusts CPython Decimal(text) exactness and the C library's own scientific string as the name of the stored value.")

claim("C01", "generated-input search: typed grammar-directed expression generator vs a reference FEEL evaluator (differential) + scope-shape metamorphic relation",
      "Exploration: tens of thousands of generated core-fragment expressions (every construct nested in the others to depth 4, depth 5 in the "
      "thorough tier) over generated bindings are evaluated by the SUT and by an independent reference evaluator written from DMN 1.3; "
      "results compared structurally, numbers numerically; the same text in a differently shaped scope must give the same value.",
      "Trusts the reference evaluator pbt/oracles/feel.py; cases the DMN text does not decide are generated but only checked for scope "
      "invariance (counted as 'unspecified'). Open findings are tolerated only when the reference with exactly that deviation switched "
      "on predicts the SUT's value.")

claim("C13", "generated-input search over evaluation histories (op sequences + interpreter) with invariants checked after every step",
      "Exploration: generated histories of 5-40 evaluate/parse steps over 2-5 prepared expressions and 2-4 scopes of different stack shape "
      "(and, for models, histories of invocations); after every step every scope must render byte-identically to its initial rendering, "
      "recurring (expression, scope) pairs must give the same value, successful parses must leave the scope unchanged.",
      "Trusts Scope::to_string() to render the whole stack. Failed parses (outside the statement) may leave entries behind; the scope is "
      "re-baselined there and the rest of the history is still judged.")

claim("C10", "generated-input search: name-set generator with prefix families and operator-joined combinations; oracle = longest-bound-match rule + reference evaluator over primes",
      "Exploration: tens of thousands of (name set, expression template, spelling) triples; every bound name is a distinct prime so the "
      "result identifies which names were resolved; expected value computed from the statement's longest-match rule.",
      "Names are bound through public constructors (never through the lexer). Declaration sites (context keys, parameters) whose name has a "
      "bound prefix, and texts where the longest bound name ends inside an intended operand, are generated but not asserted (the "
      "statement does not decide them); counted in evidence classes.")
