"""Which properties are claimed, with the text that goes into MANIFEST.json."""

CHECKS = {}
NOT_APPLICABLE = {}


def claim(pid, technique, text, note, level="exploration", design="DESIGN.md section 5"):
    CHECKS[pid] = {"technique": technique, "text": text, "note": note, "level": level, "design": design}


claim("C07", "generated-input search: round-trip + exact-value oracle (CPython decimal), enumerated exponent grid",
      "Exploration: every exponent class x coefficient length x sign on a grid plus random decimal128 triples, FEEL literals, xsd "
      "input and arithmetic results are printed and the text is checked against plain/JSON grammars, exact value and read-back. Integers "
      "next to the limits of the machine integers and typed texts whose written exponent lies outside the format are included.",
      "Trusts CPython Decimal(text) exactness and the C library's own scientific string as the name of the stored value.")

claim("C01", "generated-input search: typed grammar-directed expression generator vs a reference FEEL evaluator (differential) + scope-shape metamorphic relation",
      "Exploration: tens of thousands of generated core-fragment expressions (every construct nested in the others to depth 4, depth 5 in the "
      "thorough tier) over generated bindings are evaluated by the SUT and by an independent reference evaluator written from DMN 1.3; "
      "results compared structurally, numbers numerically; the same text in a differently shaped scope must give the same value. Generated "
      "dimensions include closures, well-founded recursion, arity errors, bindings named like built-in functions and entries two or three "
      "levels below the items of a bound list; the second request writes the same tree with fewer parentheses.",
      "Trusts the reference evaluator pbt/oracles/feel.py; cases the DMN text does not decide are generated but only checked for scope "
      "invariance (counted as 'unspecified'). Open findings are tolerated only when the reference with exactly that deviation switched "
      "on predicts the SUT's value.")

claim("C13", "generated-input search over evaluation histories (op sequences + interpreter) with invariants checked after every step",
      "Exploration: generated histories of 5-40 evaluate/parse steps over 2-5 prepared expressions and 2-4 scopes of different stack shape "
      "(and, for models, histories of invocations); after every step every scope must render byte-identically to its initial rendering, "
      "recurring (expression, scope) pairs must give the same value, successful parses must leave the scope unchanged.",
      "Trusts Scope::to_string() to render the whole stack. Failed parses (outside the statement) may leave entries behind; the scope is "
      "re-baselined there and the rest of the history is still judged.")

claim("C10", "generated-input search: name-set generator with prefix families and operator-joined combinations; oracle = longest-bound-match rule + reference evaluator over primes",
      "Exploration: tens of thousands of (name set, expression template, spelling) triples; every bound name is a distinct prime so the "
      "result identifies which names were resolved; expected value computed from the statement's longest-match rule. Further bound names "
      "hold values of other shapes (bystanders), entries of bound contexts are reached by path, names are reused after the construct "
      "that introduced them. Every code point of the grammar's name start / name part ranges is tried as a bound one-character name and "
      "inside a bound name (sampled with all range ends in the quick tier, all of them in the thorough tier).",
      "Names are bound through public constructors (never through the lexer). Declaration sites (context keys, parameters) whose name has a "
      "bound prefix, and texts where the longest bound name ends inside an intended operand, are generated but not asserted (the "
      "statement does not decide them); counted in evidence classes.")

claim("C16", "exhaustive enumeration of the depth-1 type universe (1261 types: all pairs cell by cell against reference relations, all triples by boolean matrix algebra) + generated depth-2 families and coercion cases",
      "Exploration with exhaustive sub-spaces: every ordered pair of the 1261-type universe is compared with reference relations written from "
      "the statement and every ordered triple is checked for transitivity (M.M <= M on the SUT's own matrices); depth-2 types, coercion "
      "(value itself / wrap / unwrap / null, conforms-or-null, idempotence), parameter coercion through FEEL invocations and result coercion "
      "of functions with a declared result type (0..2 parameters, positional and named) are sampled. Part model-functions: function "
      "values made by models (typed knowledge models with literal, decision-table and boxed-context logic, decision services).",
      "Trusts the reference relations in pbt/oracles/types_ref.py and numpy's integer matrix product; depth 2 is sampled, not exhaustive.")

claim("C17", "state-space enumeration over observed workspace snapshots (all histories up to length 6) + generated long histories with shrinking, against a reference workspace model",
      "Exploration with an exhaustive part: breadth-first over every distinct reachable state (hook snapshot + evaluate answers + trial "
      "deploy), every operation applied to every state within 6 steps, equal-snapshot histories checked to behave equally, plus random "
      "histories of up to 60 operations; invariants and the reference model are compared after every step. Parts http / http-concurrent: "
      "the same histories through the service endpoints, and evaluations while other clients send requests that modify nothing.",
      "Uses the read-only hook Workspace::verif_snapshot (cfg dmntk_verif). The statement does not say which models a partly matching remove "
      "designates: either consistent reading is accepted.")

claim("C06", "exhaustive enumeration of ordered operator pairs (triples in the thorough tier) + generated trees/layouts; oracles: parenthesised round trip, reference precedence parser over token lists, layout metamorphic relation",
      "Exploration with exhaustive sub-spaces: every ordered pair of the 44 operator templates in every operand position and every "
      "parenthesis subset, number spellings x contexts, string escapes for sampled (quick) / all (thorough) code points, random trees to "
      "depth 6 and token-preserving layouts; the SUT's tree must equal the reference parser's tree (or both reject), the fully "
      "parenthesised and the minimal rendering must give back the tree, a dropped needed pair must not. Names bound only by an enclosing "
      "for / some / every / function / context (unknown to the caller's scope) are used inside further such constructs (exhaustive over "
      "outer binder x inner binder x use).",
      "Trusts the reference precedence parser in pbt/oracles/feel_syntax.py (transcribed from feel.y's declarations, calibrated against the "
      "pinned tables). Names are single words bound in the parsing scope; type names followed by words and a few words the lexer treats "
      "specially are constructed around and counted.")

claim("C14", "enumerated literal spaces (every whole-minute offset, every zone id known to both tz databases, month x day validity grid, fraction digit patterns, duration field grid, single-character corruptions) + generated literals; oracle: independent lexical grammar/value model, component comparison in integer nanoseconds, print/read-back round trip",
      "Exploration with exhaustive sub-spaces (offsets by whole minutes, zone identifiers, calendar validity grid): every literal goes "
      "through date()/time()/date and time()/duration(), @-literals and the xsd constructors; the value's components, its text and the "
      "re-read value are compared with a reference model; corrupted literals must be null. Part zone-twins: a zoned literal equals the same "
      "instant written in UTC and with the numeric offset, in both operand orders, also within hours of a switch. Named zones also stand "
      "next to years the zone rules say nothing about and at skipped local times (valid literals that print back).",
      "Trusts pbt/oracles/temporal_cal.py (self-tested against CPython datetime inside 1..9999) and the intersection of the zone databases of "
      "chrono-tz 0.6.3 and system tzdata. Forms on which XSD/FEEL are silent are labelled unspecified and only round-tripped.")

claim("C15", "enumerated calendar (every day of the sampled/all years -1..2400, component sweeps) + generated date/date-time/duration tuples against an independent proleptic-Gregorian and UTC-instant model",
      "Exploration with exhaustive sub-spaces: validity, weekday and components for every day of the enumerated years; date(y,m,d) "
      "component sweep; ordering/equality/between for sampled dates up to +-999999999; date-time comparison and subtraction in exact "
      "nanoseconds with explicit offsets and curated zones kept 4 h away from transitions; months-between; duration arithmetic.",
      "Trusts own day-number arithmetic (cross-checked against datetime) and zoneinfo for the curated zones inside 1980-2020; zone rules "
      "that differ between tz database releases are excluded.")

claim("C08", "generated argument tuples per built-in (39 functions) + exhaustive position x length grids and arity sweeps, differential against independent reference implementations; named = positional metamorphic relation",
      "Exploration: every built-in of the statement is evaluated on thousands of generated tuples (strings over ASCII/BMP/supplementary "
      "characters, lists 0..8 with duplicates/nulls/nesting, every position and length around the boundaries, every arity) positionally "
      "and with named parameters; results compared with a reference implementation written from DMN 1.3 tables 72-76. Where the text is "
      "not decisive, the values that NO reading allows are still refused (all/any with a deciding item among the arguments).",
      "Trusts pbt/oracles/bifs_ref.py (own regex matcher for the common sub-grammar, cross-checked against CPython re). Argument classes "
      "the specification does not decide are labelled unspecified and only checked for totality and named == positional.")

claim("C02", "boundary-alphabet grid (every operation x every tuple of a 72-value alphabet) + generated/constructed operand tuples (ties at digit 35, cancellation, range edges), differential against CPython decimal configured as decimal128 and exact rationals",
      "Exploration with an exhaustive grid: every arithmetic operator, comparison and numeric built-in on boundary tuples and tens of "
      "thousands of constructed tuples, through the FeelNumber API and through FEEL; correctly rounded results must match digit for digit, "
      "exp/log/inexact powers within 2 ulp, undefined or out-of-range results must be null, Infinity/NaN are never accepted. Constructed "
      "shapes include integer powers beyond the range edges and operands built from base-10^9 units drawn from a dictionary harvested from "
      "the numeric constants of the C sources (dividend = prefix of the divisor), coefficients built from the format's 3-digit groups and "
      "next to machine-integer limits, exp at 2^k times the arguments where the result leaves the range.",
      "Trusts libmpdec (CPython decimal) as an independent decimal128 implementation and fractions.Fraction for exact references.")

claim("C09", "exhaustive enumeration of ordered pairs (48x48) and per-kind triples of a value alphabet + generated pairs/triples; algebraic laws between observed results (no external oracle)",
      "Exploration with exhaustive sub-spaces: truth tables of and/or, symmetry of =, != as negation, mirror images of the ordering "
      "operators for all values; trichotomy, <= as (< or =), between/in-range/conjunction agreement for numbers, strings and dates. "
      "Generated structured values (lists and contexts nested to depth 2 over leaves of every kind, the second value mostly a near copy "
      "of the first) under the universal laws.",
      "Laws only relate results the SUT itself returned; nothing is asserted for kinds the statement does not call ordered.")

claim("C05", "generated-input search over five sources (mutations/truncations of every FEEL text harvested from the repository's tests, arbitrary Unicode, argument sweeps of all built-ins, nesting ramps, entry points x parsing scopes) on both builds + coverage-guided libFuzzer campaign (thorough); validity predicate oracle",
      "Exploration: hundreds of thousands of requests per run on the overflow-checked and the release build; a panic record, process "
      "death or a confirmed hang is a violation; the thorough tier adds a libFuzzer campaign on the feel_any target seeded with the "
      "harvested texts. Part local-zone runs driver processes whose TZ is a zone with daylight-saving time (zone-less values take the "
      "process's local offset). Text arguments of built-ins are related (the second occurs in the first, sliced between 1..4-byte "
      "characters); iteration ranges of astronomical length stand next to empty domains.",
      "A timeout counts only after three isolated re-runs with a 10x CPU-time budget (else exit 2). Open findings are matched by panic "
      "file + statement text, so line shifts do not create false alarms.")

claim("C03", "exhaustive grid of small tables (every subset of matching rules x every hit policy) + generated tables with input tuples derived from the table's own boundary points; differential against a reference decision-table evaluator and XML-vs-drawn-text differential",
      "Exploration with an exhaustive grid: the match pattern (none/one/several equal/several different/all) is chosen by construction; every "
      "table is evaluated through DMN XML and (when drawable) through recognised box-drawing text, both compared with an independent "
      "reference evaluator with its own unary-test evaluator. Input columns: numbers, strings, booleans, dates, times and date-times with "
      "milliseconds, both duration kinds.",
      "Trusts pbt/oracles/dtable_ref.py. Null inputs, inputs outside allowed values, defaults with several outputs and aggregators over "
      "non-numbers are labelled unspecified (totality/repeatability/path agreement only).")

claim("C19", "generated drawings (renderer for both orientations and all optional parts) with recognise(render(T)) = T round trip and evaluation differential; exhaustive single-character corruptions of small drawings on both builds",
      "Exploration with an exhaustive corruption part: thousands of generated drawings must be recognised field by field as drawn and "
      "evaluate like the same table loaded from XML; every position x {delete, blank, each box glyph} of small drawings and sampled "
      "corruptions of large ones must give a table or an error, never a panic.",
      "Trusts the renderer pbt/oracles/dtable_draw.py, validated against the repository's gallery (recognise -> render -> recognise).")

claim("C04", "generated acyclic requirement graphs (forced shape classes) evaluated against a reference DRG evaluator (differential) + metamorphic relation: entries outside the requirement closure do not change the result",
      "Exploration: thousands of generated models (inputs, decisions of every boxed kind, knowledge models, decision services) x every "
      "invocable x 3 inputs compared with a topological reference evaluation; the same invocation with extra unrelated entries must be "
      "identical. Services and decisions with typed variables, boxed invocations with an omitted binding, decision tables whose default "
      "output entry names required elements.",
      "Trusts pbt/oracles/drg_ref.py + the reference FEEL evaluator. Inputs that shadow a required decision/BKM are generated and labelled, "
      "not asserted (the TCK demands override for service input decisions).")

claim("C11", "generated item-definition trees (depth <= 3) with conforming values and values violating exactly one position; reference conformance/coercion from the statement",
      "Exploration: tens of thousands of item-definition trees used as input and output types; echo decisions show what reached the logic; "
      "typed output variables of decisions, knowledge models (invoked directly, by boxed invocation and by literal call) and decision "
      "services (one and several output decisions) show the coercion; the knowledge models' logic is a literal expression, a decision "
      "table or a boxed context; built-in type names inside <typeRef> elements are also written padded.",
      "Trusts pbt/oracles/itemdef_ref.py (+ C16's reference coercion). Extra context entries, allowed values on referencing definitions and "
      "on outputs are labelled and not asserted.")

claim("C12", "fault enumeration: every single structural fault (18 fault classes: element/attribute/text delete, duplicate, empty, swap, copy; href and typeRef retargeting to missing/self/ancestor/other kinds) at every position of shipped and generated models + sampled fault pairs and byte corruption, on both builds; validity predicate oracle; libFuzzer campaign on model_any in the thorough tier",
      "Fault enumeration: the quick tier enumerates all single faults of a seed-rotated subset of the 150 shipped models and of "
      "generated models completely (per-class counts in the evidence), the thorough tier all single faults of all files; every probe "
      "parses, builds and evaluates every invocable with an empty, a typical and a wrong-typed input; a panic, a confirmed process "
      "death or a confirmed hang is a violation. Part graph-shape loads valid models with long chains and wide lattices of requirements / "
      "type references, and every requirement cycle of up to three elements through every kind of edge with logic that follows the cycle.",
      "A death is confirmed alone in a fresh driver, a hang by 3 isolated re-runs (else exit 2). Panic signatures are keyed on crate path, "
      "enclosing function and statement text so that line shifts do not create false alarms.",
      level="fault_enumeration")

claim("C18", "generated request histories against the real service (definitions operations, evaluations, TCK round trips, 96 kinds of malformed request interleaved) judged by a strict JSON reader, in-process evaluation of the same value and the reference workspace model",
      "Exploration: thousands of request sequences against a service process started from the working tree; every body must be one "
      "well-formed JSON document with data or errors, data must decode to the value the same evaluation yields in process, typed TCK "
      "values must round-trip, the workspace must follow the reference model, and after every malformed request the next valid one "
      "must be answered correctly. Evaluation names that decorate a stored name (extension, slash, case, padding) are tried through "
      "both evaluation endpoints after every history; null is sent in every spelling the TCK format has.",
      "Assumes the evaluated value is the one the same evaluation yields in process (driver probe). A request without an answer is "
      "replayed on a fresh server before it counts.")

claim("C20", "generated thread plans (2..16 threads x 20..200 calls, barrier/yield/spin/skew/pinning perturbation) on one shared evaluator compared call by call with the sequential results; deadlock watchdog with 3 re-runs; ThreadSanitizer build of the same workload in the thorough tier",
      "Exploration of schedules by repeated perturbed runs: every concurrent result must equal the sequential result of the same call, "
      "the sequential pass afterwards must be unchanged (no poisoned lock), all threads must join before the watchdog; the thorough "
      "tier additionally runs the workload under ThreadSanitizer, where a reported data race is a violation even when values are right. "
      "Part first-use: all threads make the first evaluations of one invocable of a freshly built evaluator together (thousands of rounds).",
      "This family does not own the scheduler: interleavings are sampled, not enumerated. First-use races of lazily initialised "
      "globals are exercised by the `cold` part (fresh process, sequential pass after the threads), a few dozen starts per quick run. If the sanitizer build cannot be produced the "
      "evidence says so and no violation is raised for tooling.")
