"""Which properties are claimed, with the text that goes into MANIFEST.json."""

CHECKS = {}
NOT_APPLICABLE = {}


def claim(pid, technique, text, note, level="exploration", design="DESIGN.md section 5"):
    CHECKS[pid] = {"technique": technique, "text": text, "note": note, "level": level, "design": design}


claim("C07", "generated-input search: round-trip + exact-value oracle (CPython decimal), enumerated exponent grid",
      "Exploration: every exponent class x coefficient length x sign on a grid plus random decimal128 triples, FEEL literals, xsd "
      "input and arithmetic results are printed and the text is checked against plain/JSON grammars, exact value and read-back.",
      "Trusts CPython Decimal(text) exactness and the C library's own scientific string as the name of the stored value.")
