"""Which properties are claimed, with the text that goes into MANIFEST.json."""

CHECKS = {}
NOT_APPLICABLE = {}


def claim(pid, technique, text, note, level="exploration", design="DESIGN.md section 5"):
    CHECKS[pid] = {"technique": technique, "text": text, "note": note, "level": level, "design": design}


claim("C07", "generated-input search: round-trip + exact-value oracle (CPython decimal), enumerated exponent grid",
      "Exploration: every exponent class x coefficient length x sign on a grid plus random decimal128 triples, FEEL literals, xsd "
      "input and arithmetic results are printed and the text is checked against plain/JSON grammars, exact value and read-back.",
      "Trusts CPython Decimal(text) exactness and the C library's own scientific string as the name of the stored value.")

claim("C01", "generated-input search: typed grammar-directed expression generator vs a reference FEEL evaluator (differential) + scope-shape metamorphic relation",
      "Exploration: tens of thousands of generated core-fragment expressions (every construct nested in the others to depth 4, depth 5 in the "
      "thorough tier) over generated bindings are evaluated by the SUT and by an independent reference evaluator written from DMN 1.3; "
      "results compared structurally, numbers numerically; the same text in a differently shaped scope must give the same value.",
      "Trusts the reference evaluator pbt/oracles/feel.py; cases the DMN text does not decide are generated but only checked for scope "
      "invariance (counted as 'unspecified'). Open findings are tolerated only when the reference with exactly that deviation switched "
      "on predicts the SUT's value.")
