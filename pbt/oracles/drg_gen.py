"""Generator of acyclic decision requirement graphs (DRGs) + DMN XML writer (imports nothing from the SUT).

Public entry points (used by C04; C13 and others may call them):
    gen_model(src, **opts)        -> model (plain JSON, see below); acyclic by construction
    to_xml(model)                 -> DMN 1.3 <definitions> text
    invocables(model)             -> [names] in the order the driver reports them (decisions, BKMs, services)
    closure(model, name)          -> requirement closure of an invocable: {"inputs","decisions","knowledge","inner","params",
                                     "dangling"} (dangling: names the logic mentions although they are not required)
    gen_input(src, model, name)   -> input context [[entry name, wire value]...] with a conforming value for everything
                                     `name` needs (input data of its closure / BKM parameters / service parameters)
    gen_case(src, n_inputs=3, **opts) -> {"model","xml","invocables","targets":[{"name","inputs":[ctx...]}]}
                                     opts: fd_ok=False leaves out boxed function definitions (models with them are mostly
                                     refused by the SUT: finding C04/boxed-function-definition); shape=<one of SHAPES>

Model:
  {"inputs":    [{"name", "type"}]                          type: number|string|boolean|tNumList|tPoint
   "bkms":      [{"name","params":[[pname, typeRef|None]...],"pk":[intended type of each parameter],"reqK":[names],"logic":L,
                  "type":typeRef|None}]
   "decisions": [{"name","reqI":[..],"reqD":[..],"reqK":[..],"logic":L,"type":typeRef|None,"vk":intended type of the value|None,
                  "dangling":[names mentioned but not required]}]
   "services":  [{"name","inI":[..],"inD":[..],"enc":[..],"out":[..]}]
   "order":     [[kind, name]...]   creation order (an element requires only earlier ones)
   "shape":     label of the forced shape class}
Boxed logic L:
  ["lit", ast] | ["ctx", [[entry, L]...], L|None] | ["inv", fname, [[param, L]...]] | ["rel", [col...], [[ast...]...]]
  | ["fd", [param...], L] | ["dt", table]
  table = {"hp": "U"|"F"|"C", "inputs": [{"expr": ast, "kind": "num"|"str"}], "outputs": [name|None ...],
           "rules": [{"in": [test...], "out": [ast...]}]}
  test  = ["-"] | ["lt", lit] | ["ge", lit] | ["eq", lit] | ["rng", lo, hi]       (lit: number text or string)
ASTs are those of pbt/oracles/feel.py.
"""
from . import feel as F
from . import feel_gen as GEN
from . import dmn_xml as X

NUM, STR, BOOL, NULL = GEN.NUM, GEN.STR, GEN.BOOL, GEN.NULL
LNUM = ("list", NUM)
POINT = ("ctx", (("k", NUM), ("m", STR)))
INPUT_TYPES = [("number", NUM), ("string", STR), ("boolean", BOOL), ("tNumList", LNUM), ("tPoint", POINT)]
TYPE_OF_KIND = {NUM: "number", STR: "string", BOOL: "boolean"}

# no name is a prefix of another one, none contains a FEEL keyword as a word (name lexing is C06's subject)
INPUT_NAMES = ["Age", "Order size", "Customer kind", "Risk", "k9", "Region code 2"]
DECISION_NAMES = ["Discount", "Priority level", "Rating", "Fee", "Base Rate 2", "Approval status", "Total", "Net sum"]
BKM_NAMES = ["calc", "Scale by", "mix", "Pick larger"]
SERVICE_NAMES = ["Quote Service", "svcB"]
PARAM_NAMES = ["p", "q", "left arg"]
ENTRY_NAMES = ["t1", "Sub total", "u2", "w"]
COLUMN_NAMES = ["c1", "col B", "c3"]
# (the last three are names of built-in functions the generated logic calls: an input entry of that name is still outside every closure)
FRESH_NAMES = ["zz unused", "Other", "junk_1", "Shipping", "count", "sum", "string length"]
OUT_NAMES = ["o1", "out B"]
DANGLING_NAMES = ["Age", "Risk", "k9", "Other", "Shipping"]     # single words: an unbound multi-word name is a lexer matter (C06)


# ------------------------------------------------------------------------------------------------------------------
# expressions: feel_gen's typed generator restricted to the part of FEEL where the SUT and the reference agree
# ------------------------------------------------------------------------------------------------------------------

class DG(GEN.G):
    """`fns`: name -> [param names] for the function-kinded names of the environment (BKMs, services)."""

    def __init__(self, src, fns=None, wrong=0.04):
        GEN.G.__init__(self, src, wrong)
        self.fns = fns or {}

    def expr(self, k, depth, env):
        return GEN.G.expr(self, nk(k), depth, env)

    # C01's open findings: no boolean filters, no nested function values
    def p_filter(self, k, d, env):
        return self.p_for(k, d, env) if self.src.bool(0.5) else self.p_listlit(k, d, env)

    def p_item_key(self, k, d, env):
        return self.p_filter(k, d, env)

    def p_closure(self, k, d, env):
        return self.p_arith(k, d, env)

    def p_closure_loop(self, k, d, env):
        return self.p_arith(k, d, env)

    def fn_literal(self, k, env, d):
        raise AssertionError("function literals are not generated in decision logic")

    def candidates(self, k, env):
        """references of kind k: names, paths into context-kinded names, first item of list-kinded names"""
        out = []
        for n, kk in env.items():
            if kk == k:
                out.append(["name", n])
            elif kk[0] == "ctx":
                for key, ek in kk[1]:
                    if ek == k:
                        out.append(["path", ["name", n], key])
            elif kk[0] == "list" and kk[1] == k:
                out.append(["filter", ["name", n], ["idx", ["num", "1"]]])
        return out

    def leaf(self, k, env):
        s = self.src
        k = nk(k)
        c = self.candidates(k, env)
        if c and s.bool(0.7):
            return s.choice(c)
        if k[0] == "fn":
            raise AssertionError("no function leaf")
        if k[0] == "ctx":
            return ["ctx", [[name, self.leaf(kk, env)] for name, kk in k[1]]]
        return GEN.G.leaf(self, k, {})

    def call_of(self, name, env, d):
        fk = env[name]
        params = self.fns[name]
        args = [self.expr(a, max(0, d - 1), env) for a in fk[1]]
        if params and self.src.bool(0.35):
            return ["calln", ["name", name], self.src.shuffle([[p, a] for p, a in zip(params, args)])]
        return ["call", ["name", name], args]

    def p_call(self, k, d, env):
        fns = [n for n, kk in env.items() if kk[0] == "fn" and kk[2] == k and n in self.fns]
        if fns:
            return self.call_of(self.src.choice(fns), env, d)
        return self.p_if(k, d, env) if d > 0 and self.src.bool(0.5) else self.leaf(k, env)


def nk(k):
    """kinds the expression generator can produce: unknown item kinds become numbers, function kinds null"""
    if k == ("any",):
        return NUM
    if k[0] == "fn":
        return NULL
    if k[0] == "list":
        return ("list", nk(k[1]))
    if k[0] == "ctx":
        return ("ctx", tuple((n, nk(x)) for n, x in k[1]))
    return k


def mentions(x, acc=None):
    """names mentioned anywhere in an AST / boxed logic / table"""
    if acc is None:
        acc = set()
    if isinstance(x, list):
        if len(x) == 2 and x[0] == "name" and isinstance(x[1], str):
            acc.add(x[1])
        elif len(x) >= 2 and x[0] == "inv" and isinstance(x[1], str):
            acc.add(x[1])
            mentions(x[2:], acc)
        else:
            for y in x:
                mentions(y, acc)
    elif isinstance(x, dict):
        for y in x.values():
            mentions(y, acc)
    return acc


def use_of(g, name, kind, env, d=0):
    """an expression that depends on `name`"""
    if kind[0] == "fn":
        return g.call_of(name, env, d)
    return ["name", name]


# ------------------------------------------------------------------------------------------------------------------
# boxed logic
# ------------------------------------------------------------------------------------------------------------------

class Builder:
    def __init__(self, src, fd_ok=True):
        self.s = src
        self.fd_ok = fd_ok
        self.kinds = {}      # element name -> kind (function kind for BKMs/services)
        self.fns = {}        # BKM/service name -> [param names]

    def g(self):
        return DG(self.s, self.fns)

    def pick_kind(self, ctx_ok=True):
        return self.s.weighted([(5, NUM), (3, STR), (2, BOOL), (2, LNUM)] + ([(1, POINT)] if ctx_ok else []))

    # ---- one boxed expression of (intended) kind k over env; returns (logic, kind)
    def lit(self, k, env, depth):
        return ["lit", self.g().expr(k, depth, env)], k

    def context(self, k, env, depth):
        s = self.s
        env2 = dict(env)
        entries, ekinds = [], []
        shadow_ok = s.bool(0.15)
        pool = [n for n in ENTRY_NAMES if n not in env] + ([n for n in env if env[n][0] != "fn"] if shadow_ok else [])
        for _ in range(s.int(1, 3)):
            if not pool:
                break
            name = pool.pop(s.int(0, len(pool) - 1) if len(pool) > 1 else 0)
            ek = self.pick_kind(ctx_ok=False)
            if s.bool(0.15) and depth > 0:
                sub, ek = self.context(ek, env2, 0)       # nested boxed context
            else:
                sub, ek = self.lit(ek, env2, depth)
            entries.append([name, sub])
            ekinds.append((name, ek))
            env2[name] = ek
        if s.bool(0.5):
            final, fk = self.lit(k, env2, depth)
            # the result entry must depend on the entries, otherwise the context is dead code
            if not (mentions(final) & {n for n, _ in ekinds}):
                name, ek = ekinds[-1]
                final = ["lit", ["list", [final[1], ["name", name]]]]
                fk = ("list", ("any",))
            return ["ctx", entries, final], fk
        return ["ctx", entries, None], ("ctx", tuple(sorted(ekinds)))

    def invocation(self, fname, env, depth):
        fk = env[fname]
        g = self.g()
        binds = []
        for p, pk in zip(self.fns[fname], fk[1]):
            binds.append([p, ["lit", g.expr(pk, depth, env)]])
        if len(binds) >= 2 and self.s.bool(0.15):
            # one binding left out: that parameter is null inside the invoked function (never a same-named entry of the invoking element)
            binds.pop(self.s.int(0, len(binds) - 1))
        return ["inv", fname, self.s.shuffle(binds)], fk[2]

    def relation(self, env, depth):
        s = self.s
        cols = s.sample(COLUMN_NAMES, s.int(1, 3))
        ck = [self.s.choice([NUM, STR, BOOL]) for _ in cols]
        g = self.g()
        rows = [[g.expr(k, depth, env) for k in ck] for _ in range(s.int(1, 3))]
        return ["rel", cols, rows], ("list", ("ctx", tuple(sorted(zip(cols, ck)))))

    def table(self, env, depth):
        """small single-hit / collect table over 1..2 scalar names of the environment; None when there is none"""
        s = self.s
        g = self.g()
        cands = [(e, k) for k in (NUM, STR) for e in g.candidates(k, env)]
        if not cands:
            return None
        ins = s.sample(cands, s.int(1, 2))
        ok = s.choice([NUM, STR])
        hp = s.weighted([(3, "U"), (3, "F"), (2, "C")])
        first_kind = ins[0][1]
        if first_kind == NUM:
            t = s.choice(["1", "2", "5", "10"])
            parts = [["lt", t], ["ge", t]] if s.bool(0.6) else [["rng", "0", t], ["ge", str(int(t) + 1)], ["lt", "0"]]
        else:
            parts = [["eq", "a"], ["eq", "b"], ["eq", "abc"]]
        rules = []
        for p in parts:
            row = [p]
            for _, kk in ins[1:]:
                row.append(["-"] if hp == "U" or s.bool(0.6) else (["ge", s.choice(["0", "2"])] if kk == NUM else ["eq", s.choice(["a", "ab"])]))
            rules.append({"in": row, "out": [g.expr(ok, depth, env)]})
        # a default output entry (single-output, single-hit tables): an expression over the same environment as the output entries - it
        # names required inputs / decisions / parameters / earlier context entries - that applies when no rule matches; the rules then
        # leave part of the input space uncovered (the last part is dropped, no catch-all rule)
        default = None
        if hp != "C" and s.bool(0.4):
            default = g.expr(ok, min(depth, 1), env)
            if len(rules) > 1:
                rules.pop()
        if default is None and (hp == "F" or (hp == "C" and s.bool(0.5))):
            rules.append({"in": [["-"] for _ in ins], "out": [g.expr(ok, depth, env)]})
        outs = [None]
        if hp != "C" and default is None and s.bool(0.25):
            outs = list(OUT_NAMES)
            for r in rules:
                r["out"].append(g.expr(NUM, 0, env))
        T = {"hp": hp, "inputs": [{"expr": e, "kind": kk[0]} for e, kk in ins], "outputs": outs, "rules": rules}
        if default is not None:
            T["defaults"] = [default]
        if len(outs) > 1:
            k = ("ctx", tuple(sorted([(OUT_NAMES[0], ok), (OUT_NAMES[1], NUM)])))
        else:
            k = ok
        return ["dt", T], (("list", k) if hp == "C" else k)

    def fundef(self, env, depth):
        s = self.s
        params = s.sample(["x", "y2"], s.int(0, 2))
        env2 = dict(env)
        pk = []
        for p in params:
            env2[p] = NUM
            pk.append(NUM)
        body, k = self.lit(s.choice([NUM, STR]), env2, depth)
        if params and not (mentions(body) & set(params)):
            body = ["lit", ["list", [body[1], ["name", params[0]]]]]
            k = ("list", ("any",))
        return ["fd", params, body], ("fn", tuple(pk), k)

    def logic(self, form, k, env, depth, fname=None):
        if form == "ctx":
            return self.context(k, env, depth)
        if form == "inv":
            return self.invocation(fname, env, depth)
        if form == "rel":
            return self.relation(env, depth)
        if form == "dt":
            r = self.table(env, depth)
            if r is not None:
                return r
        if form == "fd":
            return self.fundef(env, depth)
        return self.lit(k, env, depth)

    def ensure_used(self, L, k, must, env):
        """every name of `must` is mentioned by the logic: unused ones are folded into the result"""
        unused = [n for n in must if n not in mentions(L)]
        if not unused:
            return L, k
        if L[0] == "fd":
            body, bk = self.ensure_used(L[2], k[2], must, env)
            return ["fd", L[1], body], ("fn", k[1], bk)
        g = self.g()
        uses = [use_of(g, n, env[n], env) for n in unused]
        if L[0] == "lit":
            return ["lit", ["list", [L[1]] + uses]], ("list", ("any",))
        if L[0] == "ctx":
            entries = list(L[1])
            taken = {n for n, _ in entries} | set(env)
            for u in uses:
                nm = [n for n in ["x1", "x2", "x3", "x4", "x5", "x6"] if n not in taken][0]
                taken.add(nm)
                entries.insert(0, [nm, ["lit", u]])
            if L[2] is None:
                return ["ctx", entries, None], ("ctx", ())
            return ["ctx", entries, ["lit", ["list", [L[2][1]] + [["name", n] for n, _ in entries[:len(uses)]]]]], ("list", ("any",))
        # invocation / relation / table / function definition: wrap into a context whose entries carry the uses
        entries = [["x%d" % (i + 1), ["lit", u]] for i, u in enumerate(uses)]
        entries.append(["x0", L])
        return ["ctx", entries, None], ("ctx", ())


# ------------------------------------------------------------------------------------------------------------------
# graphs
# ------------------------------------------------------------------------------------------------------------------

SHAPES = ["free", "diamond", "direct+service", "bkm-chain", "multi-out-service", "service-layers", "bkm-by-invocation", "fundef",
          "bkm-requires-service"]
FORMS = ["lit", "ctx", "inv", "rel", "dt", "fd"]


class Graph:
    def __init__(self, src, fd_ok=True):
        self.s = src
        self.b = Builder(src, fd_ok)
        self.m = {"inputs": [], "bkms": [], "decisions": [], "services": [], "order": [], "shape": "free"}
        self.dec = {}
        self.forms_left = []

    def kind(self, name):
        return self.b.kinds[name]

    def free_name(self, pool, prefix):
        used = set(self.b.kinds)
        for n in pool:
            if n not in used:
                return n
        i = 1
        while "%s%d" % (prefix, i) in used:
            i += 1
        return "%s%d" % (prefix, i)

    def add_input(self, type_index=None):
        s = self.s
        t, k = INPUT_TYPES[type_index] if type_index is not None else s.weighted([(5, INPUT_TYPES[0]), (3, INPUT_TYPES[1]), (2, INPUT_TYPES[2]),
                                                                                   (2, INPUT_TYPES[3]), (1, INPUT_TYPES[4])])
        name = self.free_name(s.shuffle(INPUT_NAMES) if s.bool(0.7) else INPUT_NAMES, "in")
        self.m["inputs"].append({"name": name, "type": t})
        self.b.kinds[name] = k
        self.m["order"].append(["input", name])
        return name

    def add_bkm(self, req=(), form=None):
        s = self.s
        name = self.free_name(s.shuffle(BKM_NAMES) if s.bool(0.7) else BKM_NAMES, "bkm")
        params = s.sample(PARAM_NAMES, s.int(1, 2))
        pk = [s.choice([NUM, STR]) if s.bool(0.3) else NUM for _ in params]
        typed = [TYPE_OF_KIND[k] if s.bool(0.3) else None for k in pk]
        env = dict(zip(params, pk))
        for r in req:
            env[r] = self.kind(r)
        forms = [(6, "lit"), (2, "ctx"), (2, "dt"), (1, "rel")]
        callable_req = [r for r in req if self.kind(r)[0] == "fn"]
        if callable_req:
            forms.append((4, "inv"))
        form = form or s.weighted(forms)
        k = self.b.pick_kind(ctx_ok=False) if s.bool(0.5) else NUM
        L, k = self.b.logic(form, k, env, s.int(0, 1), fname=(s.choice(callable_req) if callable_req else None))
        L, k = self.b.ensure_used(L, k, list(params) + list(req), env)
        dangling = []
        if L[0] == "lit" and s.bool(0.12):
            # a name that is neither a parameter nor required knowledge (a modelling slip: input data referenced from a knowledge model):
            # unbound in the model's logic whatever the input context holds
            cands = [n for n in DANGLING_NAMES if n not in env and n not in mentions(L)]
            if cands:
                dn = s.choice(cands)
                dangling.append(dn)
                L, k = ["lit", ["list", [L[1], ["name", dn]]]], ("list", ("any",))
        vtype = TYPE_OF_KIND.get(k) if s.bool(0.2) else None
        self.m["bkms"].append({"name": name, "params": [[p, t] for p, t in zip(params, typed)], "reqK": list(req), "logic": L, "type": vtype,
                               "pk": [TYPE_OF_KIND[x] for x in pk], "dangling": dangling})
        self.b.kinds[name] = ("fn", tuple(pk), k)
        self.b.fns[name] = list(params)
        self.m["order"].append(["bkm", name])
        return name

    def add_decision(self, must=(), maybe=(), form=None, kind=None):
        """requires every name of `must` and those names of `maybe` that its logic happens to mention"""
        s = self.s
        name = self.free_name(s.shuffle(DECISION_NAMES) if s.bool(0.7) else DECISION_NAMES, "dec")
        env = {}
        for r in list(must) + list(maybe):
            env[r] = self.kind(r)
        callable_req = [r for r in must if self.kind(r)[0] == "fn"] or [r for r in env if self.kind(r)[0] == "fn"]
        if form is None:
            forms = [(6, "lit"), (3, "ctx"), (2, "rel"), (2, "dt")]
            if callable_req:
                forms.append((5, "inv"))
            if self.b.fd_ok:
                forms.append((1, "fd"))
            form = s.weighted(forms)
        if form == "inv" and not callable_req:
            form = "lit"
        k = kind or self.b.pick_kind()
        L, k = self.b.logic(form, k, env, s.int(1, 2) if form in ("lit", "ctx") else s.int(0, 1),
                            fname=(s.choice(callable_req) if callable_req else None))
        L, k = self.b.ensure_used(L, k, list(must), env)
        used = mentions(L)
        dangling = []
        if L[0] == "lit" and s.bool(0.12):
            # a name the decision does not require (a modelling slip): unbound in its logic whatever the input context holds
            cands = [n for n in DANGLING_NAMES if n not in env and n not in used]
            if cands:
                dn = s.choice(cands)
                dangling.append(dn)
                L, k = ["lit", ["list", [L[1], ["name", dn]]]], ("list", ("any",))
        req = [r for r in env if r in used]
        kinds = {r: self.kind_of_element(r) for r in req}
        vtype = TYPE_OF_KIND.get(k) if s.bool(0.25) else None
        if k[0] == "fn":
            self.b.fns[name] = list(L[1]) if L[0] == "fd" else []
        vk = {NUM: "number", STR: "string", BOOL: "boolean", LNUM: "tNumList", POINT: "tPoint"}.get(k)
        d = {"name": name, "vk": vk, "reqI": [r for r in req if kinds[r] == "input"], "reqD": [r for r in req if kinds[r] == "decision"],
             "reqK": [r for r in req if kinds[r] in ("bkm", "service")], "logic": L, "type": vtype, "form": L[0], "dangling": dangling}
        self.m["decisions"].append(d)
        self.dec[name] = d
        self.b.kinds[name] = k
        self.m["order"].append(["decision", name])
        return name

    def kind_of_element(self, name):
        for kind, n in self.m["order"]:
            if n == name:
                return kind
        raise KeyError(name)

    def add_service(self, outs, cut_prob=0.5, force_input=None):
        """outputs `outs`; walks their required decisions: each one becomes encapsulated (walk on) or an input decision"""
        s = self.s
        name = self.free_name(SERVICE_NAMES, "svc")
        enc, inD, inI = [], [], []
        seen = set(outs)
        stack = list(outs)
        while stack:
            d = self.dec[stack.pop(0)]
            for i in d["reqI"]:
                if i not in inI:
                    inI.append(i)
            for r in d["reqD"]:
                if r in seen:
                    continue
                seen.add(r)
                if (force_input is not None and r in force_input) or (force_input is None and s.bool(cut_prob)):
                    inD.append(r)
                else:
                    enc.append(r)
                    stack.append(r)
        sv = {"name": name, "inI": inI, "inD": inD, "enc": enc, "out": list(outs)}
        self.m["services"].append(sv)
        if len(outs) == 1:
            k = self.kind(outs[0])
            # the service's own output variable may be typed (more often when an input decision is typed too: the parameter types of
            # the function the service is bound to come from the input decisions' variables, not from the service's)
            typed_in = any(self.dec[d].get("type") for d in inD)
            if TYPE_OF_KIND.get(k) and s.bool(0.6 if typed_in else 0.25):
                sv["type"] = TYPE_OF_KIND[k]
        else:
            k = ("ctx", tuple(sorted((o, self.kind(o)) for o in outs)))
        params = inI + inD
        self.b.kinds[name] = ("fn", tuple(self.kind(p) for p in params), k)
        self.b.fns[name] = list(params)
        self.m["order"].append(["service", name])
        return name

    # ---- helpers for picking requirements
    def earlier(self, kinds):
        return [n for k, n in self.m["order"] if k in kinds]

    def pick_reqs(self):
        s = self.s
        ins = self.earlier(("input",))
        decs = [d for d in self.earlier(("decision",)) if self.kind(d)[0] != "fn" or s.bool(0.5)]
        know = self.earlier(("bkm", "service"))
        must = s.sample(ins, s.int(0, min(2, len(ins))))
        must += s.sample(decs, s.int(0, min(2, len(decs))))
        if know and s.bool(0.5):
            must += s.sample(know, 1)
        if not must:
            must = s.sample(ins + decs, 1)
        maybe = [n for n in s.sample(ins + decs, s.int(0, 2)) if n not in must]
        return must, maybe


def gen_model(src, fd_ok=True, shape=None):
    s = src
    g = Graph(s, fd_ok)
    shapes = [(4, "free"), (2, "diamond"), (2, "direct+service"), (2, "bkm-chain"), (2, "multi-out-service"), (2, "service-layers"),
              (2, "bkm-by-invocation"), (1, "bkm-requires-service")] + ([(1, "fundef")] if fd_ok else [])
    shape = shape or s.weighted(shapes)
    g.m["shape"] = shape
    # boxed function definitions elsewhere than in the `fundef` shape are rare: the SUT refuses such models as a whole
    g.b.fd_ok = fd_ok and (shape == "fundef" or s.bool(0.04))
    n_in = s.int(1, 4)
    for i in range(n_in):
        g.add_input(0 if i == 0 else None)
    ins = g.earlier(("input",))
    if shape == "diamond":
        a = g.add_decision(must=[ins[0]]) if s.bool(0.5) else ins[0]
        b = g.add_decision(must=[a], maybe=ins)
        c = g.add_decision(must=[a], maybe=ins)
        g.add_decision(must=[b, c])
    elif shape == "direct+service":
        x = g.add_decision(must=[ins[0]], maybe=ins)
        o = g.add_decision(must=[x], maybe=ins) if s.bool(0.6) else x
        sv = g.add_service([o], force_input=[] if s.bool(0.5) else None)
        g.add_decision(must=[x, sv], maybe=ins)
    elif shape == "bkm-chain":
        b1 = g.add_bkm()
        b2 = g.add_bkm(req=[b1])
        if s.bool(0.3):
            b2 = g.add_bkm(req=[b2] + ([b1] if s.bool(0.5) else []))
        g.add_decision(must=[b2, ins[0]], form=s.choice(["lit", "inv"]))
    elif shape == "bkm-by-invocation":
        b1 = g.add_bkm()
        g.add_decision(must=[b1, ins[0]], form="inv")
        g.add_decision(must=[b1, ins[0]], form="lit")
    elif shape == "multi-out-service":
        x = g.add_decision(must=[ins[0]], maybe=ins)
        o1 = g.add_decision(must=[x], maybe=ins)
        o2 = g.add_decision(must=[x] if s.bool(0.5) else [ins[-1]], maybe=ins)
        outs = [o1, o2] + ([x] if s.bool(0.2) else [])
        sv = g.add_service(outs)
        if s.bool(0.6):
            g.add_decision(must=[sv], maybe=ins)
    elif shape == "service-layers":
        a = g.add_decision(must=[ins[0]])
        b = g.add_decision(must=[a], maybe=ins)
        c = g.add_decision(must=[b], maybe=ins)
        g.add_service([c], force_input=[a] if s.bool(0.5) else [b])
        if s.bool(0.5):
            g.add_service([c], force_input=[])
    elif shape == "bkm-requires-service":
        x = g.add_decision(must=[ins[0]], maybe=ins)
        sv = g.add_service([x])
        b1 = g.add_bkm(req=[sv])
        g.add_decision(must=[b1, ins[0]])
    elif shape == "fundef":
        f = g.add_decision(must=[ins[0]], form="fd")
        g.add_decision(must=[f], maybe=ins, form=s.choice(["lit", "ctx"]))
    # free additional elements up to the size bounds
    room_d = 6 - len(g.m["decisions"])
    room_b = 3 - len(g.m["bkms"])
    room_s = 2 - len(g.m["services"])
    extra = s.int(1 if not g.m["decisions"] else 0, 3)
    for _ in range(extra):
        what = s.weighted([(6, "decision"), (2, "bkm"), (1, "service")])
        if what == "bkm" and room_b > 0:
            earlier = g.earlier(("bkm",))
            g.add_bkm(req=s.sample(earlier, s.int(0, 1)) if earlier else [])
            room_b -= 1
        elif what == "service" and room_s > 0 and g.m["decisions"]:
            decs = g.earlier(("decision",))
            g.add_service(s.sample(decs, s.int(1, min(2, len(decs)))))
            room_s -= 1
        elif room_d > 0:
            must, maybe = g.pick_reqs()
            g.add_decision(must=must, maybe=maybe)
            room_d -= 1
    if not g.m["decisions"]:
        g.add_decision(must=[ins[0]])
    return g.m


# ------------------------------------------------------------------------------------------------------------------
# XML
# ------------------------------------------------------------------------------------------------------------------

ITEM_DEFS = (X.item_definition("tNumList", type_ref="number", is_collection=True)
             + X.item_definition("tPoint", components=[("k", "number"), ("m", "string")]))


def ids(model):
    """identifiers as modelling tools write them: opaque (a digest of the name), so that their alphabetical order has nothing to do with the
    order in which elements are created, listed or required"""
    import hashlib
    out = {}
    for kind, tag in (("inputs", "i"), ("decisions", "d"), ("bkms", "b"), ("services", "s")):
        for i, x in enumerate(model[kind]):
            out[x["name"]] = "_%s_%s%d" % (hashlib.sha1(x["name"].encode("utf-8")).hexdigest()[:6], tag, i)
    return out


def test_text(t):
    k = t[0]
    if k == "-":
        return "-"
    lit = lambda v: v if _is_num(v) else F.esc(v)
    if k == "lt":
        return "< " + lit(t[1])
    if k == "ge":
        return ">= " + lit(t[1])
    if k == "eq":
        return lit(t[1])
    if k == "rng":
        return "[%s..%s]" % (lit(t[1]), lit(t[2]))
    raise ValueError(t)


def _is_num(v):
    return bool(v) and (v[0].isdigit() or (v[0] == "-" and len(v) > 1))


HP_XML = {"U": "UNIQUE", "F": "FIRST", "C": "COLLECT"}


def table_xml(T):
    d = {"hit_policy": HP_XML[T["hp"]], "inputs": [{"expr": F.r(c["expr"])} for c in T["inputs"]],
         "outputs": [{"name": n, "default": (F.r(T["defaults"][i]) if T.get("defaults") and T["defaults"][i] is not None else None)}
                     for i, n in enumerate(T["outputs"])],
         "rules": [{"in": [test_text(t) for t in r["in"]], "out": [F.r(e) for e in r["out"]]} for r in T["rules"]]}
    return X.decision_table(d)


def logic_xml(L):
    t = L[0]
    if t == "lit":
        return X.literal_expression(F.r(L[1]))
    if t == "ctx":
        out = ["<context>"]
        for name, sub in L[1]:
            out.append('<contextEntry><variable name="%s"/>%s</contextEntry>' % (X.esc(name), logic_xml(sub)))
        if L[2] is not None:
            out.append("<contextEntry>%s</contextEntry>" % logic_xml(L[2]))
        out.append("</context>")
        return "".join(out)
    if t == "inv":
        out = ["<invocation>", X.literal_expression(L[1])]
        for p, sub in L[2]:
            out.append('<binding><parameter name="%s"/>%s</binding>' % (X.esc(p), logic_xml(sub)))
        out.append("</invocation>")
        return "".join(out)
    if t == "rel":
        out = ["<relation>"]
        for c in L[1]:
            out.append('<column name="%s"/>' % X.esc(c))
        for row in L[2]:
            out.append("<row>%s</row>" % "".join(X.literal_expression(F.r(e)) for e in row))
        out.append("</relation>")
        return "".join(out)
    if t == "fd":
        return "<functionDefinition>%s%s</functionDefinition>" % (
            "".join('<formalParameter name="%s"/>' % X.esc(p) for p in L[1]), logic_xml(L[2]))
    if t == "dt":
        return table_xml(L[1])
    raise ValueError(t)


def _var(name, type_ref):
    return '<variable name="%s"%s/>' % (X.esc(name), ' typeRef="%s"' % type_ref if type_ref else "")


def to_xml(model, name="drg"):
    idm = ids(model)
    els = [ITEM_DEFS]
    for x in model["inputs"]:
        els.append('<inputData name="%s" id="%s">%s</inputData>' % (X.esc(x["name"]), idm[x["name"]], _var(x["name"], x["type"])))
    for d in model["decisions"]:
        out = ['<decision name="%s" id="%s">' % (X.esc(d["name"]), idm[d["name"]]), _var(d["name"], d.get("type"))]
        for r in d["reqD"]:
            out.append('<informationRequirement><requiredDecision href="#%s"/></informationRequirement>' % idm[r])
        for r in d["reqI"]:
            out.append('<informationRequirement><requiredInput href="#%s"/></informationRequirement>' % idm[r])
        for r in d["reqK"]:
            out.append('<knowledgeRequirement><requiredKnowledge href="#%s"/></knowledgeRequirement>' % idm[r])
        out.append(logic_xml(d["logic"]))
        out.append("</decision>")
        els.append("".join(out))
    for b in model["bkms"]:
        out = ['<businessKnowledgeModel name="%s" id="%s">' % (X.esc(b["name"]), idm[b["name"]]), _var(b["name"], b.get("type")),
               "<encapsulatedLogic>"]
        for p, t in b["params"]:
            out.append('<formalParameter name="%s"%s/>' % (X.esc(p), ' typeRef="%s"' % t if t else ""))
        out.append(logic_xml(b["logic"]))
        out.append("</encapsulatedLogic>")
        for r in b["reqK"]:
            out.append('<knowledgeRequirement><requiredKnowledge href="#%s"/></knowledgeRequirement>' % idm[r])
        out.append("</businessKnowledgeModel>")
        els.append("".join(out))
    for sv in model["services"]:
        out = ['<decisionService name="%s" id="%s">' % (X.esc(sv["name"]), idm[sv["name"]]), _var(sv["name"], sv.get("type"))]
        for r in sv["out"]:
            out.append('<outputDecision href="#%s"/>' % idm[r])
        for r in sv["enc"]:
            out.append('<encapsulatedDecision href="#%s"/>' % idm[r])
        for r in sv["inD"]:
            out.append('<inputDecision href="#%s"/>' % idm[r])
        for r in sv["inI"]:
            out.append('<inputData href="#%s"/>' % idm[r])
        out.append("</decisionService>")
        els.append("".join(out))
    return X.definitions(name, els)


# ------------------------------------------------------------------------------------------------------------------
# invocables, closures, inputs
# ------------------------------------------------------------------------------------------------------------------

def invocables(model):
    return [d["name"] for d in model["decisions"]] + [b["name"] for b in model["bkms"]] + [s["name"] for s in model["services"]]


def index(model):
    out = {}
    for kind in ("inputs", "decisions", "bkms", "services"):
        for x in model[kind]:
            out[x["name"]] = (kind[:-1], x)
    return out


def closure(model, name):
    """Names in the requirement closure of an invocable.
    inputs: input data whose supplied value can reach the result; decisions: required decisions (transitively);
    knowledge: required BKMs/services (transitively); inner: decisions/inputs inside required services (reached through
    arguments only); params: formal parameter names (BKM parameters of the invoked BKM, service parameters of the
    invoked service)"""
    idx = index(model)
    c = {"inputs": [], "decisions": [], "knowledge": [], "inner": [], "params": [], "dangling": []}

    def add(key, n):
        if n not in c[key]:
            c[key].append(n)
            return True
        return False

    def know(k):
        if not add("knowledge", k):
            return
        kind, x = idx[k]
        if kind == "bkm":
            for n in x.get("dangling", []):
                add("dangling", n)
            for r in x["reqK"]:
                know(r)
        else:
            for r in x["out"] + x["enc"] + x["inD"] + x["inI"]:
                add("inner", r)

    def dec(d, top=False):
        if not top and not add("decisions", d):
            return
        x = idx[d][1]
        for n in x.get("dangling", []):
            add("dangling", n)
        for r in x["reqI"]:
            add("inputs", r)
        for r in x["reqD"]:
            dec(r)
        for r in x["reqK"]:
            know(r)

    kind, x = idx[name]
    if kind == "decision":
        dec(name, top=True)
    elif kind == "bkm":
        for p, _ in x["params"]:
            add("params", p)
        for n in x.get("dangling", []):
            add("dangling", n)
        for r in x["reqK"]:
            know(r)
    else:
        for p in x["inI"] + x["inD"]:
            add("params", p)
        for i in x["inI"]:
            add("inputs", i)
        # inside the service: output and encapsulated decisions with everything they require
        inD = set(x["inD"])

        def inner(d):
            y = idx[d][1]
            for n in y.get("dangling", []):
                add("dangling", n)
            for r in y["reqD"]:
                if r not in inD and add("decisions", r):
                    inner(r)
            for r in y["reqK"]:
                know(r)
        for d in x["out"] + x["enc"]:
            add("decisions", d)
        for d in x["out"] + x["enc"]:
            inner(d)
    return c


def all_names(model):
    """every name that occurs anywhere in the model (elements, parameters, context entries, columns)"""
    out = []

    def walk(L):
        if L[0] == "ctx":
            for n, sub in L[1]:
                out.append(n)
                walk(sub)
            if L[2] is not None:
                walk(L[2])
        elif L[0] == "inv":
            for p, sub in L[2]:
                walk(sub)
        elif L[0] == "fd":
            out.extend(L[1])
            walk(L[2])
        elif L[0] == "rel":
            out.extend(L[1])
    for x in model["inputs"]:
        out.append(x["name"])
    for d in model["decisions"]:
        out.append(d["name"])
        walk(d["logic"])
    for b in model["bkms"]:
        out.append(b["name"])
        out.extend(p for p, _ in b["params"])
        walk(b["logic"])
    for sv in model["services"]:
        out.append(sv["name"])
    seen, uniq = set(), []
    for n in out:
        if n not in seen:
            seen.add(n)
            uniq.append(n)
    return uniq


KIND_OF_TYPE = dict(INPUT_TYPES)


def value_of_type(src, t):
    g = GEN.G(src)
    k = KIND_OF_TYPE.get(t, NUM)
    v = g.value(k)
    if k == LNUM:
        v = {"l": [x for x in v["l"] if x is not None]}     # a null item does not conform to the SUT's collection types (C11)
    return v


def any_value(src):
    g = GEN.G(src)
    return g.value(src.choice([NUM, STR, BOOL, LNUM, POINT]))


def needed(model, name):
    """[(entry name, type or None)] the input context of invocable `name` is made of"""
    idx = index(model)
    kind, x = idx[name]
    if kind == "decision":
        c = closure(model, name)
        return [(i, idx[i][1]["type"]) for i in c["inputs"]]
    if kind == "bkm":
        return [(p, t or vk) for (p, t), vk in zip(x["params"], x.get("pk") or [None] * len(x["params"]))]
    return [(i, idx[i][1]["type"]) for i in x["inI"]] + [(d, idx[d][1].get("type") or idx[d][1].get("vk")) for d in x["inD"]]


def gen_input(src, model, name):
    out = []
    for n, t in needed(model, name):
        if t is None:
            out.append([n, value_of_type(src, src.choice(["number", "number", "string"]))])
        else:
            out.append([n, value_of_type(src, t)])
    return out


def gen_case(src, n_inputs=3, **opts):
    m = gen_model(src, **opts)
    names = invocables(m)
    return {"model": m, "xml": to_xml(m), "invocables": names,
            "targets": [{"name": n, "inputs": [gen_input(src, m, n) for _ in range(n_inputs)]} for n in names]}
